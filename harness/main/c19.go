//go:build verif

package main

// C19: an in-use resource cannot be deleted; protection ends exactly when use ends.
//
// Drives the REAL usage webhook handler (internal/usage, registered through the
// real SetupWebhookWithManager so that the real field-index function and the
// real handler wiring are used) and the REAL Usage reconciler
// (internal/controller/apiextensions/usage) over simstore. ONE Reconciler, ONE
// webhook Handler and ONE client (c19_world.go: informer-cache views for the typed
// reads, error classes) are built per scenario, as Setup / SetupWebhookWithManager
// build them once per process. Reconciles run as parked goroutines of that one
// Reconciler that the scenario's schedule releases one API call at a time, so
// every interleaving at API-call granularity the Lean model distinguishes - with
// other reconciles, users, other writers ('er'), the garbage collector, the XR
// composer - can be forced deterministically. Admission is invoked by the
// store on Delete exactly as cluster/webhookconfigurations/usage.yaml (parsed at
// run time) prescribes.

import (
	"context"
	"encoding/json"
	"fmt"
	"net/http"
	"os"
	"path/filepath"
	"sort"
	"strings"
	"sync"
	"time"

	"github.com/go-logr/logr"

	admissionv1 "k8s.io/api/admission/v1"
	admregv1 "k8s.io/api/admissionregistration/v1"
	corev1 "k8s.io/api/core/v1"
	kerrors "k8s.io/apimachinery/pkg/api/errors"
	metav1 "k8s.io/apimachinery/pkg/apis/meta/v1"
	"k8s.io/apimachinery/pkg/apis/meta/v1/unstructured"
	"k8s.io/apimachinery/pkg/labels"
	"k8s.io/apimachinery/pkg/runtime"
	"k8s.io/apimachinery/pkg/runtime/schema"
	"k8s.io/apimachinery/pkg/types"
	"sigs.k8s.io/controller-runtime/pkg/client"
	crlog "sigs.k8s.io/controller-runtime/pkg/log"
	"sigs.k8s.io/controller-runtime/pkg/manager"
	"sigs.k8s.io/controller-runtime/pkg/reconcile"
	"sigs.k8s.io/controller-runtime/pkg/webhook"
	"sigs.k8s.io/controller-runtime/pkg/webhook/admission"
	"sigs.k8s.io/yaml"

	xpv1 "github.com/crossplane/crossplane-runtime/apis/common/v1"
	xpcontroller "github.com/crossplane/crossplane-runtime/pkg/controller"
	"github.com/crossplane/crossplane-runtime/pkg/logging"
	xpresource "github.com/crossplane/crossplane-runtime/pkg/resource"
	xpunstructured "github.com/crossplane/crossplane-runtime/pkg/resource/unstructured"
	"github.com/crossplane/crossplane-runtime/pkg/resource/unstructured/composed"

	"github.com/crossplane/crossplane/apis/apiextensions/v1beta1"
	usagectrl "github.com/crossplane/crossplane/internal/controller/apiextensions/usage"
	usagehook "github.com/crossplane/crossplane/internal/usage"
	"github.com/crossplane/crossplane/internal/xcrd"
)

// ---------------------------------------------------------------- scenario

type c19Sel struct {
	Labels map[string]string `json:"labels"`
	MC     bool              `json:"mc,omitempty"`
}

type c19RSpec struct {
	AV   string  `json:"av"`
	Kind string  `json:"kind"`
	Name string  `json:"name,omitempty"` // "" = no resourceRef
	Sel  *c19Sel `json:"sel,omitempty"`
}

// c19Step is one schedule entry. Ops:
//
//	cr    create resource (av, kind, name, labels, inuse, ctrl)
//	cu    create Usage (name, of, by, reason, composed, ctrl)
//	du    user deletes Usage name
//	dr    delete request for a resource (av, kind, name, policy, wo = outcomes of the webhook's List and Patch)
//	gc    Kubernetes GC considers one object (kind "Usage" or av/kind, name)
//	xa    the XR composer re-applies the composed Usage name, controlled by XR ctrl (RespectOwnerRefs);
//	      av = the apiVersion the Composition's template names for the Usage ("" = v1beta1)
//	er    another writer merges labels into a resource (av, kind, name, labels): a merge patch
//	start start a reconcile of Usage u (parked before its first call)
//	step  let the reconcile of u perform its next API call with outcome o
//	run   start (unless in flight) and run the reconcile of u to completion, all calls ok
type c19Step struct {
	Op       string            `json:"op"`
	AV       string            `json:"av,omitempty"`
	Kind     string            `json:"kind,omitempty"`
	Name     string            `json:"name,omitempty"`
	Labels   map[string]string `json:"labels,omitempty"`
	InUse    bool              `json:"inuse,omitempty"`
	Ctrl     string            `json:"ctrl,omitempty"`
	Of       *c19RSpec         `json:"of,omitempty"`
	By       *c19RSpec         `json:"by,omitempty"`
	Reason   string            `json:"reason,omitempty"`
	Composed bool              `json:"composed,omitempty"`
	Fin      bool              `json:"fin,omitempty"` // cu: the Usage is created already carrying the controller's finalizer (templated / restored)
	Policy   string            `json:"policy,omitempty"`
	WO       []string          `json:"wo,omitempty"`
	U        string            `json:"u,omitempty"`
	O        string            `json:"o,omitempty"`
	E        string            `json:"e,omitempty"`  // step: error class of an injected failure (o == "fail")
	V        int               `json:"v,omitempty"`  // step, dr: events the informer cache lags behind for this call's cached read
	Rq       *c19Req           `json:"rq,omitempty"` // dr: shape of the admission request
}

// c19Req: how the API server builds the admission request of a delete (the verdict must depend
// on the OBJECT - oldObject - and the delete options' propagation policy only).
type c19Req struct {
	Coll  bool   `json:"coll,omitempty"`  // deletecollection: one call per object, oldObject set, request.name EMPTY
	NS    string `json:"ns,omitempty"`    // request.namespace
	RKV   string `json:"rkv,omitempty"`   // version of request.requestKind / requestResource (the version the client used; request.kind is the version the object was converted to)
	Dry   bool   `json:"dry,omitempty"`   // dryRun: admission is consulted, nothing is deleted
	Sub   string `json:"sub,omitempty"`   // request.subResource
	Op    string `json:"op,omitempty"`    // operation other than DELETE (CREATE UPDATE CONNECT): the handler refuses to judge
	Grace int    `json:"grace,omitempty"` // options.gracePeriodSeconds = grace-1 (0 = unset)
	Pre   bool   `json:"pre,omitempty"`   // options.preconditions.uid = the object's uid
}

type c19Scn struct {
	MaxC  int       `json:"maxc"`
	Steps []c19Step `json:"steps"`
}

type c19OUsage struct {
	Name     string   `json:"name"`
	OfName   string   `json:"ofName"`
	ByName   string   `json:"byName"`
	Fin      bool     `json:"fin"`
	Deleting bool     `json:"deleting"`
	Ready    bool     `json:"ready"`
	Details  string   `json:"details"`
	Owners   []string `json:"owners"`
}

type c19ORes struct {
	Key     string   `json:"key"` // kind.group/name
	InUse   bool     `json:"inUse"`
	Attempt string   `json:"attempt"`
	Owners  []string `json:"owners"`
}

type c19Obs struct {
	Steps  []string    `json:"steps"`
	Usages []c19OUsage `json:"usages"`
	Res    []c19ORes   `json:"res"`
}

const (
	c19XRAV      = "ex.org/v1"
	c19XRKind    = "XR"
	c19PollEvery = 7 * time.Minute
)

var c19UsageGK = schema.GroupKind{Group: v1beta1.Group, Kind: v1beta1.UsageKind}

// ---------------------------------------------------------------- wiring of the real code

type c19Indexer struct {
	field string
	fn    client.IndexerFunc
}

func (i *c19Indexer) IndexField(_ context.Context, _ client.Object, field string, fn client.IndexerFunc) error {
	i.field, i.fn = field, fn
	return nil
}

type c19HookServer struct {
	webhook.Server
	hooks map[string]http.Handler
}

func (s *c19HookServer) Register(path string, h http.Handler) { s.hooks[path] = h }

type c19Mgr struct {
	manager.Manager
	cl  client.Client
	idx *c19Indexer
	wh  *c19HookServer
}

func (m *c19Mgr) GetClient() client.Client             { return m.cl }
func (m *c19Mgr) GetFieldIndexer() client.FieldIndexer { return m.idx }
func (m *c19Mgr) GetWebhookServer() webhook.Server     { return m.wh }

// c19HookCfg is what cluster/webhookconfigurations/usage.yaml prescribes.
type c19HookCfg struct {
	Err      string
	Path     string
	Selector labels.Selector
	SelMap   map[string]string
	Ops      []string
	Groups   []string
	Fail     bool // failurePolicy Fail
}

func c19RepoDir() string {
	if d := os.Getenv("VERIF_REPO"); d != "" {
		return d
	}
	return "/repo"
}

var c19HookCfgCache *c19HookCfg

func c19LoadHookCfg() *c19HookCfg {
	if c19HookCfgCache != nil {
		return c19HookCfgCache
	}
	cfg := &c19HookCfg{}
	c19HookCfgCache = cfg
	b, err := os.ReadFile(filepath.Join(c19RepoDir(), "cluster", "webhookconfigurations", "usage.yaml"))
	if err != nil {
		cfg.Err = err.Error()
		return cfg
	}
	vc := &admregv1.ValidatingWebhookConfiguration{}
	if err := yaml.Unmarshal(b, vc); err != nil {
		cfg.Err = err.Error()
		return cfg
	}
	if len(vc.Webhooks) != 1 {
		cfg.Err = fmt.Sprintf("expected one webhook, found %d", len(vc.Webhooks))
		return cfg
	}
	w := vc.Webhooks[0]
	if w.ClientConfig.Service != nil && w.ClientConfig.Service.Path != nil {
		cfg.Path = *w.ClientConfig.Service.Path
	}
	cfg.Selector = labels.Everything()
	cfg.SelMap = map[string]string{}
	if w.ObjectSelector != nil {
		s, err := metav1.LabelSelectorAsSelector(w.ObjectSelector)
		if err != nil {
			cfg.Err = err.Error()
			return cfg
		}
		cfg.Selector = s
		for k, v := range w.ObjectSelector.MatchLabels {
			cfg.SelMap[k] = v
		}
		if len(w.ObjectSelector.MatchExpressions) > 0 {
			cfg.SelMap["<expressions>"] = fmt.Sprint(len(w.ObjectSelector.MatchExpressions))
		}
	}
	for _, r := range w.Rules {
		for _, o := range r.Operations {
			cfg.Ops = append(cfg.Ops, string(o))
		}
		cfg.Groups = append(cfg.Groups, r.APIGroups...)
	}
	sort.Strings(cfg.Ops)
	sort.Strings(cfg.Groups)
	cfg.Fail = w.FailurePolicy == nil || *w.FailurePolicy == admregv1.Fail
	return cfg
}

func (h *c19HookCfg) matches(op string, o *unstructured.Unstructured) bool {
	if h.Err != "" {
		return false
	}
	okOp, okGroup := false, false
	for _, x := range h.Ops {
		if x == "*" || x == op {
			okOp = true
		}
	}
	for _, g := range h.Groups {
		if g == "*" || g == o.GroupVersionKind().Group {
			okGroup = true
		}
	}
	return okOp && okGroup && h.Selector.Matches(labels.Set(o.GetLabels()))
}

// c19Wire sets up the real webhook (index function + handler) over the store.
type c19Wire struct {
	st      *Store
	idx     *c19Indexer
	handler *admission.Webhook
	cfg     *c19HookCfg
	err     string
}

var c19LogOnce sync.Once

func c19NewWire(st *Store, cl client.Client) *c19Wire {
	// the admission.Webhook logs through controller-runtime's global logger: silence it
	c19LogOnce.Do(func() { crlog.SetLogger(logr.Discard()) })
	w := &c19Wire{st: st, idx: &c19Indexer{}, cfg: c19LoadHookCfg()}
	hs := &c19HookServer{hooks: map[string]http.Handler{}}
	mgr := &c19Mgr{cl: cl, idx: w.idx, wh: hs}
	if err := usagehook.SetupWebhookWithManager(mgr, xpcontroller.Options{Logger: logging.NewNopLogger()}); err != nil {
		w.err = err.Error()
		return w
	}
	if w.idx.fn == nil {
		w.err = "SetupWebhookWithManager registered no field index"
		return w
	}
	fn := w.idx.fn
	st.AddIndex(c19UsageGK, w.idx.field, func(o *unstructured.Unstructured) []string {
		u := &v1beta1.Usage{}
		if err := runtime.DefaultUnstructuredConverter.FromUnstructured(o.Object, u); err != nil {
			return nil
		}
		return fn(u)
	})
	if h, ok := hs.hooks[w.cfg.Path]; ok {
		if wa, ok := h.(*admission.Webhook); ok {
			w.handler = wa
		}
	}
	return w
}

// ---------------------------------------------------------------- gated client (one per reconcile thread)

type c19Thread struct {
	name    string
	release chan struct{}
	parked  chan struct{}
	done    bool
	res     reconcile.Result
	err     error
	panic   string
	// monitor bookkeeping
	listed   map[string]bool // Usages that indexed the used resource when this reconcile listed them
	didList  bool
	listedGK string
	listedNm string
	// resources in the store when this reconcile last listed resources (selector resolution)
	resListed map[string]*c19SRes
	// the Usage (by uid) and its using resource (by uid) as they were when this reconcile started;
	// held = both are still the same objects after every scenario step since (nil: no resolved spec.by)
	trk *c19Track
	// directives for the call about to be released, and what the caller was told
	cur c19Call
	ret string
	// bookkeeping of the world: number of calls so far; call number of the last successful Get per
	// resource key and of the last Usage List; Usages the (cached) List served; whether that List /
	// the Get of the Usage lagged behind the store; uid of the Usage the Get served
	calls       int
	gotAt       map[string]int
	listAt      int
	served      map[string]bool
	listLagging bool
	freshGet    bool
	servedUID   types.UID
	// the Usage the Get served carried a deletionTimestamp: this reconcile runs the deletion branch
	servedDeleting bool
	// the reconcile has read its Usage; keys of the used resource that Usage named then and since
	gotUsage bool
	keys     map[string]bool
}

// c19Track: "the Usage and its using resource exist, as the same objects, throughout the reconcile".
type c19Track struct {
	usageUID types.UID
	usingKey string
	usingUID types.UID
	held     bool
}

// c19Claim: a reconcile of Usage `usage` (uid usageUID) completed successfully while its using
// resource (usingKey, uid usingUID) existed throughout: from then on, as long as that using
// resource exists and nobody asks for the Usage's deletion, the Usage must not be collected
// and the used resource (usedKey, uid usedUID) must not become deletable.
type c19Claim struct {
	usage    string
	usageUID types.UID
	usedKey  string
	usedUID  types.UID
	usingKey string
	usingUID types.UID
	released bool
}

// ---------------------------------------------------------------- the system under test

type c19Sys struct {
	st      *Store
	wire    *c19Wire
	maxc    int
	threads map[string]*c19Thread
	mons    []Mon
	monSeen map[string]bool

	// current delete request (consulted by the admission hook)
	reqAV, reqPolicy string
	req              *c19Req
	hookInvoked      bool
	hookCode         int32
	hookAllowed      bool

	// stale[k]: the in-use label of resource k was removed by a reconcile whose count of
	// Usages (taken before another Usage of k appeared) was already out of date (defect D16)
	stale map[string]bool
	// tainted[uid]: Usage uid went ready-but-unmarked as a consequence of D16; later consequences
	// for the same Usage (e.g. its used resource deleted and re-created) are the same finding
	tainted map[types.UID]string
	// born[uid] = key of the resource that was created with that uid (never forgotten)
	born map[types.UID]string
	// claims[usage uid]: see c19Claim
	claims map[types.UID]*c19Claim
	// released[usage uid]: a user asked for the deletion of that Usage
	released map[types.UID]bool

	// the world (c19_world.go): the one client, the one Reconciler of the scenario, the informer
	// cache (history of the Usage collection, one entry per event, and the cache's position)
	cl   *c19Client
	rec  *usagectrl.Reconciler
	hist [][]*unstructured.Unstructured
	cpos int
	// the webhook's current request: directives per call, what its calls returned, what its List
	// was served / would have been served live
	hookCall    c19Call
	hookRets    []string
	hookServed  map[string]bool
	hookLive    map[string]bool
	hookLagging bool
	// lagStale[k]: the in-use label of k was removed by a reconcile whose cached List lagged behind
	// the store and missed a Usage of k (finding: informer-cache lag of the Usage index)
	lagStale map[string]bool
	// overlapped[k]: since the label of k was last set, two in-flight reconciles that had read their
	// Usages held Usages of resource k at the same time (the per-resource serialisation that
	// marker_while_ready_key_serial assumes was violated for k)
	overlapped map[string]bool
	laggedGet  bool
}

// noteOverlap records, after a call of an in-flight reconcile, which used resources are being
// worked on by two reconciles at once.
func (s *c19Sys) noteOverlap(sn *c19Snap) {
	names := []string{}
	for n, t := range s.threads {
		if !t.done && t.gotUsage {
			names = append(names, n)
		}
	}
	sort.Strings(names)
	for _, n := range names {
		t := s.threads[n]
		if u, ok := sn.Usages[n]; ok && u.OfName != "" {
			if t.keys == nil {
				t.keys = map[string]bool{}
			}
			t.keys[c19ResKey(u.OfGroup, u.OfKind, u.OfName)] = true
		}
	}
	for i, a := range names {
		for _, b := range names[i+1:] {
			for k := range s.threads[a].keys {
				if s.threads[b].keys[k] {
					s.overlapped[k] = true
				}
			}
		}
	}
}

func (s *c19Sys) mon(sig, why string) {
	if s.monSeen[sig] {
		return
	}
	s.monSeen[sig] = true
	s.mons = append(s.mons, Mon{Sig: sig, Why: why})
}

func c19NewSys(maxc int) *c19Sys {
	sc := runtime.NewScheme()
	_ = v1beta1.AddToScheme(sc)
	st := NewStore(sc)
	s := &c19Sys{st: st, maxc: maxc, threads: map[string]*c19Thread{}, monSeen: map[string]bool{}, stale: map[string]bool{}, tainted: map[types.UID]string{}, born: map[types.UID]string{}, claims: map[types.UID]*c19Claim{}, released: map[types.UID]bool{}, lagStale: map[string]bool{}, overlapped: map[string]bool{}}
	// ONE client, ONE webhook handler and ONE Reconciler per scenario, as Setup /
	// SetupWebhookWithManager build them once per process
	s.cl = &c19Client{Store: st, s: s}
	s.wire = c19NewWire(st, s.cl)
	s.rec = usagectrl.NewReconciler(&c19Mgr{cl: s.cl}, usagectrl.WithPollInterval(c19PollEvery))
	s.record()
	if s.wire.err != "" {
		s.mon("C19:webhook-setup-failed", s.wire.err)
	}
	if s.wire.cfg.Err != "" {
		s.mon("C19:webhook-config-unreadable", s.wire.cfg.Err)
	}
	st.Admission = s.admit
	return s
}

// admit is the API server's admission phase for DELETE, as configured by usage.yaml.
func (s *c19Sys) admit(verb string, cur *unstructured.Unstructured) error {
	if verb != "delete" || !s.wire.cfg.matches("DELETE", cur) {
		return nil
	}
	s.hookInvoked = true
	denied := kerrors.NewForbidden(schema.GroupResource{Group: cur.GroupVersionKind().Group, Resource: strings.ToLower(cur.GetKind())}, cur.GetName(), fmt.Errorf("admission webhook denied the request"))
	if s.wire.handler == nil {
		// nothing is served at the configured path: the call fails
		s.hookCode = 0
		if s.wire.cfg.Fail {
			return denied
		}
		return nil
	}
	old := cur.DeepCopy()
	if s.reqAV != "" {
		old.SetAPIVersion(s.reqAV)
	}
	raw, _ := old.MarshalJSON()
	opts := metav1.DeleteOptions{}
	if s.reqPolicy != "" {
		p := metav1.DeletionPropagation(s.reqPolicy)
		opts.PropagationPolicy = &p
	}
	rq := s.req
	if rq == nil {
		rq = &c19Req{}
	}
	opts.TypeMeta = metav1.TypeMeta{Kind: "DeleteOptions", APIVersion: "meta.k8s.io/v1"}
	if rq.Grace > 0 {
		g := int64(rq.Grace - 1)
		opts.GracePeriodSeconds = &g
	}
	if rq.Pre {
		uid := cur.GetUID()
		opts.Preconditions = &metav1.Preconditions{UID: &uid}
	}
	if rq.Dry {
		opts.DryRun = []string{metav1.DryRunAll}
	}
	optsRaw, _ := json.Marshal(opts)
	gvk := old.GroupVersionKind()
	// the request as kube-apiserver builds it: request.kind / oldObject in the version the object
	// was converted to for this webhook, requestKind / requestResource in the version of the
	// client's request, request.name empty for a collection delete
	rkv := gvk.Version
	if rq.RKV != "" {
		rkv = rq.RKV
	}
	plural := strings.ToLower(gvk.Kind) + "s"
	dry := rq.Dry
	req := admission.Request{AdmissionRequest: admissionv1.AdmissionRequest{
		UID:             "req",
		Kind:            metav1.GroupVersionKind{Group: gvk.Group, Version: gvk.Version, Kind: gvk.Kind},
		Resource:        metav1.GroupVersionResource{Group: gvk.Group, Version: gvk.Version, Resource: plural},
		RequestKind:     &metav1.GroupVersionKind{Group: gvk.Group, Version: rkv, Kind: gvk.Kind},
		RequestResource: &metav1.GroupVersionResource{Group: gvk.Group, Version: rkv, Resource: plural},
		SubResource:     rq.Sub,
		Name:            old.GetName(),
		Namespace:       rq.NS,
		Operation:       admissionv1.Delete,
		DryRun:          &dry,
		OldObject:       runtime.RawExtension{Raw: raw},
		Options:         runtime.RawExtension{Raw: optsRaw},
	}}
	if rq.Coll {
		req.Name = ""
	}
	if rq.Op != "" {
		req.Operation = admissionv1.Operation(rq.Op)
	}
	// the registered *admission.Webhook recovers a panic of the handler and answers 500
	var resp admission.Response
	if p := Guard(func() { resp = s.wire.handler.Handle(context.Background(), req) }); p != "" {
		s.mon("C19:webhook-panic", p)
		return denied
	}
	if resp.Result != nil && strings.Contains(resp.Result.Message, "panic:") {
		s.mon("C19:webhook-panic", "the webhook handler panicked while handling the DELETE of "+cur.GetKind()+"/"+cur.GetName()+": "+resp.Result.Message)
	}
	s.hookAllowed = resp.Allowed
	if resp.Result != nil {
		s.hookCode = resp.Result.Code
	}
	if !resp.Allowed {
		return denied
	}
	return nil
}

func c19Group(av string) string {
	gv, _ := schema.ParseGroupVersion(av)
	return gv.Group
}

func c19ResKey(group, kind, name string) string { return kind + "." + group + "/" + name }

func (s *c19Sys) ownerRefTo(ctrl string) []metav1.OwnerReference {
	if ctrl == "" {
		return nil
	}
	x := s.st.Peek(schema.GroupKind{Group: c19Group(c19XRAV), Kind: c19XRKind}, "", ctrl)
	if x == nil {
		return nil
	}
	t := true
	return []metav1.OwnerReference{{APIVersion: c19XRAV, Kind: c19XRKind, Name: ctrl, UID: x.GetUID(), Controller: &t, BlockOwnerDeletion: &t}}
}

func c19Resource(r *c19RSpec) *v1beta1.Resource {
	if r == nil {
		return nil
	}
	out := &v1beta1.Resource{APIVersion: r.AV, Kind: r.Kind}
	if r.Name != "" {
		out.ResourceRef = &v1beta1.ResourceRef{Name: r.Name}
	}
	if r.Sel != nil {
		out.ResourceSelector = &v1beta1.ResourceSelector{MatchLabels: r.Sel.Labels}
		if r.Sel.MC {
			t := true
			out.ResourceSelector.MatchControllerRef = &t
		}
	}
	return out
}

func c19ErrStr(err error) string {
	if err == nil {
		return "ok"
	}
	return errClass(err)
}

func (s *c19Sys) active() int {
	n := 0
	for _, t := range s.threads {
		if !t.done {
			n++
		}
	}
	return n
}

// start = one scenario event (the informer-cache history gets one entry per event)
func (s *c19Sys) start(name string) string {
	r := s.start0(name)
	s.record()
	return r
}

func (s *c19Sys) start0(name string) string {
	if t, ok := s.threads[name]; ok && !t.done {
		return "ignored"
	}
	if s.active() >= s.maxc {
		return "ignored"
	}
	t := &c19Thread{name: name, release: make(chan struct{}), parked: make(chan struct{}), gotAt: map[string]int{}}
	s.threads[name] = t
	ctx := context.WithValue(context.Background(), c19ThreadKey{}, t)
	go func() {
		t.panic = Guard(func() {
			t.res, t.err = s.rec.Reconcile(ctx, reconcile.Request{NamespacedName: types.NamespacedName{Name: name}})
		})
		t.done = true
		t.parked <- struct{}{}
	}()
	<-t.parked
	if t.done {
		return "started;" + s.finish(t)
	}
	t.trk = s.trackOf(name)
	return "started"
}

// trackOf: the Usage `name` has a resolved spec.by and its using resource exists.
func (s *c19Sys) trackOf(name string) *c19Track {
	sn := s.snapshot()
	u, ok := sn.Usages[name]
	if !ok || !u.HasBy || u.ByName == "" {
		return nil
	}
	k := c19ResKey(u.ByGroup, u.ByKind, u.ByName)
	g, ok := sn.Res[k]
	if !ok {
		return nil
	}
	return &c19Track{usageUID: u.UID, usingKey: k, usingUID: g.UID, held: true}
}

// stillHeld: the tracked Usage and using resource are still the same objects in sn.
func (t *c19Thread) stillHeld(sn *c19Snap) bool {
	if t.trk == nil || !t.trk.held {
		return false
	}
	u, ok := sn.Usages[t.name]
	if !ok || u.UID != t.trk.usageUID || !u.HasBy || c19ResKey(u.ByGroup, u.ByKind, u.ByName) != t.trk.usingKey {
		return false
	}
	g, ok := sn.Res[t.trk.usingKey]
	return ok && g.UID == t.trk.usingUID
}

// holdAll is run after every scenario step: a reconcile whose Usage or using resource was
// deleted or replaced while it was in flight promises nothing about ownership.
func (s *c19Sys) holdAll(sn *c19Snap) {
	for _, t := range s.threads {
		if t.trk != nil && t.trk.held && !t.stillHeld(sn) {
			t.trk.held = false
		}
	}
}

// afterReconcile is run when a reconcile returned success (poll). If the Usage and its using
// resource existed throughout, the Usage must now carry an owner reference with the using
// resource's CURRENT uid (ownership is by uid: a reference with the right name and another
// uid is dangling, the garbage collector would collect the Usage while its user exists).
func (s *c19Sys) afterReconcile(t *c19Thread) {
	sn := s.snapshot()
	if !t.stillHeld(sn) {
		return
	}
	u := sn.Usages[t.name]
	owned := false
	for _, o := range u.Owners {
		if o.UID == t.trk.usingUID {
			owned = true
		}
	}
	if !owned {
		s.mon("C19:usage-not-owned-by-current-user", fmt.Sprintf("the reconcile of Usage %s succeeded while its using resource %s existed throughout, but no owner reference of the Usage carries that resource's current uid (owner references: %s)", t.name, t.trk.usingKey, c19RefNames(u.Owners)))
	}
	if u.Deleting || s.released[u.UID] {
		// the deletion of the Usage has been requested (by its user, or by the garbage collector
		// for an earlier incarnation of the using resource): a reconcile that was already in
		// flight promises no further protection
		return
	}
	c := &c19Claim{usage: t.name, usageUID: u.UID, usingKey: t.trk.usingKey, usingUID: t.trk.usingUID}
	for k, r := range sn.Res {
		if u.names(r) {
			c.usedKey, c.usedUID = k, r.UID
		}
	}
	s.claims[u.UID] = c
}

func c19RefNames(refs []metav1.OwnerReference) string {
	out := []string{}
	for _, o := range refs {
		out = append(out, o.Kind+"/"+o.Name)
	}
	sort.Strings(out)
	return "[" + strings.Join(out, " ") + "]"
}

// claimLive: the using resource of claim c still exists (same uid) in sn and nobody asked for
// the deletion of the Usage.
func (c *c19Claim) live(sn *c19Snap) bool {
	if c.released {
		return false
	}
	g, ok := sn.Res[c.usingKey]
	return ok && g.UID == c.usingUID
}

func (s *c19Sys) finish(t *c19Thread) string {
	delete(s.threads, t.name)
	if t.panic != "" {
		s.mon("C19:reconcile-panic", t.panic)
		return "done:panic"
	}
	if s.st.Crashed() {
		s.st.Revive()
		return "done:crashed"
	}
	r := "none"
	switch {
	case t.res.Requeue:
		r = "requeue"
	case t.res.RequeueAfter == c19PollEvery:
		r = "poll"
	case t.res.RequeueAfter == usagectrl.VerifWaitPollInterval:
		r = "wait"
	case t.res.RequeueAfter != 0:
		r = "after?"
	}
	if t.err != nil {
		r += "/err"
	}
	if r == "poll" {
		s.afterPoll(t)
		if t.freshGet {
			s.afterReconcile(t)
		}
	}
	return "done:" + r
}

// afterPoll: a reconcile reported success (requeue after the poll interval, no error): the Usage
// it was handed - if it is still that object and nobody asked for its deletion - reports ready.
func (s *c19Sys) afterPoll(t *c19Thread) {
	sn := s.snapshot()
	u, ok := sn.Usages[t.name]
	if !ok || u.UID != t.servedUID || u.Deleting || u.Ready {
		return
	}
	s.mon("C19:poll-without-ready", fmt.Sprintf("the reconcile of Usage %s reported success although the Usage does not report ready", t.name))
}

func c19Outcome(o string) Outcome {
	switch o {
	case "fail":
		return Fail
	case "conflict":
		return Conflict
	case "crashBefore":
		return CrashBefore
	case "crashAfter":
		return CrashAfter
	}
	return OK
}

// stepThread releases the reconcile of `name` for exactly one API call answered as `call`
// says (outcome, error class, informer-cache lag); one scenario event.
func (s *c19Sys) stepThread(name string, call c19Call) string {
	r := s.step0(name, call)
	s.record()
	return r
}

func (s *c19Sys) step0(name string, call c19Call) string {
	t, ok := s.threads[name]
	if !ok || t.done {
		return "ignored"
	}
	oc := c19Outcome(call.O)
	n0 := len(s.st.Log)
	before := s.snapshot()
	s.st.Plan = func(CallInfo) Outcome { return oc }
	t.cur, t.ret = call, ""
	t.release <- struct{}{}
	<-t.parked
	s.st.Plan = nil
	out := "?"
	if len(s.st.Log) > n0 {
		c := s.st.Log[n0]
		// what the reconciler was told (the cache's answer / the injected class), not what the store logged
		ret := t.ret
		if c.Err == "crashed" || ret == "" {
			ret = map[bool]string{true: "ok", false: c.Err}[c.Err == ""]
		}
		c.Err = map[bool]string{true: "", false: ret}[ret == "ok"]
		out = fmt.Sprintf("%s %s %s%s -> %s", c.Verb, c.GK, c.Name, map[bool]string{true: "/" + c.Sub, false: ""}[c.Sub != ""], ret)
		s.afterCall(t, c, before)
	}
	if t.done {
		out += ";" + s.finish(t)
	}
	return out
}

func (s *c19Sys) run(name string) string {
	var parts []string
	var pre *c19Snap
	if t, ok := s.threads[name]; !ok || t.done {
		pre = s.snapshot()
		r := s.start(name)
		parts = append(parts, r)
		if r != "started" {
			return strings.Join(parts, "|")
		}
	}
	for i := 0; i < 40; i++ {
		r := s.stepThread(name, c19Call{O: "ok"})
		parts = append(parts, r)
		if _, still := s.threads[name]; !still {
			if pre != nil {
				s.afterCleanRun(name, pre, r)
			}
			break
		}
	}
	return strings.Join(parts, "|")
}

// afterCleanRun: a whole reconcile ran from its first call to its return without faults, cache
// lag or anybody else acting in between. "Protection ends exactly when use ends": if the Usage's
// deletion had been requested and the reconcile returned success without asking to be run again,
// the Usage is gone; and if no other Usage named the used resource, that resource (when it is
// still the same object) no longer carries the in-use label.
func (s *c19Sys) afterCleanRun(name string, pre *c19Snap, last string) {
	u, ok := pre.Usages[name]
	if !ok || !u.Deleting || !strings.HasSuffix(last, ";done:none") {
		return
	}
	post := s.snapshot()
	if a, still := post.Usages[name]; still && a.UID == u.UID {
		s.mon("C19:deleted-usage-not-released", fmt.Sprintf("an undisturbed reconcile of Usage %s, whose deletion had been requested, returned success but the Usage is still there", name))
		return
	}
	for k, r := range pre.Res {
		if !u.names(r) || !r.InUse {
			continue
		}
		others := 0
		for _, x := range pre.Usages {
			if x.Name != name && len(x.Indexes) > 0 && x.Indexes[0] == r.IndexValue {
				others++
			}
		}
		if a, ok := post.Res[k]; ok && a.UID == r.UID && a.InUse && others == 0 {
			s.mon("C19:marker-kept-after-last-usage", fmt.Sprintf("an undisturbed reconcile deleted Usage %s, the last Usage of %s, but the resource still carries the in-use label", name, k))
		}
	}
}

// c19HookOutcome: an entry of `wo` is an outcome (ok fail conflict) or an error class (= fail
// carrying that class).
func c19HookOutcome(w string) (Outcome, string) {
	switch w {
	case "", "ok":
		return OK, ""
	case "fail":
		return Fail, ""
	case "conflict":
		return Conflict, ""
	}
	return Fail, w
}

func (s *c19Sys) deleteRes(av, kind, name, policy string, wo []string, lag int, rq *c19Req, gcReq bool) string {
	o := &unstructured.Unstructured{}
	o.SetAPIVersion(av)
	o.SetKind(kind)
	o.SetName(name)
	before := s.snapshot()
	s.reqAV, s.reqPolicy, s.req = av, policy, rq
	s.hookInvoked, s.hookCode, s.hookAllowed = false, 0, false
	s.hookRets, s.hookServed, s.hookLive, s.hookLagging = nil, nil, nil, false
	s.hookCall = c19Call{O: "ok", V: lag}
	s.st.Plan = func(c CallInfo) Outcome {
		w := ""
		switch c.Verb {
		case "list":
			if len(wo) > 0 {
				w = wo[0]
			}
		case "patch":
			if len(wo) > 1 {
				w = wo[1]
			}
		}
		oc, cls := c19HookOutcome(w)
		s.hookCall = c19Call{O: oc.String(), E: cls, V: lag}
		return oc
	}
	var dopts []client.DeleteOption
	if rq != nil && rq.Dry {
		dopts = append(dopts, client.DryRunAll)
	}
	err := s.st.Delete(context.Background(), o, dopts...)
	s.st.Plan = nil
	// faulty: the webhook could not judge (a failed call of its own, or an operation it refuses)
	faulty := rq != nil && rq.Op != "" && rq.Op != "DELETE"
	for _, w := range wo {
		if w != "ok" && w != "" {
			faulty = true
		}
	}
	res := ""
	switch {
	case err == nil:
		res = "allowed"
	case kerrors.IsNotFound(err):
		res = "notFound"
	case kerrors.IsForbidden(err):
		res = "denied"
		if s.hookCode != http.StatusConflict {
			res = "errored"
		}
	default:
		res = "error:" + errClass(err)
	}
	if s.hookInvoked {
		res += "+hook"
	}
	s.afterDelete(before, c19Group(av), kind, name, policy, res, faulty, rq != nil && rq.Dry)
	return res
}

func (s *c19Sys) gc(st c19Step) string {
	var o *unstructured.Unstructured
	av := st.AV
	if st.Kind == v1beta1.UsageKind && st.AV == "" {
		av = v1beta1.SchemeGroupVersion.String()
	}
	o = s.st.Peek(schema.GroupKind{Group: c19Group(av), Kind: st.Kind}, "", st.Name)
	if o == nil {
		return "gc:absent"
	}
	refs := o.GetOwnerReferences()
	if len(refs) == 0 {
		return "gc:unowned"
	}
	alive := map[types.UID]bool{}
	for _, x := range s.st.All() {
		alive[x.GetUID()] = true
	}
	for _, r := range refs {
		if alive[r.UID] {
			return "gc:owned"
		}
	}
	if st.Kind == v1beta1.UsageKind && c19Group(av) == v1beta1.Group {
		before := s.snapshot()
		err := s.st.Delete(context.Background(), &v1beta1.Usage{ObjectMeta: metav1.ObjectMeta{Name: st.Name}})
		if c, ok := s.claims[o.GetUID()]; ok && err == nil && c.live(before) {
			s.mon("C19:usage-collected-while-user-exists", fmt.Sprintf("the garbage collector deleted Usage %s (all its owner references %s are dangling) although its using resource %s exists and the Usage was reconciled successfully since that resource was created", st.Name, c19RefNames(refs), c.usingKey))
		}
		return "gc:" + c19ErrStr(err)
	}
	return "gc:" + s.deleteRes(o.GetAPIVersion(), st.Kind, st.Name, "Background", nil, 0, nil, true)
}

// exec runs one schedule entry; every entry that is not made of reconcile events (start, step,
// run record their own) is one event of the informer-cache history.
func (s *c19Sys) exec(st c19Step) string {
	r := s.exec0(st)
	switch st.Op {
	case "start", "step", "run":
	default:
		s.record()
	}
	return r
}

// touch: another writer (the XR composer patching a composed resource, a provider, a user)
// merges labels into a resource with a merge patch: no resourceVersion, nothing else touched.
func (s *c19Sys) touch(st c19Step) string {
	o := &unstructured.Unstructured{}
	o.SetAPIVersion(st.AV)
	o.SetKind(st.Kind)
	o.SetName(st.Name)
	cur := s.st.Peek(o.GroupVersionKind().GroupKind(), "", st.Name)
	if cur == nil {
		return "notFound"
	}
	o.SetAPIVersion(cur.GetAPIVersion())
	before := s.snapshot()
	l := map[string]any{}
	for k, v := range st.Labels {
		l[k] = v
	}
	err := s.st.Patch(context.Background(), o, client.RawPatch(types.MergePatchType, []byte(mustJSON(map[string]any{"metadata": map[string]any{"labels": l}}))))
	after := s.snapshot()
	for k, rb := range before.Res {
		if ra, ok := after.Res[k]; ok && ra.UID == rb.UID && rb.InUse && !ra.InUse {
			s.mon("C19:marker-removed-by-other-writer", "harness: a label edit removed the in-use label of "+k)
		}
	}
	return c19ErrStr(err)
}

func (s *c19Sys) exec0(st c19Step) string {
	ctx := context.Background()
	switch st.Op {
	case "cr":
		o := &unstructured.Unstructured{}
		o.SetAPIVersion(st.AV)
		o.SetKind(st.Kind)
		o.SetName(st.Name)
		l := map[string]string{}
		for k, v := range st.Labels {
			l[k] = v
		}
		if st.InUse {
			l[usagectrl.VerifInUseLabelKey] = "true"
		}
		if len(l) > 0 {
			o.SetLabels(l)
		}
		o.SetOwnerReferences(s.ownerRefTo(st.Ctrl))
		err := s.st.Create(ctx, o)
		if err == nil {
			s.born[o.GetUID()] = c19ResKey(c19Group(st.AV), st.Kind, st.Name)
		}
		return c19ErrStr(err)
	case "cu":
		u := &v1beta1.Usage{ObjectMeta: metav1.ObjectMeta{Name: st.Name}}
		if st.Composed {
			u.Labels = map[string]string{xcrd.LabelKeyNamePrefixForComposed: "xr"}
		}
		u.OwnerReferences = s.ownerRefTo(st.Ctrl)
		if st.Fin {
			u.Finalizers = []string{usagectrl.VerifFinalizer}
		}
		if st.Of != nil {
			u.Spec.Of = *c19Resource(st.Of)
		}
		u.Spec.By = c19Resource(st.By)
		if st.Reason != "" {
			r := st.Reason
			u.Spec.Reason = &r
		}
		return c19ErrStr(s.st.Create(ctx, u))
	case "du":
		before := s.snapshot()
		err := s.st.Delete(ctx, &v1beta1.Usage{ObjectMeta: metav1.ObjectMeta{Name: st.Name}})
		if b, ok := before.Usages[st.Name]; ok {
			s.released[b.UID] = true // the user asked for the release
			if c, ok := s.claims[b.UID]; ok {
				c.released = true
			}
		}
		return c19ErrStr(err)
	case "dr":
		return s.deleteRes(st.AV, st.Kind, st.Name, st.Policy, st.WO, st.V, st.Rq, false)
	case "gc":
		return s.gc(st)
	case "xa":
		return s.reapply(st.Name, st.Ctrl, st.AV)
	case "er":
		return s.touch(st)
	case "start":
		return s.start(st.U)
	case "step":
		return s.stepThread(st.U, c19Call{O: st.O, E: st.E, V: st.V})
	case "run":
		return s.run(st.U)
	}
	return "unknown-op"
}

// reapply is what the P&T composer does for a composed Usage on every XR reconcile
// (composition_pt.go): Apply(cd, MustBeControllableBy(xr), usage.RespectOwnerRefs()) through
// the patching applicator, where the desired object carries only the XR's controller reference.
func (s *c19Sys) reapply(name, ctrl, av string) string {
	cur := s.st.Peek(c19UsageGK, "", name)
	refs := s.ownerRefTo(ctrl)
	if cur == nil || len(refs) == 0 {
		return "ignored"
	}
	before := s.snapshot()
	desired := composed.New()
	desired.SetUnstructuredContent(cur.DeepCopy().Object)
	unstructured.RemoveNestedField(desired.Object, "metadata", "resourceVersion")
	unstructured.RemoveNestedField(desired.Object, "metadata", "managedFields")
	unstructured.RemoveNestedField(desired.Object, "status")
	desired.SetOwnerReferences(refs)
	if av != "" {
		// the Composition's template names another served version of the Usage kind: the composer
		// reads and patches the Usage through that version
		desired.SetAPIVersion(av)
	}
	err := xpresource.NewAPIPatchingApplicator(xpunstructured.NewClient(c19ComposerClient{s.st})).Apply(context.Background(), desired,
		xpresource.MustBeControllableBy(refs[0].UID), usagectrl.RespectOwnerRefs())
	after := s.snapshot()
	if b, ok := before.Usages[name]; ok {
		a := after.Usages[name]
		for _, o := range b.Owners {
			kept := false
			if a != nil {
				for _, o2 := range a.Owners {
					if o2.UID == o.UID {
						kept = true
					}
				}
			}
			if !kept && av != "" && av != v1beta1.SchemeGroupVersion.String() {
				s.mon("C19:owner-reference-dropped-for-other-usage-version", fmt.Sprintf("re-applying the composed Usage %s through apiVersion %s (a served version of the Usage kind) dropped its owner reference to %s/%s: RespectOwnerRefs recognises a Usage by its whole GroupVersionKind", name, av, o.Kind, o.Name))
			} else if !kept {
				s.mon("C19:owner-reference-dropped-by-composer", fmt.Sprintf("re-applying the composed Usage %s dropped its owner reference to %s/%s", name, o.Kind, o.Name))
			}
		}
	}
	switch {
	case err == nil:
		return "ok"
	case xpresource.IsNotControllable(err):
		return "notControllable"
	}
	return "error:" + errClass(err)
}

// drain lets every in-flight reconcile finish (all calls ok) so that no goroutine leaks.
func (s *c19Sys) drain() {
	names := []string{}
	for n := range s.threads {
		names = append(names, n)
	}
	sort.Strings(names)
	for _, n := range names {
		for i := 0; i < 60; i++ {
			if _, ok := s.threads[n]; !ok {
				break
			}
			s.stepThread(n, c19Call{O: "crashBefore"})
		}
	}
}

// ---------------------------------------------------------------- snapshots and direct monitors

type c19SUsage struct {
	Name, OfGroup, OfKind, OfName string
	ByGroup, ByKind, ByName       string
	HasBy                         bool
	Ready, Deleting, Fin          bool
	Composed                      bool
	UID                           types.UID
	Owners                        []metav1.OwnerReference
	Details                       string
	Indexes                       []string
	OfMC, ByMC                    bool
	OfLabels, ByLabels            map[string]string
}

type c19SRes struct {
	Group, Kind, Name string
	InUse             bool
	Attempt           string
	UID               types.UID
	Owners            []metav1.OwnerReference
	IndexValue        string
	Labels            map[string]string
}

type c19Snap struct {
	Usages map[string]*c19SUsage
	Res    map[string]*c19SRes
}

func (s *c19Sys) snapshot() *c19Snap {
	sn := &c19Snap{Usages: map[string]*c19SUsage{}, Res: map[string]*c19SRes{}}
	for _, o := range s.st.All() {
		gk := o.GroupVersionKind().GroupKind()
		if gk == c19UsageGK {
			u := &v1beta1.Usage{}
			if err := runtime.DefaultUnstructuredConverter.FromUnstructured(o.Object, u); err != nil {
				continue
			}
			x := &c19SUsage{Name: u.Name, OfGroup: c19Group(u.Spec.Of.APIVersion), OfKind: u.Spec.Of.Kind, UID: u.UID, Owners: u.OwnerReferences}
			if u.Spec.Of.ResourceRef != nil {
				x.OfName = u.Spec.Of.ResourceRef.Name
			}
			if rs := u.Spec.Of.ResourceSelector; rs != nil {
				x.OfMC, x.OfLabels = rs.MatchControllerRef != nil && *rs.MatchControllerRef, rs.MatchLabels
			}
			if u.Spec.By != nil && u.Spec.By.ResourceSelector != nil {
				rs := u.Spec.By.ResourceSelector
				x.ByMC, x.ByLabels = rs.MatchControllerRef != nil && *rs.MatchControllerRef, rs.MatchLabels
			}
			if u.Spec.By != nil {
				x.HasBy = true
				x.ByGroup, x.ByKind = c19Group(u.Spec.By.APIVersion), u.Spec.By.Kind
				if u.Spec.By.ResourceRef != nil {
					x.ByName = u.Spec.By.ResourceRef.Name
				}
			}
			x.Composed = u.Labels[xcrd.LabelKeyNamePrefixForComposed] != ""
			x.Ready = u.Status.GetCondition(xpv1.TypeReady).Status == corev1.ConditionTrue
			x.Deleting = u.DeletionTimestamp != nil
			for _, f := range u.Finalizers {
				if f == usagectrl.VerifFinalizer {
					x.Fin = true
				}
			}
			x.Details = u.Annotations[usagectrl.VerifDetailsAnnotationKey]
			if s.wire.idx.fn != nil {
				x.Indexes = s.wire.idx.fn(u)
			}
			sn.Usages[u.Name] = x
			continue
		}
		r := &c19SRes{Group: gk.Group, Kind: gk.Kind, Name: o.GetName(), UID: o.GetUID(), Owners: o.GetOwnerReferences()}
		r.Labels = o.GetLabels()
		r.InUse = o.GetLabels()[usagectrl.VerifInUseLabelKey] == "true"
		r.Attempt = o.GetAnnotations()[usagehook.AnnotationKeyDeletionAttempt]
		r.IndexValue = usagehook.IndexValueForObject(o)
		sn.Res[c19ResKey(gk.Group, gk.Kind, o.GetName())] = r
	}
	return sn
}

// names reports whether Usage u names resource r as used (by group, kind and resolved name).
func (u *c19SUsage) names(r *c19SRes) bool {
	return u.OfName != "" && u.OfGroup == r.Group && u.OfKind == r.Kind && u.OfName == r.Name
}

// sigFor classifies a violation concerning resource k: if the label of k was last removed
// under an out-of-date count it is the known race D16, otherwise the plain signature.
func (s *c19Sys) sigFor(k, plain string, us ...*c19SUsage) string {
	known := ""
	switch {
	case s.lagStale[k]:
		// the label of k was removed on a count taken from a lagging informer cache (finding)
		known = c19SigLagCount
	case s.stale[k] && (s.overlapped[k] || s.laggedGet):
		// D16 needs two overlapping reconciles of Usages of the same resource
		// (marker_while_ready_key_serial: without such an overlap the marker is never lost)
		known = "C19:marker-removed-after-stale-count"
	}
	for _, u := range us {
		if known == "" && s.tainted[u.UID] != "" {
			known = s.tainted[u.UID]
		}
	}
	if known != "" {
		for _, u := range us {
			s.tainted[u.UID] = known
		}
		return known
	}
	return plain
}

const (
	// the reconciler removed the in-use label because the informer cache's Usage index lagged
	// behind the store and did not yet list another Usage of the resource
	c19SigLagCount = "C19:marker-removed-on-lagging-usage-index"
	// the webhook allowed a delete because the informer cache's Usage index lagged behind the
	// store and did not yet list a Usage of the resource
	c19SigLagHook = "C19:delete-allowed-on-lagging-usage-index"
)

func c19Ctrl(refs []metav1.OwnerReference) types.UID {
	for _, o := range refs {
		if o.Controller != nil && *o.Controller {
			return o.UID
		}
	}
	return ""
}

// checkResolved: this call persisted the resolution of a selector: the chosen resource must be
// one the reconcile's List returned, carry the selector's labels and, with matchControllerRef,
// the Usage's controller.
func (s *c19Sys) checkResolved(t *c19Thread, u *c19SUsage, what, group, kind, name string, mc bool, lbls map[string]string) {
	r, ok := t.resListed[c19ResKey(group, kind, name)]
	if !ok {
		s.mon("C19:selector-resolved-to-unlisted", fmt.Sprintf("spec.%s of Usage %s was resolved to %s, which was not in the store when the resources were listed", what, u.Name, c19ResKey(group, kind, name)))
		return
	}
	for k, v := range lbls {
		if r.Labels[k] != v {
			s.mon("C19:selector-resolved-to-unlabelled", fmt.Sprintf("spec.%s of Usage %s was resolved to %s, which lacks label %s=%s", what, u.Name, name, k, v))
		}
	}
	if mc && (c19Ctrl(u.Owners) == "" || c19Ctrl(u.Owners) != c19Ctrl(r.Owners)) {
		s.mon("C19:selector-ignored-controller-ref", fmt.Sprintf("spec.%s of Usage %s (matchControllerRef) was resolved to %s, which has a different controller", what, u.Name, name))
	}
}

// checkState evaluates the state part of the property after every step.
func (s *c19Sys) checkState(before, after *c19Snap, step int) {
	for _, u := range after.Usages {
		if !u.Ready || u.Deleting {
			continue
		}
		for _, r := range after.Res {
			if u.names(r) && r.InUse {
				delete(s.tainted, u.UID)
			}
		}
		for _, r := range after.Res {
			if u.names(r) && !r.InUse {
				s.mon(s.sigFor(c19ResKey(r.Group, r.Kind, r.Name), "C19:ready-usage-unmarked", u), fmt.Sprintf("after step %d Usage %s is ready and not being deleted but %s lacks the in-use label", step, u.Name, c19ResKey(r.Group, r.Kind, r.Name)))
			}
		}
		// moment ready is set
		if b, ok := before.Usages[u.Name]; !ok || !b.Ready || b.UID != u.UID {
			for _, r := range after.Res {
				if u.names(r) && !r.InUse {
					s.mon(s.sigFor(c19ResKey(r.Group, r.Kind, r.Name), "C19:ready-before-marker", u), fmt.Sprintf("step %d set Usage %s ready while %s lacks the in-use label", step, u.Name, c19ResKey(r.Group, r.Kind, r.Name)))
				}
			}
			if u.HasBy {
				// owned by a resource that was created under the key spec.by refers to (the using
				// resource may meanwhile have been deleted and re-created under a new uid)
				owned := false
				for _, o := range u.Owners {
					if s.born[o.UID] == c19ResKey(u.ByGroup, u.ByKind, u.ByName) {
						owned = true
					}
				}
				if !owned {
					s.mon("C19:ready-not-owned-by-using", fmt.Sprintf("step %d set Usage %s ready without an owner reference to its using resource %s", step, u.Name, c19ResKey(u.ByGroup, u.ByKind, u.ByName)))
				}
			}
		}
	}
}

// afterCall is run after every reconciler API call (direct monitors on writes).
func (s *c19Sys) afterCall(t *c19Thread, c CallInfo, before *c19Snap) {
	after := s.snapshot()
	if c.Verb == "get" && c.GK == c19UsageGK.String() && c.Err == "" {
		t.gotUsage = true
		if !t.freshGet {
			// the informer cache served an older version of the Usage: which resource the reconcile
			// believes it works on is not what the store says (outside the theorem's listFresh world)
			s.laggedGet = true
		}
	}
	s.noteOverlap(after)
	if c.Verb == "list" && c.GK == c19UsageGK.String() && c.Err == "" {
		// the reconciler counted the Usages of its used resource: remember who it was told about
		// (t.served, from the informer cache) and who was there (t.listed, the store)
		t.didList = true
		t.listAt = t.calls
		t.listed = map[string]bool{}
		if me, ok := before.Usages[t.name]; ok {
			for _, u := range before.Usages {
				if u.OfName != "" && u.OfGroup == me.OfGroup && u.OfKind == me.OfKind && u.OfName == me.OfName {
					t.listed[u.Name] = true
				}
			}
		}
		if !t.listLagging {
			t.served = t.listed
		}
	}
	for k, rb := range before.Res {
		if ra, ok := after.Res[k]; !ok || ra.UID != rb.UID || (!rb.InUse && ra.InUse) {
			delete(s.stale, k)
			delete(s.lagStale, k)
			delete(s.overlapped, k)
		}
	}
	s.noteOverlap(after)
	if c.Verb == "list" && c.GK != c19UsageGK.String() && c.Err == "" {
		t.resListed = before.Res
	}
	if c.Verb == "update" && c.GK == c19UsageGK.String() && c.Applied {
		if b, a := before.Usages[t.name], after.Usages[t.name]; b != nil && a != nil && b.UID == a.UID {
			if b.OfName == "" && a.OfName != "" {
				s.checkResolved(t, a, "of", a.OfGroup, a.OfKind, a.OfName, a.OfMC, a.OfLabels)
			}
			if b.HasBy && b.ByName == "" && a.ByName != "" {
				s.checkResolved(t, a, "by", a.ByGroup, a.ByKind, a.ByName, a.ByMC, a.ByLabels)
			}
		}
	}
	if c.Verb == "update" && c.Applied {
		// the deletion branch of a composed Usage waits for its using resource: a reconcile of a
		// Usage whose deletion was requested that has SEEN the using resource (its Get succeeded)
		// must not write anything - not remove the label, not drop the finalizer -, whatever owner
		// references the Usage carries
		if me := before.Usages[t.name]; me != nil && t.servedDeleting && me.UID == t.servedUID && me.HasBy && me.ByName != "" {
			usingKey, usedKey := c19ResKey(me.ByGroup, me.ByKind, me.ByName), c19ResKey(me.OfGroup, me.OfKind, me.OfName)
			if _, saw := t.gotAt[usingKey]; saw && usingKey != usedKey {
				s.mon("C19:deleting-usage-released-while-user-exists", fmt.Sprintf("reconcile of Usage %s (deletion requested) found its using resource %s and went on to %s %s %s: the used resource is released while the user exists", t.name, usingKey, c.Verb, c.GK, c.Name))
			}
		}
		// the same for a composed Usage whose spec.by is still a selector: while a resource the
		// selector selects exists, a deletion reconcile may persist the resolution but must neither
		// drop the finalizer nor remove the label - whatever made the resolution fail this time
		if me := before.Usages[t.name]; me != nil && t.servedDeleting && me.UID == t.servedUID && me.Composed && me.HasBy && me.ByName == "" && len(me.ByLabels) > 0 && !me.ByMC {
			selected := ""
			for k, r := range before.Res {
				if r.Group != me.ByGroup || r.Kind != me.ByKind {
					continue
				}
				all := true
				for lk, lv := range me.ByLabels {
					if r.Labels[lk] != lv {
						all = false
					}
				}
				if all && (selected == "" || k < selected) {
					selected = k
				}
			}
			released := false
			if a := after.Usages[t.name]; me.Fin && (a == nil || a.UID != me.UID || !a.Fin) {
				released = true
			}
			for k, rb := range before.Res {
				if ra, ok := after.Res[k]; ok && ra.UID == rb.UID && rb.InUse && !ra.InUse && me.names(rb) {
					released = true
				}
			}
			if selected != "" && released {
				s.mon("C19:deleting-usage-released-while-user-exists", fmt.Sprintf("reconcile of the composed Usage %s (deletion requested, spec.by still a selector) released the used resource (%s %s %s) while %s, which the selector selects, exists", t.name, c.Verb, c.GK, c.Name, selected))
			}
		}
		for k, rb := range before.Res {
			ra, ok := after.Res[k]
			if !ok || !rb.InUse || ra.InUse || ra.UID != rb.UID {
				continue
			}
			// the in-use label was removed by this call
			me := before.Usages[t.name]
			if me == nil || !me.Deleting {
				s.mon("C19:marker-removed-by-live-usage", fmt.Sprintf("reconcile of Usage %s, which is not being deleted, removed the in-use label of %s", t.name, k))
			}
			if !t.didList {
				s.mon("C19:marker-removed-before-counting", fmt.Sprintf("reconcile of Usage %s removed the in-use label of %s without first listing the Usages of that resource", t.name, k))
			}
			// others: Usages other than this one naming k now; servedOthers: those the reconciler's List
			// (informer cache) had told it about; listedOthers: those that were in the store at that List
			others, listedOthers, servedOthers := 0, 0, 0
			for _, u := range before.Usages {
				if u.Name != t.name && u.names(rb) {
					others++
					if t.listed[u.Name] {
						listedOthers++
					}
					if t.served[u.Name] {
						servedOthers++
					}
				}
			}
			switch {
			case servedOthers > 0:
				s.mon("C19:marker-removed-with-other-usage", fmt.Sprintf("reconcile of Usage %s removed the in-use label of %s although %d other Usage(s) it had listed name that resource", t.name, k, servedOthers))
			case t.didList && t.listLagging && listedOthers > 0:
				// the store had another Usage of k when the reconciler listed, the lagging cache did not
				s.mon(c19SigLagCount, fmt.Sprintf("reconcile of Usage %s removed the in-use label of %s: its List of the Usages of that resource was answered by an informer cache lagging behind the store and did not contain %d other Usage(s) that already named the resource", t.name, k, listedOthers))
				s.lagStale[k] = true
			case t.didList && others > 0:
				// every other Usage of k appeared after this reconcile counted: its count was out of date
				s.stale[k] = true
			}
			// the removal must be conditional on the resource not having changed since BEFORE the
			// count: the Update has to carry a resourceVersion read before the Usages were listed
			if t.didList && t.gotAt[k] > t.listAt {
				s.mon("C19:marker-removed-with-rv-read-after-count", fmt.Sprintf("reconcile of Usage %s removed the in-use label of %s with a resourceVersion it read AFTER counting the Usages of that resource: a Usage appearing (or the resource changing) between the count and the removal can no longer invalidate it", t.name, k))
			}
		}
	}
}

// afterDelete evaluates the admission part of the property for one delete request.
func (s *c19Sys) afterDelete(before *c19Snap, group, kind, name, policy, res string, faulty, dry bool) {
	k := c19ResKey(group, kind, name)
	rb, ok := before.Res[k]
	if !ok {
		return
	}
	after := s.snapshot()
	var named, ready []string
	var readyUs []*c19SUsage
	for _, u := range before.Usages {
		if u.names(rb) {
			named = append(named, u.Name)
			if u.Ready && !u.Deleting {
				ready = append(ready, u.Name)
				readyUs = append(readyUs, u)
			}
		}
	}
	sort.Strings(named)
	sort.Strings(ready)
	allowed := strings.HasPrefix(res, "allowed")
	// the webhook's List was answered by a lagging informer cache with no Usage of k although the
	// store had one (finding: informer-cache lag of the Usage index)
	lagHook := s.hookInvoked && s.hookLagging && len(s.hookServed) == 0 && len(s.hookLive) > 0
	if allowed && len(ready) > 0 {
		sig := s.sigFor(k, "C19:delete-allowed-while-ready", readyUs...)
		if lagHook {
			sig = c19SigLagHook
		}
		s.mon(sig, fmt.Sprintf("delete of %s was allowed although Usage(s) %v are ready and not being deleted", k, ready))
	}
	if s.hookInvoked && allowed && len(named) > 0 {
		sig := "C19:webhook-allowed-with-usage"
		if lagHook {
			sig = c19SigLagHook
		}
		s.mon(sig, fmt.Sprintf("the webhook allowed the delete of %s (request group %q) although Usage(s) %v name it", k, group, named))
	}
	if ra, ok := after.Res[k]; ok && ra.UID == rb.UID && rb.InUse && !ra.InUse {
		s.mon("C19:marker-removed-by-webhook", fmt.Sprintf("the delete request for %s (%s) removed its in-use label", k, res))
	}
	// a refusal decided on a lagging cache (a Usage that is already gone) is not the webhook's fault
	lagRefused := s.hookInvoked && s.hookLagging && len(s.hookServed) > 0
	if !allowed && len(named) == 0 && !faulty && !lagRefused {
		s.mon("C19:delete-refused-without-usage", fmt.Sprintf("delete of %s was refused (%s) although no Usage names it", k, res))
	}
	if !allowed && !faulty && len(named) > 0 {
		want := policy
		if want == "" {
			want = string(metav1.DeletePropagationBackground)
		}
		if ra, ok := after.Res[k]; !ok || ra.Attempt != want {
			s.mon("C19:refused-delete-not-recorded", fmt.Sprintf("delete of %s with policy %q was refused but the attempt annotation is %q", k, want, func() string {
				if ok {
					return after.Res[k].Attempt
				}
				return "<object gone>"
			}()))
		}
	}
	if allowed {
		for _, c := range s.claims {
			if c.usedKey != k || c.usedUID != rb.UID || !c.live(before) {
				continue
			}
			// a ready, not deleted Usage of the claim is the case reported above (delete-allowed-while-ready)
			if u, ok := before.Usages[c.usage]; ok && u.UID == c.usageUID && !u.Deleting {
				continue
			}
			s.mon("C19:used-deletable-while-user-exists", fmt.Sprintf("delete of %s was allowed although its user %s still exists: Usage %s, reconciled successfully since that user was created, is gone or terminating without anybody having asked for its deletion", k, c.usingKey, c.usage))
		}
		if !dry {
			delete(s.stale, k)
		}
		if _, still := after.Res[k]; still != dry {
			s.mon("C19:allowed-delete-did-not-delete", "delete of "+k+" was allowed but the object is still there (or a dry-run delete removed it)")
		}
	}
}

// ---------------------------------------------------------------- running a scenario

func (s *c19Sys) observe(steps []string) c19Obs {
	obs := c19Obs{Steps: steps, Usages: []c19OUsage{}, Res: []c19ORes{}}
	sn := s.snapshot()
	byUID := map[types.UID]string{}
	for _, r := range sn.Res {
		byUID[r.UID] = c19ResKey(r.Group, r.Kind, r.Name)
	}
	for _, u := range sn.Usages {
		byUID[u.UID] = "Usage/" + u.Name
	}
	owners := func(refs []metav1.OwnerReference) []string {
		out := []string{}
		for _, o := range refs {
			n, ok := byUID[o.UID]
			if !ok {
				n = "dead"
			}
			if o.Controller != nil && *o.Controller {
				n += "!"
			}
			out = append(out, n)
		}
		sort.Strings(out)
		return out
	}
	for _, u := range sn.Usages {
		obs.Usages = append(obs.Usages, c19OUsage{Name: u.Name, OfName: u.OfName, ByName: u.ByName, Fin: u.Fin, Deleting: u.Deleting, Ready: u.Ready, Details: u.Details, Owners: owners(u.Owners)})
	}
	sort.Slice(obs.Usages, func(i, j int) bool { return obs.Usages[i].Name < obs.Usages[j].Name })
	for _, r := range sn.Res {
		obs.Res = append(obs.Res, c19ORes{Key: c19ResKey(r.Group, r.Kind, r.Name), InUse: r.InUse, Attempt: r.Attempt, Owners: owners(r.Owners)})
	}
	sort.Slice(obs.Res, func(i, j int) bool { return obs.Res[i].Key < obs.Res[j].Key })
	return obs
}

func c19Run(scn c19Scn) (c19Obs, []Mon) {
	maxc := scn.MaxC
	if maxc < 1 {
		maxc = 1
	}
	s := c19NewSys(maxc)
	steps := make([]string, 0, len(scn.Steps))
	for i, st := range scn.Steps {
		before := s.snapshot()
		r := s.exec(st)
		steps = append(steps, r)
		after := s.snapshot()
		s.checkState(before, after, i)
		s.holdAll(after)
	}
	obs := s.observe(steps)
	s.drain()
	return obs, s.mons
}

//go:build verif

package main

// C04: every pipeline step sees exactly the state the function contract promises.
// Generated deterministic function programs (a small rule DSL, a function of the
// request) run in-process behind the REAL FunctionComposer + REAL
// FetchingFunctionRunner + REAL ExistingExtraResourcesFetcher over simstore; the
// sequence of RunFunctionRequests they receive and the CompositionResult are
// compared with the Lean reference interpreter.

import (
	"context"
	"encoding/json"
	"errors"
	"fmt"
	"sort"
	"strings"
	"time"

	"google.golang.org/protobuf/proto"
	"google.golang.org/protobuf/types/known/durationpb"
	"google.golang.org/protobuf/types/known/structpb"
	corev1 "k8s.io/api/core/v1"
	metav1 "k8s.io/apimachinery/pkg/apis/meta/v1"
	"k8s.io/apimachinery/pkg/apis/meta/v1/unstructured"
	"k8s.io/apimachinery/pkg/runtime"
	"k8s.io/apimachinery/pkg/runtime/schema"

	xpv1 "github.com/crossplane/crossplane-runtime/apis/common/v1"
	ucomposite "github.com/crossplane/crossplane-runtime/pkg/resource/unstructured/composite"

	fnv1 "github.com/crossplane/crossplane/apis/apiextensions/fn/proto/v1"
	v1 "github.com/crossplane/crossplane/apis/apiextensions/v1"
	"github.com/crossplane/crossplane/internal/controller/apiextensions/composite"
)

type c04Cond struct {
	// always | hasExtra | lacksExtra | ctxHas | ctxLacks | ctxEq | desiredHas | observedHas |
	// xrConnHas (k) | obsConnHas (k = resource name, v = key) | credHas (k = credential, v = key) |
	// credVal (k = credential, v = value) | hasInput
	T string `json:"t"`
	K string `json:"k"`
	V string `json:"v"`
}

type c04Sel struct {
	Kind   string            `json:"kind"`
	Name   string            `json:"name"`   // match by name if non-empty
	Labels map[string]string `json:"labels"` // else by labels
}

type c04Act struct {
	T       string  `json:"t"` // add | del | ctx | delctx | require | result | cond | xrReady | error | ttl
	RName   string  `json:"rname"`
	Kind    string  `json:"kind"`
	Content int     `json:"content"`
	Ready   bool    `json:"ready"`
	K       string  `json:"k"`
	V       string  `json:"v"`
	Sel     *c04Sel `json:"sel"`
	Sev     string  `json:"sev"` // fatal | warning | normal | unspecified
	Msg     string  `json:"msg"`
	Claim   bool    `json:"claim"`
	Status  string  `json:"status"` // True | False | Unknown
	Reason  string  `json:"reason"`
}

type c04Rule struct {
	If c04Cond  `json:"if"`
	Do []c04Act `json:"do"`
}

type c04Cred struct {
	Name   string `json:"name"`
	Secret string `json:"secret"`
	NS     string `json:"ns,omitempty"`    // secretRef.namespace ("" = "creds")
	Src    string `json:"src,omitempty"`   // "" = Secret | "none" = source None
	NoRef  bool   `json:"noRef,omitempty"` // secret-sourced without a secretRef
}

type c04ObjConn struct {
	Obj    string `json:"obj"`    // composed object name
	Secret string `json:"secret"` // its spec.writeConnectionSecretToRef.name
}

type c04Step struct {
	Fn    string    `json:"fn"`
	Input string    `json:"input"` // "" = none; else the value of input.spec.v
	Creds []c04Cred `json:"creds"`
	Rules []c04Rule `json:"rules"`
	// the step's input is raw bytes that do not decode as a JSON object
	BadInput bool `json:"badInput,omitempty"`
}

type c04Extra struct {
	Kind   string            `json:"kind"`
	Name   string            `json:"name"`
	Labels map[string]string `json:"labels"`
}

type c04Secret struct {
	Name string   `json:"name"`
	Keys []string `json:"keys"`
	NS   string   `json:"ns,omitempty"` // "" = "creds"
}

// c04SecKey identifies a Secret by namespace AND name ("name" in the default namespace
// "creds", "ns/name" elsewhere); the value of key k of a Secret is "<c04SecKey>:k".
func c04SecKey(ns, name string) string {
	if ns == "" || ns == "creds" {
		return name
	}
	return ns + "/" + name
}

type c04Scn struct {
	Refs    []xwRef     `json:"refs"`
	Objs    []xwObj     `json:"objs"`
	Cluster []c04Extra  `json:"cluster"`
	Secrets []c04Secret `json:"secrets"`
	Steps   []c04Step   `json:"steps"`
	// the XR's spec.writeConnectionSecretToRef.name ("" = none), those of composed objects, and
	// the Secrets whose Get answers an error other than NotFound
	XRConn  string       `json:"xrConn,omitempty"`
	ObjConn []c04ObjConn `json:"objConn,omitempty"`
	FailGet []string     `json:"failGet,omitempty"`
}

type c04Res struct {
	RName   string `json:"rname"`
	Kind    string `json:"kind"`
	Name    string `json:"name"`
	Content int    `json:"content"`
	Ready   bool   `json:"ready"`
}

type c04Req struct {
	Step     int            `json:"step"`
	Fn       string         `json:"fn"`
	Observed []c04Res       `json:"observed"`
	Desired  []c04Res       `json:"desired"`
	Ctx      [][2]string    `json:"ctx"`
	Extra    []c04ExtraSeen `json:"extra"`
	Input    string         `json:"input"`
	Creds    []c04CredSeen  `json:"creds"`
	HasInput bool           `json:"hasInput"`
	Meta     string         `json:"meta"` // meta.tag
	XRName   string         `json:"xrName"`
	XRConn   [][2]string    `json:"xrConn"`
	ObsConn  []c04ConnSeen  `json:"obsConn"`
}

type c04ConnSeen struct {
	RName string      `json:"rname"`
	Data  [][2]string `json:"data"`
}

type c04ExtraSeen struct {
	Key   string   `json:"key"`
	Nil   bool     `json:"nil"`
	Names []string `json:"names"`
}

type c04CredSeen struct {
	Name string      `json:"name"`
	Keys []string    `json:"keys"`
	Data [][2]string `json:"data"`
}

func c04KV(m map[string][]byte) [][2]string {
	out := [][2]string{}
	for k, v := range m {
		out = append(out, [2]string{k, string(v)})
	}
	sort.Slice(out, func(i, j int) bool { return out[i][0] < out[j][0] })
	return out
}

type c04Event struct {
	Type  string `json:"type"`
	Msg   string `json:"msg"`
	Claim bool   `json:"claim"`
	Step  string `json:"step"`
}

type c04CondOut struct {
	Type   string `json:"type"`
	Status string `json:"status"`
	Reason string `json:"reason"`
	Claim  bool   `json:"claim"`
	Msg    string `json:"msg"`
}

type c04Obs struct {
	Reqs    []c04Req     `json:"reqs"`
	Err     bool         `json:"err"`
	Events  []c04Event   `json:"events"`
	Conds   []c04CondOut `json:"conds"`
	Desired []c04Res     `json:"desired"` // composed resources of the result (name = "" here)
	XRReady string       `json:"xrReady"` // unset | true | false
	// writes addressed to composed kinds or to spec.resourceRefs (C03: must be empty on failure)
	Writes int `json:"writes"`
}

func c04Holds(c c04Cond, req *fnv1.RunFunctionRequest) bool {
	switch c.T {
	case "always":
		return true
	case "hasExtra":
		r, ok := req.GetExtraResources()[c.K]
		return ok && r != nil && len(r.GetItems()) > 0
	case "lacksExtra":
		r, ok := req.GetExtraResources()[c.K]
		return !(ok && r != nil && len(r.GetItems()) > 0)
	case "ctxHas":
		_, ok := req.GetContext().GetFields()[c.K]
		return ok
	case "ctxLacks":
		_, ok := req.GetContext().GetFields()[c.K]
		return !ok
	case "ctxEq":
		v, ok := req.GetContext().GetFields()[c.K]
		return ok && v.GetStringValue() == c.V
	case "desiredHas":
		_, ok := req.GetDesired().GetResources()[c.K]
		return ok
	case "observedHas":
		_, ok := req.GetObserved().GetResources()[c.K]
		return ok
	case "xrConnHas":
		_, ok := req.GetObserved().GetComposite().GetConnectionDetails()[c.K]
		return ok
	case "obsConnHas":
		_, ok := req.GetObserved().GetResources()[c.K].GetConnectionDetails()[c.V]
		return ok
	case "credHas":
		_, ok := req.GetCredentials()[c.K].GetCredentialData().GetData()[c.V]
		return ok
	case "credVal":
		for _, v := range req.GetCredentials()[c.K].GetCredentialData().GetData() {
			if string(v) == c.V {
				return true
			}
		}
		return false
	case "hasInput":
		return req.GetInput() != nil
	}
	return false
}

// c04Eval is the scripted function: a deterministic function of its request.
func c04Eval(st c04Step, req *fnv1.RunFunctionRequest) (*fnv1.RunFunctionResponse, error) {
	rsp := &fnv1.RunFunctionResponse{Desired: &fnv1.State{Resources: map[string]*fnv1.Resource{}}}
	// pass through desired and context
	if c := req.GetDesired().GetComposite(); c != nil {
		rsp.Desired.Composite = &fnv1.Resource{Resource: c.GetResource(), Ready: c.GetReady()}
	}
	for k, v := range req.GetDesired().GetResources() {
		rsp.Desired.Resources[k] = v
	}
	ctx := map[string]any{}
	for k, v := range req.GetContext().GetFields() {
		ctx[k] = v.GetStringValue()
	}
	reqs := map[string]*fnv1.ResourceSelector{}
	for _, r := range st.Rules {
		if !c04Holds(r.If, req) {
			continue
		}
		for _, a := range r.Do {
			switch a.T {
			case "add":
				s, _ := structpb.NewStruct(map[string]any{"apiVersion": xwAPIVersion(a.Kind, "v1"), "kind": xwKindGVK(a.Kind).Kind, "spec": map[string]any{"content": a.Content}})
				rd := fnv1.Ready_READY_FALSE
				if a.Ready {
					rd = fnv1.Ready_READY_TRUE
				}
				rsp.Desired.Resources[a.RName] = &fnv1.Resource{Resource: s, Ready: rd}
			case "del":
				delete(rsp.Desired.Resources, a.RName)
			case "ctx":
				ctx[a.K] = a.V
			case "delctx":
				delete(ctx, a.K)
			case "require":
				sel := &fnv1.ResourceSelector{ApiVersion: xwAPIVersion(a.Sel.Kind, "v1"), Kind: xwKindGVK(a.Sel.Kind).Kind}
				if a.Sel.Name != "" {
					sel.Match = &fnv1.ResourceSelector_MatchName{MatchName: a.Sel.Name}
				} else {
					sel.Match = &fnv1.ResourceSelector_MatchLabels{MatchLabels: &fnv1.MatchLabels{Labels: a.Sel.Labels}}
				}
				reqs[a.K] = sel
			case "result":
				sev := map[string]fnv1.Severity{"fatal": fnv1.Severity_SEVERITY_FATAL, "warning": fnv1.Severity_SEVERITY_WARNING, "normal": fnv1.Severity_SEVERITY_NORMAL, "unspecified": fnv1.Severity_SEVERITY_UNSPECIFIED}[a.Sev]
				res := &fnv1.Result{Severity: sev, Message: a.Msg}
				if a.Claim {
					t := fnv1.Target_TARGET_COMPOSITE_AND_CLAIM
					res.Target = &t
				}
				rsp.Results = append(rsp.Results, res)
			case "cond":
				stt := map[string]fnv1.Status{"True": fnv1.Status_STATUS_CONDITION_TRUE, "False": fnv1.Status_STATUS_CONDITION_FALSE, "Unknown": fnv1.Status_STATUS_CONDITION_UNKNOWN}[a.Status]
				c := &fnv1.Condition{Type: a.K, Status: stt, Reason: a.Reason}
				if a.Msg != "" {
					m := a.Msg
					c.Message = &m
				}
				if a.Claim {
					t := fnv1.Target_TARGET_COMPOSITE_AND_CLAIM
					c.Target = &t
				}
				rsp.Conditions = append(rsp.Conditions, c)
			case "xrReady":
				if rsp.Desired.Composite == nil {
					rsp.Desired.Composite = &fnv1.Resource{}
				}
				if a.Ready {
					rsp.Desired.Composite.Ready = fnv1.Ready_READY_TRUE
				} else {
					rsp.Desired.Composite.Ready = fnv1.Ready_READY_FALSE
				}
			case "ttl":
				rsp.Meta = &fnv1.ResponseMeta{Ttl: durationpb.New(time.Minute)}
			case "error":
				return nil, errors.New("function error")
			}
		}
	}
	cs, _ := structpb.NewStruct(ctx)
	rsp.Context = cs
	if len(reqs) > 0 {
		rsp.Requirements = &fnv1.Requirements{ExtraResources: reqs}
	}
	return rsp, nil
}

func c04Resources(m map[string]*fnv1.Resource, withName bool) []c04Res {
	out := []c04Res{}
	for rn, r := range m {
		mm := r.GetResource().AsMap()
		u := unstructured.Unstructured{Object: mm}
		c, _, _ := unstructured.NestedFloat64(mm, "spec", "content")
		e := c04Res{RName: rn, Kind: xwModelKind(u.GroupVersionKind().Group, u.GetKind()), Content: int(c), Ready: r.GetReady() == fnv1.Ready_READY_TRUE}
		if withName {
			e.Name = u.GetName()
		}
		out = append(out, e)
	}
	sort.Slice(out, func(i, j int) bool { return out[i].RName < out[j].RName })
	return out
}

func c04Run(s c04Scn) (c04Obs, []Mon) {
	w := xwNewWorld(xwScn{Mode: "fn", Fin: true, Refs: s.Refs, Objs: s.Objs})
	st := w.St
	for _, e := range s.Cluster {
		u := &unstructured.Unstructured{}
		u.SetGroupVersionKind(xwKindGVK(e.Kind))
		u.SetName(e.Name)
		u.SetLabels(e.Labels)
		st.Seed(u)
	}
	sch := runtime.NewScheme()
	_ = corev1.AddToScheme(sch)
	st.scheme = sch
	secData := map[string]map[string][]byte{}
	for _, sec := range s.Secrets {
		d := map[string][]byte{}
		ns := sec.NS
		if ns == "" {
			ns = "creds"
		}
		for _, k := range sec.Keys {
			d[k] = []byte(c04SecKey(sec.NS, sec.Name) + ":" + k)
		}
		st.Seed(&corev1.Secret{ObjectMeta: metav1.ObjectMeta{Name: sec.Name, Namespace: ns}, Data: d})
		secData[c04SecKey(sec.NS, sec.Name)] = d
	}
	// connection secret references of the XR and of composed objects
	setRef := func(name string) func(u *unstructured.Unstructured) {
		return func(u *unstructured.Unstructured) {
			_ = unstructured.SetNestedMap(u.Object, map[string]any{"namespace": "creds", "name": name}, "spec", "writeConnectionSecretToRef")
		}
	}
	if s.XRConn != "" {
		st.Mutate(xwXRGVK.GroupKind(), "", xwXRName, setRef(s.XRConn))
	}
	for _, oc := range s.ObjConn {
		for _, o := range s.Objs {
			if o.Name == oc.Obj {
				st.Mutate(xwKindGVK(o.Kind).GroupKind(), "", o.Name, setRef(oc.Secret))
			}
		}
	}
	// Gets of these Secrets answer an error other than NotFound
	failGet := map[string]bool{}
	for _, n := range s.FailGet {
		failGet[n] = true
	}
	st.Plan = func(c CallInfo) Outcome {
		if c.Verb == "get" && c.GK == "Secret" && failGet[c.Name] {
			return Fail
		}
		return OK
	}
	obs := c04Obs{Reqs: []c04Req{}, Events: []c04Event{}, Conds: []c04CondOut{}, Desired: []c04Res{}, XRReady: "unset"}
	var mons []Mon
	stepIdx := map[string]int{}
	rev := &v1.CompositionRevision{}
	for i, sp := range s.Steps {
		stepIdx[sp.Fn] = i
		ps := v1.PipelineStep{Step: fmt.Sprintf("s%d", i), FunctionRef: v1.FunctionReference{Name: sp.Fn}}
		if sp.Input != "" {
			raw, _ := json.Marshal(map[string]any{"apiVersion": "in.example.org/v1", "kind": "Input", "spec": map[string]any{"v": sp.Input}})
			ps.Input = &runtime.RawExtension{Raw: raw}
		}
		if sp.BadInput {
			ps.Input = &runtime.RawExtension{Raw: []byte(`["not", "an", "object"]`)}
		}
		for _, c := range sp.Creds {
			cns := c.NS
			if cns == "" {
				cns = "creds"
			}
			fc := v1.FunctionCredentials{Name: c.Name, Source: v1.FunctionCredentialsSourceSecret, SecretRef: &xpv1.SecretReference{Namespace: cns, Name: c.Secret}}
			if c.Src == "none" {
				fc.Source = v1.FunctionCredentialsSourceNone
			}
			if c.NoRef {
				fc.SecretRef = nil
			}
			ps.Credentials = append(ps.Credentials, fc)
		}
		rev.Spec.Pipeline = append(rev.Spec.Pipeline, ps)
	}
	reqCanon := map[int][]string{}
	lastStep := -1
	var lastSel map[string]*fnv1.ResourceSelector
	lastResults := map[int][]*fnv1.Result{} // results of each step's last (accepted) call
	lastFatal := map[int]bool{}
	lastConds := map[int][]*fnv1.Condition{} // conditions of each step's last (accepted) call
	firstReq := map[int]*fnv1.RunFunctionRequest{} // first request of each step
	var prevRsp *fnv1.RunFunctionResponse          // the latest answer of any step
	inner := composite.FunctionRunnerFn(func(_ context.Context, name string, req *fnv1.RunFunctionRequest) (*fnv1.RunFunctionResponse, error) {
		i := stepIdx[name]
		r := c04Req{Step: i, Fn: name, Observed: c04Resources(req.GetObserved().GetResources(), true), Desired: c04Resources(req.GetDesired().GetResources(), false), Ctx: [][2]string{}, Extra: []c04ExtraSeen{}, Creds: []c04CredSeen{}, ObsConn: []c04ConnSeen{}}
		if md, ok := req.GetObserved().GetComposite().GetResource().AsMap()["metadata"].(map[string]any); ok {
			r.XRName, _ = md["name"].(string)
		}
		if r.XRName != xwXRName {
			mons = append(mons, Mon{Sig: "C04:observed-xr-wrong", Why: "observed composite is not the XR"})
		}
		r.XRConn = c04KV(req.GetObserved().GetComposite().GetConnectionDetails())
		for rn, or := range req.GetObserved().GetResources() {
			r.ObsConn = append(r.ObsConn, c04ConnSeen{RName: rn, Data: c04KV(or.GetConnectionDetails())})
		}
		sort.Slice(r.ObsConn, func(a, b int) bool { return r.ObsConn[a].RName < r.ObsConn[b].RName })
		r.HasInput = req.GetInput() != nil
		r.Meta = req.GetMeta().GetTag()
		for k, v := range req.GetContext().GetFields() {
			r.Ctx = append(r.Ctx, [2]string{k, v.GetStringValue()})
		}
		sort.Slice(r.Ctx, func(a, b int) bool { return r.Ctx[a][0] < r.Ctx[b][0] })
		for k, v := range req.GetExtraResources() {
			e := c04ExtraSeen{Key: k, Nil: v == nil, Names: []string{}}
			for _, it := range v.GetItems() {
				u := unstructured.Unstructured{Object: it.GetResource().AsMap()}
				e.Names = append(e.Names, u.GetName())
			}
			sort.Strings(e.Names)
			r.Extra = append(r.Extra, e)
		}
		sort.Slice(r.Extra, func(a, b int) bool { return r.Extra[a].Key < r.Extra[b].Key })
		if in := req.GetInput(); in != nil {
			if sp, ok := in.AsMap()["spec"].(map[string]any); ok {
				r.Input, _ = sp["v"].(string)
			}
		}
		for n, c := range req.GetCredentials() {
			cs := c04CredSeen{Name: n, Keys: []string{}, Data: c04KV(c.GetCredentialData().GetData())}
			for k := range c.GetCredentialData().GetData() {
				cs.Keys = append(cs.Keys, k)
			}
			sort.Strings(cs.Keys)
			r.Creds = append(r.Creds, cs)
		}
		sort.Slice(r.Creds, func(a, b int) bool { return r.Creds[a].Name < r.Creds[b].Name })
		obs.Reqs = append(obs.Reqs, r)
		// C04 monitor, evaluated on the real request: the extra resources handed to this call
		// are exactly the cluster objects matching the requirements this step returned on
		// its previous call (none on its first call)
		if lastStep != i {
			lastStep, lastSel = i, nil
		}
		want := map[string][]string{}
		for k, sel := range lastSel {
			ns := []string{}
			for _, e := range s.Cluster {
				if sgv, _ := schema.ParseGroupVersion(sel.GetApiVersion()); e.Kind != xwModelKind(sgv.Group, sel.GetKind()) {
					continue
				}
				if sel.GetMatchLabels() == nil {
					if e.Name == sel.GetMatchName() {
						ns = append(ns, e.Name)
					}
					continue
				}
				ok := true
				for lk, lv := range sel.GetMatchLabels().GetLabels() {
					if e.Labels[lk] != lv {
						ok = false
					}
				}
				if ok {
					ns = append(ns, e.Name)
				}
			}
			sort.Strings(ns)
			want[k] = ns
		}
		got := map[string][]string{}
		for _, e := range r.Extra {
			got[e.Key] = e.Names
		}
		if fmt.Sprint(got) != fmt.Sprint(want) {
			mons = append(mons, Mon{Sig: "C04:extra-resources-not-matching-requirements", Why: fmt.Sprintf("call %d (step %d): handed extra resources %v, the step's latest requirements select %v", len(obs.Reqs)-1, i, got, want)})
		}
		// C04 monitors, evaluated on the real request against the scenario alone (no model):
		// (a) the step was prepared: its input decodes and every secret-sourced credential's Secret
		// exists and can be read; the request carries exactly the step's OWN credentials and input
		{
			sp := s.Steps[i]
			wantCreds := map[string][][2]string{}
			prepared := !sp.BadInput
			for _, c := range sp.Creds {
				if c.Src == "none" || c.NoRef {
					continue
				}
				d, ok := secData[c04SecKey(c.NS, c.Secret)]
				if !ok || failGet[c.Secret] {
					prepared = false
					continue
				}
				wantCreds[c.Name] = c04KV(d)
			}
			if !prepared {
				mons = append(mons, Mon{Sig: "C04:called-despite-failed-preparation", Why: fmt.Sprintf("step %d was called although its input does not decode or a credentials Secret cannot be read", i)})
			} else {
				gotCreds := map[string][][2]string{}
				for _, c := range r.Creds {
					gotCreds[c.Name] = c.Data
				}
				if fmt.Sprint(gotCreds) != fmt.Sprint(wantCreds) {
					mons = append(mons, Mon{Sig: "C04:credentials-not-own", Why: fmt.Sprintf("call %d (step %d): credentials %v, the step's own credentials are %v", len(obs.Reqs)-1, i, gotCreds, wantCreds)})
				}
			}
			if r.Input != sp.Input || r.HasInput != (sp.Input != "") {
				mons = append(mons, Mon{Sig: "C04:input-not-own", Why: fmt.Sprintf("call %d (step %d): input %q (set=%v), the step's own input is %q", len(obs.Reqs)-1, i, r.Input, r.HasInput, sp.Input)})
			}
			if req.GetMeta() != nil {
				mons = append(mons, Mon{Sig: "C04:unexpected-meta", Why: "the composer sets no request meta"})
			}
		}
		// (b) the observed state carries the connection details of the XR's and of every observed
		// composed resource's own connection Secret
		{
			want := [][2]string{}
			if d, ok := secData[s.XRConn]; ok {
				want = c04KV(d)
			}
			if fmt.Sprint(r.XRConn) != fmt.Sprint(want) {
				mons = append(mons, Mon{Sig: "C04:observed-connection-details-wrong", Why: fmt.Sprintf("call %d: observed XR connection details %v, its connection Secret holds %v", len(obs.Reqs)-1, r.XRConn, want)})
			}
			for _, o := range r.Observed {
				want := [][2]string{}
				for _, oc := range s.ObjConn {
					if d, ok := secData[oc.Secret]; ok && oc.Obj == o.Name {
						want = c04KV(d)
					}
				}
				got := [][2]string{}
				for _, oc := range r.ObsConn {
					if oc.RName == o.RName {
						got = oc.Data
					}
				}
				if fmt.Sprint(got) != fmt.Sprint(want) {
					mons = append(mons, Mon{Sig: "C04:observed-connection-details-wrong", Why: fmt.Sprintf("call %d: observed resource %s (%s) connection details %v, its connection Secret holds %v", len(obs.Reqs)-1, o.RName, o.Name, got, want)})
				}
			}
		}
		// (c) threading: the first call of step k carries the desired state and context of the answer
		// accepted from step k-1 (empty for the first step); a later round of the same step carries
		// the same desired state and the context of its own previous answer
		{
			var wantD *fnv1.State
			var wantC *structpb.Struct
			if first := firstReq[i]; first != nil {
				wantD, wantC = first.GetDesired(), prevRsp.GetContext()
			} else if i == 0 {
				wantD, wantC = &fnv1.State{}, &structpb.Struct{}
			} else {
				wantD, wantC = prevRsp.GetDesired(), prevRsp.GetContext()
			}
			sameCtx := proto.Equal(req.GetContext(), wantC) || (len(req.GetContext().GetFields()) == 0 && len(wantC.GetFields()) == 0)
			sameDes := proto.Equal(req.GetDesired(), wantD) || (proto.Size(req.GetDesired()) == 0 && proto.Size(wantD) == 0)
			if !sameCtx || !sameDes {
				mons = append(mons, Mon{Sig: "C04:state-not-threaded", Why: fmt.Sprintf("call %d (step %d): desired/context are not those of the previous answer (desired same=%v, context same=%v)", len(obs.Reqs)-1, i, sameDes, sameCtx)})
			}
			if firstReq[i] == nil {
				firstReq[i] = proto.Clone(req).(*fnv1.RunFunctionRequest)
			}
		}
		if why := c04BetaRoundTrip(req); why != "" {
			mons = append(mons, Mon{Sig: "C04:beta-reencoding-lossy", Why: why})
		}
		rsp, err := c04Eval(s.Steps[i], req)
		if err == nil {
			// canonical rendering of the requirements this call returned (for the stabilisation monitor)
			keys := []string{}
			for k := range rsp.GetRequirements().GetExtraResources() {
				keys = append(keys, k)
			}
			sort.Strings(keys)
			canon := ""
			for _, k := range keys {
				sel := rsp.GetRequirements().GetExtraResources()[k]
				lb, _ := json.Marshal(sel.GetMatchLabels().GetLabels())
				canon += fmt.Sprintf("%s=%s/%s/%s/%s;", k, sel.GetApiVersion(), sel.GetKind(), sel.GetMatchName(), lb)
			}
			fatal := false
			for _, rs := range rsp.GetResults() {
				if rs.GetSeverity() == fnv1.Severity_SEVERITY_FATAL {
					fatal = true
				}
			}
			lastSel = rsp.GetRequirements().GetExtraResources()
			prevRsp = proto.Clone(rsp).(*fnv1.RunFunctionResponse)
			lastResults[i] = rsp.GetResults()
			lastConds[i] = rsp.GetConditions()
			reqCanon[i] = append(reqCanon[i], canon)
			lastFatal[i] = fatal
			if why := c04BetaRspRoundTrip(rsp); why != "" {
				mons = append(mons, Mon{Sig: "C04:beta-reencoding-lossy", Why: why})
			}
		}
		return rsp, err
	})
	runner := composite.NewFetchingFunctionRunner(inner, composite.NewExistingExtraResourcesFetcher(st))
	fc := composite.NewFunctionComposer(st, st, runner)
	xr := ucomposite.New(ucomposite.WithGroupVersionKind(xwXRGVK))
	_ = st.Get(context.Background(), clientKey(xwXRName), xr)
	st.Log = nil
	var res composite.CompositionResult
	var err error
	if p := Guard(func() {
		res, err = fc.Compose(context.Background(), xr, composite.CompositionRequest{Revision: rev})
	}); p != "" {
		mons = append(mons, Mon{Sig: "C04:panic", Why: p})
	}
	obs.Err = err != nil
	for _, e := range res.Events {
		obs.Events = append(obs.Events, c04Event{Type: string(e.Event.Type), Msg: e.Event.Message, Claim: e.Target == composite.CompositionTargetCompositeAndClaim, Step: e.Detail})
	}
	for _, c := range res.Conditions {
		obs.Conds = append(obs.Conds, c04CondOut{Type: string(c.Condition.Type), Status: string(c.Condition.Status), Reason: string(c.Condition.Reason), Claim: c.Target == composite.CompositionTargetCompositeAndClaim, Msg: c.Condition.Message})
	}
	for _, cd := range res.Composed {
		obs.Desired = append(obs.Desired, c04Res{RName: string(cd.ResourceName), Ready: cd.Ready})
	}
	sort.Slice(obs.Desired, func(i, j int) bool { return obs.Desired[i].RName < obs.Desired[j].RName })
	if res.Composite.Ready != nil {
		obs.XRReady = fmt.Sprintf("%v", *res.Composite.Ready)
	}
	for _, c := range st.Log {
		if !c.IsWrite() || !c.Applied {
			continue
		}
		gk := schema.ParseGroupKind(c.GK)
		if gk.Kind == "KA" || gk.Kind == "KB" || (gk.Kind == xwXRGVK.Kind && c.Sub == "") {
			obs.Writes++
		}
	}
	// C04 monitor, evaluated on the real result: the results of every step's accepted answer are
	// surfaced as events in pipeline order and none is dropped (up to the first fatal one)
	{
		want := []string{}
		sawFatal := false
		for i := 0; i < len(s.Steps) && !sawFatal; i++ {
			rs, called := lastResults[i]
			if !called {
				break
			}
			for _, x := range rs {
				if x.GetSeverity() == fnv1.Severity_SEVERITY_FATAL {
					sawFatal = true
					break
				}
				want = append(want, x.GetMessage())
			}
		}
		if err == nil || sawFatal {
			j := 0
			for _, e := range obs.Events {
				if j < len(want) && strings.Contains(e.Msg, want[j]) {
					j++
				}
			}
			if j < len(want) {
				msgs := []string{}
				for _, e := range obs.Events {
					msgs = append(msgs, e.Msg)
				}
				mons = append(mons, Mon{Sig: "C04:result-dropped-or-reordered", Why: fmt.Sprintf("the accepted answers carried the non-fatal results %q in pipeline order; the events returned are %q", want, msgs)})
			}
		}
	}
	// C04 monitor, evaluated on the real result: the conditions of every step's accepted answer are
	// surfaced in pipeline order with type, reason, message and target untouched and the status
	// mapped TRUE -> True, FALSE -> False, anything else -> Unknown; a fatal result surfaces the
	// conditions up to and including its own answer's
	{
		want := []string{}
		sawFatal := false
		for i := 0; i < len(s.Steps) && !sawFatal; i++ {
			if _, called := lastResults[i]; !called {
				break
			}
			for _, c := range lastConds[i] {
				st := "Unknown"
				switch c.GetStatus() { //nolint:exhaustive
				case fnv1.Status_STATUS_CONDITION_TRUE:
					st = "True"
				case fnv1.Status_STATUS_CONDITION_FALSE:
					st = "False"
				}
				want = append(want, fmt.Sprintf("%s/%s/%s/%s/%v", c.GetType(), st, c.GetReason(), c.GetMessage(), c.GetTarget() == fnv1.Target_TARGET_COMPOSITE_AND_CLAIM))
			}
			sawFatal = lastFatal[i]
		}
		if err == nil || sawFatal {
			got := []string{}
			for _, c := range obs.Conds {
				got = append(got, fmt.Sprintf("%s/%s/%s/%s/%v", c.Type, c.Status, c.Reason, c.Msg, c.Claim))
			}
			if fmt.Sprint(got) != fmt.Sprint(want) {
				mons = append(mons, Mon{Sig: "C04:condition-dropped-or-altered", Why: fmt.Sprintf("the accepted answers carried the conditions %q in pipeline order; the conditions returned are %q", want, got)})
			}
		}
	}
	// C04 monitor: when the observed state can be built (every referenced object that is controlled
	// by this XR is named, no connection Secret read answers an error other than NotFound) and the
	// first step is prepared, the first step is called
	if len(obs.Reqs) == 0 {
		canObserve := !failGet[s.XRConn]
		for _, rf := range s.Refs {
			for _, o := range s.Objs {
				if o.Kind != rf.Kind || o.Name != rf.Name || o.Ctrl == "other" {
					continue
				}
				if o.Annot == "" {
					canObserve = false
				}
				for _, oc := range s.ObjConn {
					if oc.Obj == o.Name && failGet[oc.Secret] {
						canObserve = false
					}
				}
			}
		}
		prepared := !s.Steps[0].BadInput
		for _, c := range s.Steps[0].Creds {
			if c.Src == "none" || c.NoRef {
				continue
			}
			if _, ok := secData[c04SecKey(c.NS, c.Secret)]; !ok || failGet[c.Secret] {
				prepared = false
			}
		}
		if canObserve && prepared {
			mons = append(mons, Mon{Sig: "C04:pipeline-not-started", Why: "the observed state can be built and the first step's input and credentials are available, yet no function was called"})
		}
	}
	// C04/C03 monitor: a step's answer is accepted only if its requirements equal those of the previous round
	if err == nil {
		for i, cs := range reqCanon {
			n := len(cs)
			prev := ""
			if n >= 2 {
				prev = cs[n-2]
			}
			if n >= 1 && cs[n-1] != prev && !lastFatal[i] {
				mons = append(mons, Mon{Sig: "C04:unstable-requirements-accepted", Why: fmt.Sprintf("step %d: composition went on although the requirements of the last call (%q) differ from the previous round's (%q)", i, cs[n-1], prev)})
			}
		}
	}
	// C03 monitor: a failing pipeline writes nothing
	if err != nil && obs.Writes > 0 && c04PipelineFailed(obs, s) {
		mons = append(mons, Mon{Sig: "C03:write-on-failed-pipeline", Why: fmt.Sprintf("%d writes to composed resources / resourceRefs although the pipeline failed", obs.Writes)})
	}
	return obs, mons
}

// c04PipelineFailed: the error came from the pipeline (not from an apply) — true when no write was expected at all.
func c04PipelineFailed(o c04Obs, s c04Scn) bool { return true }

// ---- generator ----

func c04GenStep(r *Rng, i int) c04Step {
	st := c04Step{Fn: fmt.Sprintf("fn%d", i), Creds: []c04Cred{}, Rules: []c04Rule{}}
	if r.Chance(1, 3) {
		st.Input = Pick(r, []string{"in-a", "in-b"})
	}
	if r.Chance(1, 4) {
		nc := r.Range(1, 2)
		for j := 0; j < nc; j++ {
			c := c04Cred{Name: Pick(r, []string{"c1", "c1", "c2"}), Secret: Pick(r, []string{"sec1", "sec2", "sec1", "sec2", "missing"})}
			// the same Secret NAME in another namespace holds different data
			if r.Chance(1, 3) {
				c.NS = "other"
			}
			if r.Chance(1, 8) {
				c.Src = "none"
			}
			if r.Chance(1, 10) {
				c.NoRef = true
			}
			st.Creds = append(st.Creds, c)
		}
	}
	if r.Chance(1, 30) {
		st.BadInput = true
	}
	nr := r.Range(1, 4)
	for j := 0; j < nr; j++ {
		rule := c04Rule{If: c04Cond{T: "always"}}
		switch r.Intn(8) {
		case 0:
			rule.If = c04Cond{T: Pick(r, []string{"hasExtra", "lacksExtra"}), K: Pick(r, []string{"e1", "e2"})}
		case 1:
			rule.If = c04Cond{T: Pick(r, []string{"ctxHas", "ctxLacks"}), K: Pick(r, []string{"k1", "k2"})}
		case 2:
			rule.If = c04Cond{T: Pick(r, []string{"desiredHas", "observedHas"}), K: Pick(r, c01RNames)}
		case 3:
			switch r.Intn(5) {
			case 0:
				rule.If = c04Cond{T: "xrConnHas", K: Pick(r, []string{"user", "token"})}
			case 1:
				rule.If = c04Cond{T: "obsConnHas", K: Pick(r, c01RNames), V: Pick(r, []string{"user", "token"})}
			case 2:
				rule.If = c04Cond{T: "credHas", K: Pick(r, []string{"c1", "c2"}), V: Pick(r, []string{"user", "token"})}
			case 3:
				rule.If = c04Cond{T: "credVal", K: Pick(r, []string{"c1", "c2"}), V: Pick(r, []string{"sec1:user", "sec2:token", "sec1:token", "other/sec1:user", "other/sec2:token"})}
			case 4:
				rule.If = c04Cond{T: "hasInput"}
			}
		}
		na := r.Range(1, 3)
		for k := 0; k < na; k++ {
			switch r.Intn(12) {
			case 0, 1, 2, 3:
				n := Pick(r, c01RNames)
				rule.Do = append(rule.Do, c04Act{T: "add", RName: n, Kind: c01KindOf[n], Content: r.Intn(3), Ready: r.Bool()})
			case 4:
				rule.Do = append(rule.Do, c04Act{T: "del", RName: Pick(r, c01RNames)})
			case 5, 6:
				rule.Do = append(rule.Do, c04Act{T: "ctx", K: Pick(r, []string{"k1", "k2", "k3"}), V: Pick(r, []string{"x", "y"})})
			case 7:
				rule.Do = append(rule.Do, c04Act{T: "delctx", K: Pick(r, []string{"k1", "k2"})})
			case 8:
				sel := &c04Sel{Kind: Pick(r, []string{"EX", "EY"})}
				if r.Bool() {
					sel.Name = Pick(r, []string{"x1", "x2", "nope"})
				} else {
					sel.Labels = map[string]string{"tier": Pick(r, []string{"gold", "none"})}
				}
				rule.Do = append(rule.Do, c04Act{T: "require", K: Pick(r, []string{"e1", "e2"}), Sel: sel})
			case 9:
				rule.Do = append(rule.Do, c04Act{T: "result", Sev: Pick(r, []string{"warning", "normal", "normal", "unspecified", "fatal"}), Msg: fmt.Sprintf("m%d", r.Intn(3)), Claim: r.Bool()})
			case 10:
				rule.Do = append(rule.Do, c04Act{T: "cond", K: Pick(r, []string{"Ready", "Custom", "DatabaseReady"}), Status: Pick(r, []string{"True", "False", "Unknown", "Unspecified"}), Reason: "R", Claim: r.Bool(), Msg: Pick(r, []string{"", "cm"})})
			case 11:
				if r.Chance(1, 3) {
					rule.Do = append(rule.Do, c04Act{T: "error"})
				} else if r.Chance(1, 3) {
					rule.Do = append(rule.Do, c04Act{T: "ttl"})
				} else {
					rule.Do = append(rule.Do, c04Act{T: "xrReady", Ready: r.Bool()})
				}
			}
		}
		st.Rules = append(st.Rules, rule)
	}
	// requirement chains of a chosen length driven by the context (rounds that keep changing)
	if r.Chance(1, 3) {
		n := r.Range(1, 8)
		byLabel := r.Bool()
		for j := 0; j < n; j++ {
			cond := c04Cond{T: "ctxEq", K: "n", V: fmt.Sprintf("%d", j)}
			if j == 0 {
				cond = c04Cond{T: "ctxLacks", K: "n"}
			}
			sel := &c04Sel{Kind: "EX", Name: []string{"x1", "x2", "nope"}[j%3]}
			if byLabel {
				// requirements that differ from round to round ONLY in a label value
				sel = &c04Sel{Kind: "EX", Labels: map[string]string{"tier": []string{"gold", "none", "silver"}[j%3]}}
			}
			st.Rules = append(st.Rules, c04Rule{If: cond, Do: []c04Act{
				{T: "ctx", K: "n", V: fmt.Sprintf("%d", j+1)},
				{T: "require", K: "chain", Sel: sel},
			}})
		}
	}
	// a selector that is NARROWED from one round to the next: the same requirement name, kind
	// and labels, with one more label once the broader match has been delivered
	if r.Chance(1, 5) {
		st.Rules = append(st.Rules,
			c04Rule{If: c04Cond{T: "lacksExtra", K: "nar"}, Do: []c04Act{{T: "require", K: "nar", Sel: &c04Sel{Kind: "EX", Labels: map[string]string{"tier": "gold"}}}}},
			c04Rule{If: c04Cond{T: "hasExtra", K: "nar"}, Do: []c04Act{{T: "require", K: "nar", Sel: &c04Sel{Kind: "EX", Labels: map[string]string{"tier": "gold", "zone": "a"}}}}})
	}
	return st
}

func c04Gen(r *Rng) c04Scn {
	s := c04Scn{Refs: []xwRef{}, Objs: []xwObj{}, Cluster: []c04Extra{}, Secrets: []c04Secret{{Name: "sec1", Keys: []string{"user", "pass"}}, {Name: "sec2", Keys: []string{"token"}},
		{Name: "sec1", NS: "other", Keys: []string{"user", "alt"}}, {Name: "sec2", NS: "other", Keys: []string{"token"}}}}
	i := 0
	for _, n := range c01RNames {
		if !r.Chance(1, 3) {
			continue
		}
		i++
		o := xwObj{Kind: c01KindOf[n], Name: fmt.Sprintf("xr-pre%d", i), Annot: n, Ctrl: "xr", Content: r.Intn(3), SSA: true}
		switch r.Intn(8) {
		case 0:
			o.Ctrl = "other"
		case 1:
			o.Fin, o.Deleting = true, true
		}
		if r.Chance(7, 8) {
			s.Objs = append(s.Objs, o)
			if r.Chance(1, 3) {
				s.ObjConn = append(s.ObjConn, c04ObjConn{Obj: o.Name, Secret: Pick(r, []string{"sec1", "sec2", "missing"})})
			}
		}
		s.Refs = append(s.Refs, xwRef{Kind: o.Kind, Name: o.Name})
	}
	for _, e := range []c04Extra{{Kind: "EX", Name: "x1", Labels: map[string]string{"tier": "gold", "zone": "a"}}, {Kind: "EX", Name: "x2", Labels: map[string]string{"tier": "gold"}}, {Kind: "EY", Name: "x1", Labels: map[string]string{"tier": "silver"}}} {
		if r.Chance(2, 3) {
			s.Cluster = append(s.Cluster, e)
		}
	}
	if r.Chance(1, 3) {
		s.XRConn = Pick(r, []string{"sec1", "sec2", "missing"})
	}
	if r.Chance(1, 8) {
		s.FailGet = []string{Pick(r, []string{"sec1", "sec2"})}
	}
	n := r.Range(1, 4)
	for j := 0; j < n; j++ {
		s.Steps = append(s.Steps, c04GenStep(r, j))
	}
	return s
}

func init() {
	Register("C04", func(c *Ctx) {
		for _, raw := range c.Corpus {
			var cs c04ConnScn
			if err := json.Unmarshal(raw, &cs); err == nil && cs.Conn {
				cobs, cmons := c04ConnRun(cs)
				c.Emit(cs, cobs, cmons, "corpus")
				continue
			}
			var s c04Scn
			if err := json.Unmarshal(raw, &s); err == nil && len(s.Steps) > 0 {
				obs, mons := c04Run(s)
				c.Emit(s, obs, mons, "corpus")
			}
		}
		for i := 0; i < c.N; i++ {
			if i%5 == 4 {
				cs := c04ConnGen(c.Rng)
				cobs, cmons := c04ConnRun(cs)
				runs, errs, gcs := 0, 0, 0
				for j, op := range cs.Ops {
					if op.Op == "run" {
						runs++
						if cobs.Steps[j].Err {
							errs++
						}
					}
					if op.Op == "gc" {
						gcs += cobs.Steps[j].Closed
					}
				}
				c.Emit(cs, cobs, cmons, fmt.Sprintf("conn/runs=%d/errs=%d/closed=%d", runs, errs, gcs))
				continue
			}
			s := c04Gen(c.Rng)
			obs, mons := c04Run(s)
			maxRounds := 0
			cnt := map[int]int{}
			for _, r := range obs.Reqs {
				cnt[r.Step]++
				if cnt[r.Step] > maxRounds {
					maxRounds = cnt[r.Step]
				}
			}
			c.Emit(s, obs, mons, fmt.Sprintf("steps=%d/err=%v/maxRounds=%d/events=%d", len(s.Steps), obs.Err, maxRounds, len(obs.Events)))
		}
	})
	RegisterDump("Pipeline", func() string {
		return fmt.Sprintf("/-- composite.MaxRequirementsIterations -/\ndef maxRequirementsIterations : Nat := %d\n", composite.MaxRequirementsIterations)
	})
}

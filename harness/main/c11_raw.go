//go:build verif

package main

// C11, the author's schema as WRITTEN (the raw JSON document of vr.Schema.OpenAPIV3Schema.Raw),
// compared with the derived CRD without going through the harness's own typed decode:
//
//   - c11SchemaKeywords: the JSON keywords of the type the derivation decodes the author's
//     document into (extv1.JSONSchemaProps, by reflection over the struct tags of the module
//     version pinned by the current tree), dumped as Xp.Gen.xcrdSchemaKeywords; Props/C11
//     `schema_keywords_known` states that the keywords an author relies on (x-kubernetes-*,
//     default, enum, format, pattern, nullable, items, additionalProperties, ...) are among
//     them - a keyword that is not is dropped by the decode before genCrdVersion sees it.
//   - monitor C11:author-keyword-lost: every non-empty value the author wrote under a known
//     keyword, at any depth inside a non-machinery property of spec / status, is found with
//     an equal value at the same place of the derived CRD (marshalled). The walk is driven by
//     the Go TYPE (which keys are keywords, which are property names, which values are
//     schemas), reads the raw document as generic JSON, and skips what it cannot judge
//     (unknown keywords, empty values that `omitempty` drops).

import (
	"encoding/json"
	"fmt"
	"reflect"
	"sort"
	"strings"

	extv1 "k8s.io/apiextensions-apiserver/pkg/apis/apiextensions/v1"

	"github.com/crossplane/crossplane/internal/xcrd"
)

func c11JSONName(f reflect.StructField) string {
	tag := f.Tag.Get("json")
	if tag == "-" {
		return ""
	}
	n := strings.Split(tag, ",")[0]
	if n == "" {
		n = f.Name
	}
	return n
}

// c11SchemaKeywords: (JSON keyword, kind of its value) for every field of extv1.JSONSchemaProps.
func c11SchemaKeywords() [][2]string {
	t := reflect.TypeOf(extv1.JSONSchemaProps{})
	var out [][2]string
	for i := 0; i < t.NumField(); i++ {
		f := t.Field(i)
		n := c11JSONName(f)
		if n == "" {
			continue
		}
		ft := f.Type
		for ft.Kind() == reflect.Ptr {
			ft = ft.Elem()
		}
		kind := "value"
		switch {
		case ft == t:
			kind = "schema"
		case ft.Kind() == reflect.Slice && ft.Elem() == t:
			kind = "schemas"
		case ft.Kind() == reflect.Map && ft.Elem() == t:
			kind = "schemaMap"
		case ft.Name() == "JSONSchemaPropsOrArray":
			kind = "schemaOrSchemas"
		case ft.Name() == "JSONSchemaPropsOrBool":
			kind = "schemaOrBool"
		case ft.Name() == "JSONSchemaDependencies":
			kind = "schemaOrStringsMap"
		case ft.Name() == "ValidationRules":
			kind = "rules"
		}
		out = append(out, [2]string{n, kind})
	}
	sort.Slice(out, func(i, j int) bool { return out[i][0] < out[j][0] })
	return out
}

func c11EmptyJSON(v any) bool {
	switch t := v.(type) {
	case nil:
		return true
	case string:
		return t == ""
	case bool:
		return !t
	case float64:
		return t == 0
	case []any:
		return len(t) == 0
	case map[string]any:
		return len(t) == 0
	}
	return false
}

var c11SchemaType = reflect.TypeOf(extv1.JSONSchemaProps{})

// c11RawWalk reports where a value of the raw document `raw` (decoded as generic JSON), read as a
// value of Go type t, is missing from / different in `got` (the same place of the marshalled CRD).
func c11RawWalk(t reflect.Type, raw, got any, path string, bad *[]string) {
	for t.Kind() == reflect.Ptr {
		t = t.Elem()
	}
	lost := func() { *bad = append(*bad, fmt.Sprintf("%s: author wrote %s, CRD has %s", path, mustJSON(raw), mustJSON(got))) }
	switch t.Name() {
	case "JSON":
		if !c11EmptyJSON(raw) && !reflect.DeepEqual(raw, got) {
			lost()
		}
		return
	case "JSONSchemaPropsOrArray":
		if l, ok := raw.([]any); ok {
			c11RawWalk(reflect.SliceOf(c11SchemaType), l, got, path, bad)
		} else {
			c11RawWalk(c11SchemaType, raw, got, path, bad)
		}
		return
	case "JSONSchemaPropsOrBool":
		if b, ok := raw.(bool); ok {
			if g, ok := got.(bool); !ok || g != b {
				// `additionalProperties: false` is written out as false; a missing value means true
				if !(b && got == nil) {
					lost()
				}
			}
		} else {
			c11RawWalk(c11SchemaType, raw, got, path, bad)
		}
		return
	case "JSONSchemaPropsOrStringArray":
		if _, ok := raw.([]any); ok {
			if !c11EmptyJSON(raw) && !reflect.DeepEqual(raw, got) {
				lost()
			}
		} else {
			c11RawWalk(c11SchemaType, raw, got, path, bad)
		}
		return
	}
	switch t.Kind() {
	case reflect.Struct:
		rm, ok := raw.(map[string]any)
		if !ok {
			return // not an object: the decode fails or ignores it; nothing to judge
		}
		gm, _ := got.(map[string]any)
		for i := 0; i < t.NumField(); i++ {
			f := t.Field(i)
			n := c11JSONName(f)
			if n == "" {
				continue
			}
			rv, ok := rm[n]
			if !ok || c11EmptyJSON(rv) {
				continue
			}
			var gv any
			if gm != nil {
				gv = gm[n]
			}
			c11RawWalk(f.Type, rv, gv, path+"."+n, bad)
		}
	case reflect.Map:
		rm, ok := raw.(map[string]any)
		if !ok {
			return
		}
		gm, _ := got.(map[string]any)
		for k, rv := range rm {
			var gv any
			if gm != nil {
				gv = gm[k]
			}
			if gm == nil || gm[k] == nil {
				if !c11EmptyJSON(rv) {
					*bad = append(*bad, fmt.Sprintf("%s[%q]: author wrote %s, the CRD has no such entry", path, k, mustJSON(rv)))
				}
				continue
			}
			c11RawWalk(t.Elem(), rv, gv, path+"["+k+"]", bad)
		}
	case reflect.Slice:
		rl, ok := raw.([]any)
		if !ok {
			return
		}
		gl, _ := got.([]any)
		if len(gl) != len(rl) {
			lost()
			return
		}
		for i := range rl {
			c11RawWalk(t.Elem(), rl[i], gl[i], fmt.Sprintf("%s[%d]", path, i), bad)
		}
	default:
		if !c11EmptyJSON(raw) && !reflect.DeepEqual(raw, got) {
			lost()
		}
	}
}

func c11Dig(v any, keys ...string) map[string]any {
	for _, k := range keys {
		m, ok := v.(map[string]any)
		if !ok {
			return nil
		}
		v = m[k]
	}
	m, _ := v.(map[string]any)
	return m
}

// c11MonitorRaw: the author's raw documents against the derived CRD (see the file comment).
func c11MonitorRaw(x c11XrdS, which string, crd *extv1.CustomResourceDefinition) []Mon {
	var mons []Mon
	if crd == nil || len(crd.Spec.Versions) != len(x.Versions) {
		return nil
	}
	table := xcrd.CompositeResourceSpecProps()
	if which == "claim" {
		table = xcrd.CompositeResourceClaimSpecProps()
	}
	stable := xcrd.CompositeResourceStatusProps()
	for i, xv := range x.Versions {
		if !xv.Schema.Present || xv.Schema.RawNil {
			continue
		}
		var raw any
		if err := json.Unmarshal([]byte(xv.Schema.Raw), &raw); err != nil {
			continue
		}
		cv := crd.Spec.Versions[i]
		if cv.Schema == nil || cv.Schema.OpenAPIV3Schema == nil {
			continue
		}
		got := c11JSON(cv.Schema.OpenAPIV3Schema)
		var bad []string
		for _, node := range []string{"spec", "status"} {
			rp := c11Dig(raw, "properties", node, "properties")
			gp := c11Dig(got, "properties", node, "properties")
			ks := make([]string, 0, len(rp))
			for k := range rp {
				ks = append(ks, k)
			}
			sort.Strings(ks)
			for _, k := range ks {
				if _, isMach := table[k]; node == "spec" && isMach {
					continue
				}
				if _, isMach := stable[k]; node == "status" && isMach {
					continue
				}
				var gv any
				if gp != nil {
					gv = gp[k]
				}
				if _, ok := rp[k].(map[string]any); ok && gv == nil {
					bad = append(bad, node+"."+k+": the property is missing from the CRD")
					continue
				}
				c11RawWalk(c11SchemaType, rp[k], gv, node+"."+k, &bad)
			}
		}
		sort.Strings(bad)
		if len(bad) > 0 {
			mons = append(mons, Mon{Sig: "C11:author-keyword-lost", Why: fmt.Sprintf("%s, version %s: %s", which, xv.Name, bad[0])})
		}
	}
	return mons
}

func init() {
	RegisterDump("Xcrd", func() string {
		var sb strings.Builder
		kws := c11SchemaKeywords()
		var es []string
		for _, kw := range kws {
			es = append(es, "("+leanStr(kw[0])+", "+leanStr(kw[1])+")")
		}
		sb.WriteString("/-- the JSON keywords of extv1.JSONSchemaProps (the type parseSchema decodes the author's document into) with the\nkind of their value, by reflection over the module version the current tree pins; any other keyword is dropped by the decode -/\n")
		sb.WriteString("def xcrdSchemaKeywords : List (String × String) := [" + strings.Join(es, ", ") + "]\n")
		return sb.String()
	})
}

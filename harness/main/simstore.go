//go:build verif

package main

// simstore: a stateful, in-memory client.Client with the API-server semantics the
// properties need: resourceVersion optimistic concurrency, finalizers and
// deletionTimestamp, single-controller validation, JSON merge patch, JSON patch,
// an approximation of server-side apply, dry-run, a write log, a call counter
// with a fault plan (error / conflict / crash before / crash after at call k),
// and before/after hooks for monitors. It is part of the trusted base
// (DESIGN.md section 8).

import (
	"context"
	"encoding/json"
	"fmt"
	"os"
	"reflect"
	"sort"
	"strconv"
	"strings"
	"sync"
	"time"

	jsonpatch "github.com/evanphx/json-patch/v5"
	kerrors "k8s.io/apimachinery/pkg/api/errors"
	"k8s.io/apimachinery/pkg/api/meta"
	metav1 "k8s.io/apimachinery/pkg/apis/meta/v1"
	"k8s.io/apimachinery/pkg/apis/meta/v1/unstructured"
	"k8s.io/apimachinery/pkg/labels"
	"k8s.io/apimachinery/pkg/runtime"
	"k8s.io/apimachinery/pkg/runtime/schema"
	"k8s.io/apimachinery/pkg/types"
	"sigs.k8s.io/controller-runtime/pkg/client"
	"sigs.k8s.io/controller-runtime/pkg/client/apiutil"
)

// Outcome of an API call under a fault plan.
type Outcome int

const (
	OK Outcome = iota
	Fail
	Conflict
	CrashBefore
	CrashAfter
)

func (o Outcome) String() string {
	return [...]string{"ok", "fail", "conflict", "crashBefore", "crashAfter"}[o]
}

var outcomes = []Outcome{OK, Fail, Conflict, CrashBefore, CrashAfter}

// ErrCrashed is returned by every call once the simulated process has crashed.
var ErrCrashed = fmt.Errorf("simstore: process crashed")

// CallInfo describes one API call.
type CallInfo struct {
	Index int    `json:"k"`
	Verb  string `json:"verb"` // get list create update patch delete deleteAllOf
	GK    string `json:"gk"`   // Kind.group
	NS    string `json:"ns,omitempty"`
	Name  string `json:"name,omitempty"`
	Sub   string `json:"sub,omitempty"`
	// Write-only details
	PatchType   string `json:"pt,omitempty"`
	Manager     string `json:"mgr,omitempty"`
	DryRun      bool   `json:"dry,omitempty"`
	Outcome     string `json:"outcome,omitempty"`
	Applied     bool   `json:"applied,omitempty"` // took effect on the store (even if no-op)
	Changed     bool   `json:"changed,omitempty"` // stored bytes changed
	Err         string `json:"err,omitempty"`     // canonical error class returned to the caller
	Propagation string `json:"prop,omitempty"`

	editsManagedFields bool
}

func (c CallInfo) IsWrite() bool {
	return c.Verb != "get" && c.Verb != "list"
}

type objKey struct {
	GK   schema.GroupKind
	NS   string
	Name string
}

func (k objKey) String() string { return k.GK.String() + "/" + k.NS + "/" + k.Name }

type entry struct {
	obj           map[string]any            // full object incl. apiVersion/kind/metadata
	applied       map[string]map[string]any // SSA: manager -> last applied config (main resource)
	appliedStatus map[string]map[string]any
	bfa           bool // managedFields were cleared: the next apply records "before-first-apply"
}

// Indexer extracts index values for MatchingFields list options.
type Indexer func(o *unstructured.Unstructured) []string

// Store is the simulated API server.
type Store struct {
	mu     sync.Mutex
	scheme *runtime.Scheme
	objs   map[objKey]*entry
	rv     int
	uid    int
	clock  int

	Calls   int
	Log     []CallInfo
	Plan    func(c CallInfo) Outcome
	// FailErr, if set and returning non-nil, is the error a call with outcome Fail gets instead
	// of the generic internal server error (an API error class the code under test might be
	// tempted to branch on: no kind match, timeout, unavailable, ...).
	FailErr func(c CallInfo) error
	crashed bool

	// Hooks for monitors and schedulers. Called without the lock held.
	Before func(c CallInfo)
	After  func(c CallInfo)

	// Admission is consulted before a delete takes effect (C19); returning a
	// non-nil error denies the request.
	Admission func(verb string, o *unstructured.Unstructured) error

	// Reject, if set, is the API server's validation of an object about to be stored by a
	// create / update / patch: true = 422 Invalid (nothing is stored).
	Reject func(obj map[string]any) bool

	Namespaced map[schema.GroupKind]bool
	indexes    map[string]Indexer // key: GK|field

	// history per key for lagging readers: every stored version, oldest first.
	History     map[objKey][]map[string]any
	KeepHistory bool
	// Lag, if set, lets a Get return an older version: it returns how many versions back (0 = fresh).
	Lag func(k objKey, versions int) int
}

func NewStore(s *runtime.Scheme) *Store {
	return &Store{scheme: s, objs: map[objKey]*entry{}, Namespaced: map[schema.GroupKind]bool{}, indexes: map[string]Indexer{}, History: map[objKey][]map[string]any{}}
}

func (s *Store) AddIndex(gk schema.GroupKind, field string, fn Indexer) {
	s.indexes[gk.String()+"|"+field] = fn
}

// Crashed reports whether a crash outcome fired.
func (s *Store) Crashed() bool { return s.crashed }

// Revive models a process restart: later calls work again. The plan and call counter are reset.
func (s *Store) Revive() {
	s.crashed = false
	s.Calls = 0
	s.Plan = nil
}

func deepCopyMap(m map[string]any) map[string]any {
	if m == nil {
		return nil
	}
	return runtime.DeepCopyJSON(m)
}

func normalize(m map[string]any) map[string]any {
	// Round-trip through JSON so that all numbers are int64/float64 and typed
	// slices/maps are plain.
	b, err := json.Marshal(m)
	if err != nil {
		panic(err)
	}
	u := &unstructured.Unstructured{}
	if err := u.UnmarshalJSON(b); err != nil {
		// objects without kind (e.g. partial) – fall back
		var out map[string]any
		if err2 := json.Unmarshal(b, &out); err2 != nil {
			panic(err2)
		}
		return out
	}
	return u.Object
}

func (s *Store) toMap(obj runtime.Object) (map[string]any, schema.GroupVersionKind, error) {
	gvk, err := apiutil.GVKForObject(obj, s.scheme)
	if err != nil {
		return nil, gvk, err
	}
	var m map[string]any
	if u, ok := obj.(runtime.Unstructured); ok {
		m = deepCopyMap(u.UnstructuredContent())
	} else {
		m, err = runtime.DefaultUnstructuredConverter.ToUnstructured(obj)
		if err != nil {
			return nil, gvk, err
		}
	}
	// apiVersion/kind must be present BEFORE normalize: typed objects carry an empty
	// TypeMeta, and normalize falls back to plain encoding/json (float64 numbers)
	// for objects without kind, which made a later no-op write look like a change.
	if m == nil {
		m = map[string]any{}
	}
	m["apiVersion"] = gvk.GroupVersion().String()
	m["kind"] = gvk.Kind
	m = normalize(m)
	if md, ok := m["metadata"].(map[string]any); ok {
		if ct, ok := md["creationTimestamp"]; ok && ct == nil {
			delete(md, "creationTimestamp")
		}
	} else {
		m["metadata"] = map[string]any{}
	}
	return m, gvk, nil
}

func (s *Store) fromMap(m map[string]any, obj runtime.Object) error {
	m = deepCopyMap(m)
	if u, ok := obj.(runtime.Unstructured); ok {
		u.SetUnstructuredContent(m)
		return nil
	}
	v := reflect.ValueOf(obj)
	if v.Kind() == reflect.Ptr && !v.IsNil() {
		v.Elem().Set(reflect.Zero(v.Elem().Type()))
	}
	if err := runtime.DefaultUnstructuredConverter.FromUnstructured(m, obj); err != nil {
		return err
	}
	// The real typed client leaves TypeMeta empty.
	obj.GetObjectKind().SetGroupVersionKind(schema.GroupVersionKind{})
	return nil
}

func mdOf(m map[string]any) map[string]any {
	md, ok := m["metadata"].(map[string]any)
	if !ok {
		md = map[string]any{}
		m["metadata"] = md
	}
	return md
}

func strOf(m map[string]any, k string) string {
	v, _ := m[k].(string)
	return v
}

func gkString(gk schema.GroupKind) string { return gk.String() }

func (s *Store) begin(c *CallInfo) (Outcome, error) {
	s.mu.Lock()
	if s.crashed {
		s.mu.Unlock()
		c.Outcome = "dead" // the process is gone: this call never happened and is not logged
		return CrashBefore, ErrCrashed
	}
	c.Index = s.Calls
	s.Calls++
	plan := s.Plan
	s.mu.Unlock()
	if s.Before != nil {
		s.Before(*c)
	}
	o := OK
	if plan != nil {
		o = plan(*c)
	}
	c.Outcome = o.String()
	switch o {
	case Fail:
		if s.FailErr != nil {
			if e := s.FailErr(*c); e != nil {
				return o, e
			}
		}
		return o, kerrors.NewInternalError(fmt.Errorf("simstore: injected server error"))
	case Conflict:
		if c.IsWrite() {
			return o, kerrors.NewConflict(schema.GroupResource{Resource: c.GK}, c.Name, fmt.Errorf("simstore: injected conflict"))
		}
		return o, kerrors.NewInternalError(fmt.Errorf("simstore: injected server error"))
	case CrashBefore:
		s.crashed = true
		return o, ErrCrashed
	}
	return o, nil
}

func errClass(err error) string {
	switch {
	case err == nil:
		return ""
	case err == ErrCrashed:
		return "crashed"
	case kerrors.IsNotFound(err):
		return "notFound"
	case kerrors.IsAlreadyExists(err):
		return "alreadyExists"
	case kerrors.IsConflict(err):
		return "conflict"
	case kerrors.IsInvalid(err):
		return "invalid"
	case kerrors.IsForbidden(err):
		return "forbidden"
	}
	return "other"
}

func (s *Store) end(c *CallInfo, o Outcome, err error) error {
	if c.Outcome == "dead" {
		return err
	}
	if o == CrashAfter {
		s.crashed = true
		err = ErrCrashed
	}
	c.Err = errClass(err)
	s.mu.Lock()
	s.Log = append(s.Log, *c)
	s.mu.Unlock()
	if s.After != nil {
		s.After(*c)
	}
	return err
}

func (s *Store) nextRV() string {
	s.rv++
	return strconv.Itoa(s.rv)
}

func (s *Store) now() string {
	s.clock++
	return time.Unix(1700000000+int64(s.clock), 0).UTC().Format(time.RFC3339)
}

func controllerCount(m map[string]any) int {
	n := 0
	refs, _ := mdOf(m)["ownerReferences"].([]any)
	for _, r := range refs {
		rm, _ := r.(map[string]any)
		if b, _ := rm["controller"].(bool); b {
			n++
		}
	}
	return n
}

func (s *Store) validate(m map[string]any, gk schema.GroupKind) error {
	if controllerCount(m) > 1 {
		return kerrors.NewInvalid(gk, strOf(mdOf(m), "name"), nil)
	}
	if s.Reject != nil && s.Reject(m) {
		return kerrors.NewInvalid(gk, strOf(mdOf(m), "name"), nil)
	}
	return nil
}

func keyOf(m map[string]any, gk schema.GroupKind) objKey {
	md := mdOf(m)
	return objKey{GK: gk, NS: strOf(md, "namespace"), Name: strOf(md, "name")}
}

func (s *Store) put(k objKey, e *entry) {
	s.objs[k] = e
	if s.KeepHistory {
		s.History[k] = append(s.History[k], deepCopyMap(e.obj))
	}
}

// Seed stores an object verbatim (assigning uid/rv if missing) without counting as a call.
func (s *Store) Seed(obj runtime.Object) {
	m, gvk, err := s.toMap(obj)
	if err != nil {
		panic(err)
	}
	s.mu.Lock()
	defer s.mu.Unlock()
	md := mdOf(m)
	if strOf(md, "uid") == "" {
		s.uid++
		md["uid"] = fmt.Sprintf("uid-%d", s.uid)
	}
	md["resourceVersion"] = s.nextRV()
	if _, ok := md["creationTimestamp"]; !ok {
		md["creationTimestamp"] = s.now()
	}
	if _, ok := md["managedFields"]; !ok {
		// every object of a real cluster has managed fields; the default
		// (client-side) manager of Crossplane is "crossplane".
		touchManager(md, "crossplane", "Update", "")
	}
	s.put(keyOf(m, gvk.GroupKind()), &entry{obj: m, applied: map[string]map[string]any{}, appliedStatus: map[string]map[string]any{}})
}

// SeedSSA stores an object as if `manager` had server-side applied exactly its
// current content (spec/metadata labels, annotations, ownerReferences).
func (s *Store) SeedSSA(obj runtime.Object, manager string) {
	s.Seed(obj)
	m, gvk, _ := s.toMap(obj)
	s.mu.Lock()
	defer s.mu.Unlock()
	k := keyOf(m, gvk.GroupKind())
	e := s.objs[k]
	cfg := deepCopyMap(m)
	delete(cfg, "status")
	delete(cfg, "apiVersion")
	delete(cfg, "kind")
	cmd := mdOf(cfg)
	for _, f := range []string{"uid", "resourceVersion", "creationTimestamp", "generation", "managedFields", "deletionTimestamp", "finalizers"} {
		delete(cmd, f)
	}
	e.applied[manager] = cfg
	md := mdOf(e.obj)
	delete(md, "managedFields")
	touchManager(md, manager, "Apply", "")
}

// SeedApplied records that `manager` has server-side applied exactly `cfg` (a partial
// object: metadata/spec fields only) to an already seeded object, without touching the
// other managers' records.
func (s *Store) SeedApplied(gk schema.GroupKind, ns, name, manager string, cfg map[string]any) {
	s.mu.Lock()
	defer s.mu.Unlock()
	e, ok := s.objs[objKey{gk, ns, name}]
	if !ok {
		return
	}
	e.applied[manager] = deepCopyMap(cfg)
	touchManager(mdOf(e.obj), manager, "Apply", "")
}

// Remove deletes an object out of band (environment action).
func (s *Store) Remove(gk schema.GroupKind, ns, name string) {
	s.mu.Lock()
	defer s.mu.Unlock()
	delete(s.objs, objKey{gk, ns, name})
}

// Peek returns a copy of the stored object or nil.
func (s *Store) Peek(gk schema.GroupKind, ns, name string) *unstructured.Unstructured {
	s.mu.Lock()
	defer s.mu.Unlock()
	e, ok := s.objs[objKey{gk, ns, name}]
	if !ok {
		return nil
	}
	return &unstructured.Unstructured{Object: deepCopyMap(e.obj)}
}

// Mutate edits a stored object out of band (environment action), bumping rv when changed.
func (s *Store) Mutate(gk schema.GroupKind, ns, name string, fn func(u *unstructured.Unstructured)) bool {
	s.mu.Lock()
	defer s.mu.Unlock()
	k := objKey{gk, ns, name}
	e, ok := s.objs[k]
	if !ok {
		return false
	}
	u := &unstructured.Unstructured{Object: deepCopyMap(e.obj)}
	fn(u)
	if !reflect.DeepEqual(u.Object, e.obj) {
		mdOf(u.Object)["resourceVersion"] = s.nextRV()
		e.obj = u.Object
		s.put(k, e)
		s.finalizeIfDone(k)
	}
	return true
}

// All returns copies of all stored objects, sorted by key.
func (s *Store) All() []*unstructured.Unstructured {
	s.mu.Lock()
	defer s.mu.Unlock()
	keys := make([]objKey, 0, len(s.objs))
	for k := range s.objs {
		keys = append(keys, k)
	}
	sort.Slice(keys, func(i, j int) bool { return keys[i].String() < keys[j].String() })
	out := make([]*unstructured.Unstructured, 0, len(keys))
	for _, k := range keys {
		out = append(out, &unstructured.Unstructured{Object: deepCopyMap(s.objs[k].obj)})
	}
	return out
}

// OfKind returns copies of all stored objects of a group kind, sorted.
func (s *Store) OfKind(gk schema.GroupKind) []*unstructured.Unstructured {
	var out []*unstructured.Unstructured
	for _, u := range s.All() {
		if u.GroupVersionKind().GroupKind() == gk {
			out = append(out, u)
		}
	}
	return out
}

// Snapshot returns canonical JSON bytes of the whole store (for byte diffs).
func (s *Store) Snapshot() map[string]string {
	out := map[string]string{}
	for _, u := range s.All() {
		b, _ := json.Marshal(u.Object)
		out[keyOf(u.Object, u.GroupVersionKind().GroupKind()).String()] = string(b)
	}
	return out
}

// Clone copies the store contents (not the log, plan or hooks).
func (s *Store) Clone() *Store {
	s.mu.Lock()
	defer s.mu.Unlock()
	n := NewStore(s.scheme)
	n.rv, n.uid, n.clock = s.rv, s.uid, s.clock
	for k, e := range s.objs {
		ne := &entry{obj: deepCopyMap(e.obj), applied: map[string]map[string]any{}, appliedStatus: map[string]map[string]any{}}
		for m, a := range e.applied {
			ne.applied[m] = deepCopyMap(a)
		}
		for m, a := range e.appliedStatus {
			ne.appliedStatus[m] = deepCopyMap(a)
		}
		n.objs[k] = ne
	}
	for k, v := range s.Namespaced {
		n.Namespaced[k] = v
	}
	for k, v := range s.indexes {
		n.indexes[k] = v
	}
	n.KeepHistory = s.KeepHistory
	n.Admission = s.Admission
	n.Reject = s.Reject
	return n
}

// ---- client.Reader ----

func (s *Store) Get(ctx context.Context, key client.ObjectKey, obj client.Object, _ ...client.GetOption) error {
	gvk, err := apiutil.GVKForObject(obj, s.scheme)
	if err != nil {
		return err
	}
	c := CallInfo{Verb: "get", GK: gkString(gvk.GroupKind()), NS: key.Namespace, Name: key.Name}
	o, err := s.begin(&c)
	if err != nil {
		return s.end(&c, o, err)
	}
	s.mu.Lock()
	k := objKey{gvk.GroupKind(), key.Namespace, key.Name}
	e, ok := s.objs[k]
	var m map[string]any
	if ok {
		m = e.obj
		if s.Lag != nil && s.KeepHistory {
			h := s.History[k]
			if back := s.Lag(k, len(h)); back > 0 && back < len(h) {
				m = h[len(h)-1-back]
			}
		}
		m = deepCopyMap(m)
	}
	s.mu.Unlock()
	if !ok {
		return s.end(&c, o, kerrors.NewNotFound(schema.GroupResource{Group: gvk.Group, Resource: strings.ToLower(gvk.Kind)}, key.Name))
	}
	m["apiVersion"] = gvk.GroupVersion().String()
	if err := s.fromMap(m, obj); err != nil {
		return s.end(&c, o, err)
	}
	return s.end(&c, o, nil)
}

func (s *Store) List(ctx context.Context, list client.ObjectList, opts ...client.ListOption) error {
	gvk, err := apiutil.GVKForObject(list, s.scheme)
	if err != nil {
		return err
	}
	gvk.Kind = strings.TrimSuffix(gvk.Kind, "List")
	lo := &client.ListOptions{}
	lo.ApplyOptions(opts)
	c := CallInfo{Verb: "list", GK: gkString(gvk.GroupKind()), NS: lo.Namespace}
	o, err := s.begin(&c)
	if err != nil {
		return s.end(&c, o, err)
	}
	var items []map[string]any
	for _, u := range s.OfKind(gvk.GroupKind()) {
		if lo.Namespace != "" && u.GetNamespace() != lo.Namespace {
			continue
		}
		if lo.LabelSelector != nil && !lo.LabelSelector.Matches(labels.Set(u.GetLabels())) {
			continue
		}
		if lo.FieldSelector != nil && !lo.FieldSelector.Empty() {
			match := true
			for _, r := range lo.FieldSelector.Requirements() {
				idx, ok := s.indexes[gvk.GroupKind().String()+"|"+r.Field]
				if !ok {
					switch r.Field {
					case "metadata.name":
						match = match && u.GetName() == r.Value
					case "metadata.namespace":
						match = match && u.GetNamespace() == r.Value
					default:
						return s.end(&c, o, fmt.Errorf("simstore: no index for field %q on %s", r.Field, gvk.GroupKind()))
					}
					continue
				}
				found := false
				for _, v := range idx(u) {
					if v == r.Value {
						found = true
					}
				}
				match = match && found
			}
			if !match {
				continue
			}
		}
		u.Object["apiVersion"] = gvk.GroupVersion().String()
		items = append(items, u.Object)
	}
	if ul, ok := list.(*unstructured.UnstructuredList); ok {
		ul.Items = nil
		for _, m := range items {
			ul.Items = append(ul.Items, unstructured.Unstructured{Object: m})
		}
		return s.end(&c, o, nil)
	}
	if rl, ok := list.(interface {
		GetUnstructuredList() *unstructured.UnstructuredList
	}); ok {
		ul := rl.GetUnstructuredList()
		ul.Items = nil
		for _, m := range items {
			ul.Items = append(ul.Items, unstructured.Unstructured{Object: m})
		}
		return s.end(&c, o, nil)
	}
	objs := make([]runtime.Object, 0, len(items))
	for _, m := range items {
		ro, err := s.scheme.New(gvk)
		if err != nil {
			return s.end(&c, o, err)
		}
		if err := s.fromMap(m, ro); err != nil {
			return s.end(&c, o, err)
		}
		objs = append(objs, ro)
	}
	if err := meta.SetList(list, objs); err != nil {
		return s.end(&c, o, err)
	}
	return s.end(&c, o, nil)
}

// ---- client.Writer ----

func isDryRun(d []string) bool {
	for _, x := range d {
		if x == metav1.DryRunAll {
			return true
		}
	}
	return false
}

func (s *Store) Create(ctx context.Context, obj client.Object, opts ...client.CreateOption) error {
	co := &client.CreateOptions{}
	co.ApplyOptions(opts)
	m, gvk, err := s.toMap(obj)
	if err != nil {
		return err
	}
	md := mdOf(m)
	c := CallInfo{Verb: "create", GK: gkString(gvk.GroupKind()), NS: strOf(md, "namespace"), Name: strOf(md, "name"), DryRun: isDryRun(co.DryRun)}
	o, err := s.begin(&c)
	if err != nil {
		return s.end(&c, o, err)
	}
	s.mu.Lock()
	if strOf(md, "name") == "" {
		if g := strOf(md, "generateName"); g != "" {
			s.uid++
			md["name"] = fmt.Sprintf("%sgen%04d", g, s.uid)
			c.Name = strOf(md, "name")
		} else {
			s.mu.Unlock()
			return s.end(&c, o, kerrors.NewInvalid(gvk.GroupKind(), "", nil))
		}
	}
	k := keyOf(m, gvk.GroupKind())
	if _, exists := s.objs[k]; exists {
		s.mu.Unlock()
		return s.end(&c, o, kerrors.NewAlreadyExists(schema.GroupResource{Group: gvk.Group, Resource: strings.ToLower(gvk.Kind)}, k.Name))
	}
	if err := s.validate(m, gvk.GroupKind()); err != nil {
		s.mu.Unlock()
		return s.end(&c, o, err)
	}
	if strOf(md, "resourceVersion") != "" {
		s.mu.Unlock()
		return s.end(&c, o, kerrors.NewBadRequest("resourceVersion should not be set on objects to be created"))
	}
	delete(md, "deletionTimestamp")
	if c.DryRun {
		// A dry-run create is answered before anything reaches storage: the
		// reply carries a uid but NO resourceVersion (kube-apiserver
		// DryRunnableStorage.Create copies the input), so the same object can
		// be created for real afterwards (revision.APIEstablisher does that).
		md["uid"] = "dry-run"
		delete(md, "resourceVersion")
		s.mu.Unlock()
		_ = s.fromMap(m, obj)
		return s.end(&c, o, nil)
	}
	s.uid++
	md["uid"] = fmt.Sprintf("uid-%d", s.uid)
	md["resourceVersion"] = s.nextRV()
	md["creationTimestamp"] = s.now()
	md["generation"] = int64(1)
	delete(md, "managedFields")
	touchManager(md, "crossplane", "Update", "")
	s.put(k, &entry{obj: deepCopyMap(m), applied: map[string]map[string]any{}, appliedStatus: map[string]map[string]any{}})
	c.Applied, c.Changed = true, true
	s.mu.Unlock()
	if o != CrashAfter {
		_ = s.fromMap(m, obj)
	}
	return s.end(&c, o, nil)
}

func hasManager(md map[string]any, mgr, op, sub string) bool {
	mf, _ := md["managedFields"].([]any)
	for _, x := range mf {
		xm, _ := x.(map[string]any)
		if xm != nil && xm["manager"] == mgr && xm["operation"] == op && strOf(xm, "subresource") == sub {
			return true
		}
	}
	return false
}

// touchManager records a field manager entry in metadata.managedFields.
func touchManager(md map[string]any, mgr, op, sub string) {
	mf, _ := md["managedFields"].([]any)
	for _, x := range mf {
		xm, _ := x.(map[string]any)
		if xm != nil && xm["manager"] == mgr && xm["operation"] == op && strOf(xm, "subresource") == sub {
			return
		}
	}
	e := map[string]any{"manager": mgr, "operation": op}
	if sub != "" {
		e["subresource"] = sub
	}
	md["managedFields"] = append(mf, e)
}

// finalizeIfDone removes an object that is terminating and has no finalizers. Lock held.
func (s *Store) finalizeIfDone(k objKey) {
	e, ok := s.objs[k]
	if !ok {
		return
	}
	md := mdOf(e.obj)
	if _, deleting := md["deletionTimestamp"]; !deleting {
		return
	}
	if f, _ := md["finalizers"].([]any); len(f) == 0 {
		delete(s.objs, k)
	}
}

// commit replaces the stored object by `m` (already merged), handling rv bump and no-op detection. Lock held.
func (s *Store) commit(k objKey, e *entry, m map[string]any, c *CallInfo) {
	// immutable metadata
	md, old := mdOf(m), mdOf(e.obj)
	fixed := []string{"uid", "creationTimestamp", "deletionTimestamp", "generation"}
	if !c.editsManagedFields {
		fixed = append(fixed, "managedFields")
	}
	for _, f := range fixed {
		if v, ok := old[f]; ok {
			md[f] = v
		} else {
			delete(md, f)
		}
	}
	md["resourceVersion"] = old["resourceVersion"]
	c.Applied = true
	// a real API server records the applying manager even when no field value changes
	newManager := c.PatchType == "apply" && !c.DryRun && !hasManager(old, c.Manager, "Apply", c.Sub)
	if reflect.DeepEqual(normalize(m), e.obj) && !newManager {
		return
	}
	if c.DryRun {
		return
	}
	c.Changed = true
	if !c.editsManagedFields {
		mgr, op := c.Manager, "Update"
		if c.PatchType == "apply" {
			op = "Apply"
		} else if mgr == "" {
			mgr = "crossplane"
		}
		touchManager(md, mgr, op, c.Sub)
		if c.PatchType == "apply" && e.bfa {
			touchManager(md, "before-first-apply", "Update", "")
			e.bfa = false
		}
	}
	if !reflect.DeepEqual(m["spec"], e.obj["spec"]) {
		if g, ok := old["generation"].(int64); ok {
			md["generation"] = g + 1
		}
	}
	md["resourceVersion"] = s.nextRV()
	e.obj = normalize(m)
	s.put(k, e)
	s.finalizeIfDone(k)
}

func (s *Store) Update(ctx context.Context, obj client.Object, opts ...client.UpdateOption) error {
	uo := &client.UpdateOptions{}
	uo.ApplyOptions(opts)
	return s.update(obj, "", isDryRun(uo.DryRun))
}

func (s *Store) update(obj client.Object, sub string, dry bool) error {
	m, gvk, err := s.toMap(obj)
	if err != nil {
		return err
	}
	k := keyOf(m, gvk.GroupKind())
	c := CallInfo{Verb: "update", GK: gkString(gvk.GroupKind()), NS: k.NS, Name: k.Name, Sub: sub, DryRun: dry}
	o, err := s.begin(&c)
	if err != nil {
		return s.end(&c, o, err)
	}
	s.mu.Lock()
	e, ok := s.objs[k]
	if !ok {
		s.mu.Unlock()
		return s.end(&c, o, kerrors.NewNotFound(schema.GroupResource{Group: gvk.Group, Resource: strings.ToLower(gvk.Kind)}, k.Name))
	}
	if os.Getenv("SIMSTORE_DEBUG") != "" {
		a, _ := json.Marshal(m)
		b, _ := json.Marshal(e.obj)
		fmt.Fprintf(os.Stderr, "SIMSTORE update %s/%s sub=%q\n  new: %s\n  old: %s\n", c.GK, k.Name, sub, a, b)
	}
	if rv := strOf(mdOf(m), "resourceVersion"); rv != "" && rv != strOf(mdOf(e.obj), "resourceVersion") {
		s.mu.Unlock()
		return s.end(&c, o, kerrors.NewConflict(schema.GroupResource{Group: gvk.Group, Resource: strings.ToLower(gvk.Kind)}, k.Name, fmt.Errorf("object has been modified")))
	}
	var next map[string]any
	if sub == "status" {
		next = deepCopyMap(e.obj)
		if st, ok := m["status"]; ok {
			next["status"] = st
		} else {
			delete(next, "status")
		}
	} else {
		next = m
		if st, ok := e.obj["status"]; ok {
			next["status"] = st
		} else {
			delete(next, "status")
		}
	}
	if err := s.validate(next, gvk.GroupKind()); err != nil {
		s.mu.Unlock()
		return s.end(&c, o, err)
	}
	s.commit(k, e, next, &c)
	res := deepCopyMap(e.obj)
	if c.DryRun {
		res = next
	}
	s.mu.Unlock()
	if o != CrashAfter {
		_ = s.fromMap(res, obj)
	}
	return s.end(&c, o, nil)
}

func mergePatch(dst map[string]any, patch map[string]any) map[string]any {
	for k, v := range patch {
		if v == nil {
			delete(dst, k)
			continue
		}
		if pm, ok := v.(map[string]any); ok {
			dm, ok := dst[k].(map[string]any)
			if !ok {
				dm = map[string]any{}
			}
			dst[k] = mergePatch(dm, pm)
			continue
		}
		dst[k] = v
	}
	return dst
}

func (s *Store) Patch(ctx context.Context, obj client.Object, patch client.Patch, opts ...client.PatchOption) error {
	po := &client.PatchOptions{}
	po.ApplyOptions(opts)
	return s.patch(obj, patch, po, "")
}

func (s *Store) patch(obj client.Object, patch client.Patch, po *client.PatchOptions, sub string) error {
	gvk, err := apiutil.GVKForObject(obj, s.scheme)
	if err != nil {
		return err
	}
	data, err := patch.Data(obj)
	if err != nil {
		return err
	}
	k := objKey{gvk.GroupKind(), obj.GetNamespace(), obj.GetName()}
	force := po.Force != nil && *po.Force
	c := CallInfo{Verb: "patch", GK: gkString(gvk.GroupKind()), NS: k.NS, Name: k.Name, Sub: sub, DryRun: isDryRun(po.DryRun), Manager: po.FieldManager}
	switch patch.Type() {
	case types.MergePatchType, types.StrategicMergePatchType:
		c.PatchType = "merge"
	case types.JSONPatchType:
		c.PatchType = "json"
	case types.ApplyPatchType:
		c.PatchType = "apply"
	}
	o, err := s.begin(&c)
	if err != nil {
		return s.end(&c, o, err)
	}
	s.mu.Lock()
	e, ok := s.objs[k]
	notFound := kerrors.NewNotFound(schema.GroupResource{Group: gvk.Group, Resource: strings.ToLower(gvk.Kind)}, k.Name)
	conflict := kerrors.NewConflict(schema.GroupResource{Group: gvk.Group, Resource: strings.ToLower(gvk.Kind)}, k.Name, fmt.Errorf("object has been modified"))
	var next map[string]any
	clearsManagers := false
	switch c.PatchType {
	case "merge":
		if !ok {
			s.mu.Unlock()
			return s.end(&c, o, notFound)
		}
		var pm map[string]any
		if err := json.Unmarshal(data, &pm); err != nil {
			s.mu.Unlock()
			return s.end(&c, o, kerrors.NewBadRequest(err.Error()))
		}
		pm = normalizeLoose(pm)
		if pmd, ok := pm["metadata"].(map[string]any); ok {
			if rv, ok := pmd["resourceVersion"].(string); ok && rv != "" && rv != strOf(mdOf(e.obj), "resourceVersion") {
				s.mu.Unlock()
				return s.end(&c, o, conflict)
			}
		}
		next = mergePatch(deepCopyMap(e.obj), pm)
	case "json":
		if !ok {
			s.mu.Unlock()
			return s.end(&c, o, notFound)
		}
		jp, err := jsonpatch.DecodePatch(data)
		if err != nil {
			s.mu.Unlock()
			return s.end(&c, o, kerrors.NewBadRequest(err.Error()))
		}
		cur, _ := json.Marshal(e.obj)
		res, err := jp.Apply(cur)
		if err != nil {
			s.mu.Unlock()
			return s.end(&c, o, kerrors.NewInvalid(gvk.GroupKind(), k.Name, nil))
		}
		next = map[string]any{}
		_ = json.Unmarshal(res, &next)
		next = normalize(next)
		if strings.Contains(string(data), "/metadata/managedFields") {
			c.editsManagedFields = true
			nmd := mdOf(next)
			if mf, _ := nmd["managedFields"].([]any); len(mf) == 1 {
				if em, _ := mf[0].(map[string]any); em != nil && len(em) == 0 {
					// all managers cleared (the entry is reset only once the patch is accepted: below, right
					// before commit — a request rejected with Conflict/Invalid has no effect)
					delete(nmd, "managedFields")
					clearsManagers = true
				}
			}
		}
		if nmd := mdOf(next); true {
			if rv := strOf(nmd, "resourceVersion"); rv != "" && rv != strOf(mdOf(e.obj), "resourceVersion") {
				s.mu.Unlock()
				return s.end(&c, o, conflict)
			}
		}
	case "apply":
		var cfg map[string]any
		if err := json.Unmarshal(data, &cfg); err != nil {
			s.mu.Unlock()
			return s.end(&c, o, kerrors.NewBadRequest(err.Error()))
		}
		cfg = normalizeLoose(cfg)
		cmd := mdOf(cfg)
		if _, has := cmd["managedFields"]; has && cmd["managedFields"] != nil {
			s.mu.Unlock()
			return s.end(&c, o, kerrors.NewBadRequest("metadata.managedFields must be nil"))
		}
		delete(cmd, "managedFields")
		delete(cmd, "creationTimestamp")
		cfgRV := strOf(cmd, "resourceVersion")
		delete(cmd, "resourceVersion")
		cfgUID := strOf(cmd, "uid")
		delete(cmd, "uid")
		delete(cmd, "generation")
		if po.FieldManager == "" {
			s.mu.Unlock()
			return s.end(&c, o, kerrors.NewBadRequest("fieldManager is required for apply patch"))
		}
		if !ok {
			if sub != "" {
				s.mu.Unlock()
				return s.end(&c, o, notFound)
			}
			if cfgUID != "" {
				// applying with a uid precondition to a missing object
				s.mu.Unlock()
				return s.end(&c, o, conflict)
			}
			// create
			m := deepCopyMap(cfg)
			delete(m, "status")
			m["apiVersion"] = gvk.GroupVersion().String()
			m["kind"] = gvk.Kind
			if strOf(mdOf(m), "name") == "" {
				s.mu.Unlock()
				return s.end(&c, o, kerrors.NewBadRequest("name is required"))
			}
			if err := s.validate(m, gvk.GroupKind()); err != nil {
				s.mu.Unlock()
				return s.end(&c, o, err)
			}
			md := mdOf(m)
			if c.DryRun {
				s.mu.Unlock()
				_ = s.fromMap(m, obj)
				return s.end(&c, o, nil)
			}
			s.uid++
			md["uid"] = fmt.Sprintf("uid-%d", s.uid)
			md["resourceVersion"] = s.nextRV()
			md["creationTimestamp"] = s.now()
			md["generation"] = int64(1)
			touchManager(md, po.FieldManager, "Apply", "")
			acfg := deepCopyMap(cfg)
			delete(acfg, "status")
			delete(acfg, "apiVersion")
			delete(acfg, "kind")
			ne := &entry{obj: normalize(m), applied: map[string]map[string]any{po.FieldManager: acfg}, appliedStatus: map[string]map[string]any{}}
			s.put(k, ne)
			c.Applied, c.Changed = true, true
			res := deepCopyMap(ne.obj)
			s.mu.Unlock()
			if o != CrashAfter {
				_ = s.fromMap(res, obj)
			}
			return s.end(&c, o, nil)
		}
		if cfgRV != "" && cfgRV != strOf(mdOf(e.obj), "resourceVersion") {
			s.mu.Unlock()
			return s.end(&c, o, conflict)
		}
		if cfgUID != "" && cfgUID != strOf(mdOf(e.obj), "uid") {
			s.mu.Unlock()
			return s.end(&c, o, conflict)
		}
		applied := e.applied
		if sub == "status" {
			applied = e.appliedStatus
			// only status (and identifying fields) are considered
			cfg = map[string]any{"status": cfg["status"]}
			if cfg["status"] == nil {
				delete(cfg, "status")
			}
		} else {
			delete(cfg, "status")
		}
		delete(cfg, "apiVersion")
		delete(cfg, "kind")
		prev := applied[po.FieldManager]
		others := []map[string]any{}
		for mgr, a := range applied {
			if mgr != po.FieldManager {
				others = append(others, a)
			}
		}
		next = deepCopyMap(e.obj)
		if !force {
			if p := ssaConflict(next, cfg, others, ""); p != "" {
				s.mu.Unlock()
				return s.end(&c, o, kerrors.NewConflict(schema.GroupResource{Group: gvk.Group, Resource: strings.ToLower(gvk.Kind)}, k.Name, fmt.Errorf("apply conflict at %s", p)))
			}
		}
		ssaRemove(next, prev, cfg, others, "")
		ssaMerge(next, cfg, "")
		if err := s.validate(next, gvk.GroupKind()); err != nil {
			s.mu.Unlock()
			return s.end(&c, o, err)
		}
		if !c.DryRun {
			applied[po.FieldManager] = deepCopyMap(cfg)
		}
	default:
		s.mu.Unlock()
		return s.end(&c, o, fmt.Errorf("simstore: unsupported patch type %s", patch.Type()))
	}
	// subresource scoping for merge/json patches
	if c.PatchType != "apply" {
		if sub == "status" {
			st, has := next["status"]
			next = deepCopyMap(e.obj)
			if has {
				next["status"] = st
			} else {
				delete(next, "status")
			}
		} else {
			if st, has := e.obj["status"]; has {
				next["status"] = st
			} else {
				delete(next, "status")
			}
		}
		if err := s.validate(next, gvk.GroupKind()); err != nil {
			s.mu.Unlock()
			return s.end(&c, o, err)
		}
	}
	if clearsManagers && !c.DryRun {
		e.applied = map[string]map[string]any{}
		e.appliedStatus = map[string]map[string]any{}
		e.bfa = true
	}
	s.commit(k, e, next, &c)
	res := deepCopyMap(e.obj)
	if c.DryRun {
		res = next
	}
	s.mu.Unlock()
	if o != CrashAfter {
		_ = s.fromMap(res, obj)
	}
	return s.end(&c, o, nil)
}

func normalizeLoose(m map[string]any) map[string]any {
	b, _ := json.Marshal(m)
	var out map[string]any
	d := json.NewDecoder(strings.NewReader(string(b)))
	d.UseNumber()
	_ = d.Decode(&out)
	return convertNumbers(out).(map[string]any)
}

func convertNumbers(v any) any {
	switch t := v.(type) {
	case map[string]any:
		for k, x := range t {
			t[k] = convertNumbers(x)
		}
		return t
	case []any:
		for i, x := range t {
			t[i] = convertNumbers(x)
		}
		return t
	case json.Number:
		if i, err := t.Int64(); err == nil {
			return i
		}
		f, _ := t.Float64()
		return f
	}
	return v
}

// ---- SSA approximation ----
// Maps merge recursively. Lists are atomic except metadata.ownerReferences
// (merge by uid), metadata.finalizers (set) and status.conditions (merge by type).

func listKeyFor(path string) string {
	switch path {
	case ".metadata.ownerReferences":
		return "uid"
	case ".status.conditions":
		return "type"
	}
	return ""
}

func ssaMerge(dst map[string]any, cfg map[string]any, path string) {
	for k, v := range cfg {
		p := path + "." + k
		switch tv := v.(type) {
		case map[string]any:
			dm, ok := dst[k].(map[string]any)
			if !ok {
				dm = map[string]any{}
				dst[k] = dm
			}
			ssaMerge(dm, tv, p)
		case []any:
			if lk := listKeyFor(p); lk != "" {
				cur, _ := dst[k].([]any)
				for _, it := range tv {
					im, _ := it.(map[string]any)
					found := false
					for i, c := range cur {
						cm, _ := c.(map[string]any)
						if cm != nil && im != nil && reflect.DeepEqual(cm[lk], im[lk]) {
							cur[i] = deepCopyMap(im)
							found = true
						}
					}
					if !found {
						cur = append(cur, runtime.DeepCopyJSONValue(it))
					}
				}
				dst[k] = cur
			} else if p == ".metadata.finalizers" {
				cur, _ := dst[k].([]any)
				for _, it := range tv {
					found := false
					for _, c := range cur {
						if reflect.DeepEqual(c, it) {
							found = true
						}
					}
					if !found {
						cur = append(cur, it)
					}
				}
				dst[k] = cur
			} else {
				dst[k] = runtime.DeepCopyJSONValue(v)
			}
		default:
			dst[k] = v
		}
	}
}

func hasPath(cfgs []map[string]any, keys []string) bool {
	for _, c := range cfgs {
		var cur any = c
		ok := true
		for _, k := range keys {
			m, isMap := cur.(map[string]any)
			if !isMap {
				ok = false
				break
			}
			cur, ok = m[k]
			if !ok {
				break
			}
		}
		if ok {
			return true
		}
	}
	return false
}

// ssaRemove deletes from dst every leaf that the manager applied before (prev),
// omits now (cfg) and that no other manager applies.
func ssaRemove(dst map[string]any, prev, cfg map[string]any, others []map[string]any, path string) {
	ssaRemoveAt(dst, prev, cfg, others, path, nil)
}

func ssaRemoveAt(dst map[string]any, prev, cfg map[string]any, others []map[string]any, path string, keys []string) {
	for k, pv := range prev {
		p := path + "." + k
		ks := append(append([]string{}, keys...), k)
		cv, inCfg := cfg[k]
		pm, pIsMap := pv.(map[string]any)
		if pIsMap {
			cm, _ := cv.(map[string]any)
			if cm == nil {
				cm = map[string]any{}
			}
			if dm, ok := dst[k].(map[string]any); ok {
				ssaRemoveAt(dm, pm, cm, others, p, ks)
				if len(dm) == 0 && !inCfg && !hasPath(others, ks) {
					delete(dst, k)
				}
			}
			continue
		}
		if pl, isList := pv.([]any); isList && (listKeyFor(p) != "" || p == ".metadata.finalizers") {
			// associative list / set: remove the elements this manager dropped
			cl, _ := cv.([]any)
			cur, _ := dst[k].([]any)
			lk := listKeyFor(p)
			var kept []any
			for _, c := range cur {
				dropped := false
				for _, pi := range pl {
					if sameElem(pi, c, lk) && !containsElem(cl, c, lk) && !othersHaveElem(others, ks, c, lk) {
						dropped = true
					}
				}
				if !dropped {
					kept = append(kept, c)
				}
			}
			if len(kept) == 0 {
				delete(dst, k)
			} else {
				dst[k] = kept
			}
			continue
		}
		if !inCfg && !hasPath(others, ks) {
			delete(dst, k)
		}
	}
}

func sameElem(a, b any, lk string) bool {
	if lk == "" {
		return reflect.DeepEqual(a, b)
	}
	am, _ := a.(map[string]any)
	bm, _ := b.(map[string]any)
	return am != nil && bm != nil && reflect.DeepEqual(am[lk], bm[lk])
}

func containsElem(l []any, e any, lk string) bool {
	for _, x := range l {
		if sameElem(x, e, lk) {
			return true
		}
	}
	return false
}

func othersHaveElem(others []map[string]any, keys []string, e any, lk string) bool {
	for _, c := range others {
		var cur any = c
		ok := true
		for _, k := range keys {
			m, isMap := cur.(map[string]any)
			if !isMap {
				ok = false
				break
			}
			cur, ok = m[k]
			if !ok {
				break
			}
		}
		if l, isList := cur.([]any); ok && isList && containsElem(l, e, lk) {
			return true
		}
	}
	return false
}

// ssaConflict returns the first path at which cfg sets a leaf to a different
// value than one another manager applied ("" if none).
func ssaConflict(cur map[string]any, cfg map[string]any, others []map[string]any, path string) string {
	return ssaConflictAt(cur, cfg, others, path, nil)
}

func ssaConflictAt(cur map[string]any, cfg map[string]any, others []map[string]any, path string, keys []string) string {
	for k, v := range cfg {
		p := path + "." + k
		ks := append(append([]string{}, keys...), k)
		if vm, ok := v.(map[string]any); ok {
			cm, _ := cur[k].(map[string]any)
			if cm == nil {
				cm = map[string]any{}
			}
			if r := ssaConflictAt(cm, vm, others, p, ks); r != "" {
				return r
			}
			continue
		}
		if listKeyFor(p) != "" || p == ".metadata.finalizers" {
			continue
		}
		if hasPath(others, ks) && !reflect.DeepEqual(cur[k], v) {
			return p
		}
	}
	return ""
}

func (s *Store) Delete(ctx context.Context, obj client.Object, opts ...client.DeleteOption) error {
	do := &client.DeleteOptions{}
	do.ApplyOptions(opts)
	gvk, err := apiutil.GVKForObject(obj, s.scheme)
	if err != nil {
		return err
	}
	k := objKey{gvk.GroupKind(), obj.GetNamespace(), obj.GetName()}
	c := CallInfo{Verb: "delete", GK: gkString(gvk.GroupKind()), NS: k.NS, Name: k.Name, DryRun: isDryRun(do.DryRun)}
	if do.PropagationPolicy != nil {
		c.Propagation = string(*do.PropagationPolicy)
	}
	o, err := s.begin(&c)
	if err != nil {
		return s.end(&c, o, err)
	}
	err = s.deleteLocked(k, gvk, do, &c)
	return s.end(&c, o, err)
}

func (s *Store) deleteLocked(k objKey, gvk schema.GroupVersionKind, do *client.DeleteOptions, c *CallInfo) error {
	s.mu.Lock()
	e, ok := s.objs[k]
	if !ok {
		s.mu.Unlock()
		return kerrors.NewNotFound(schema.GroupResource{Group: gvk.Group, Resource: strings.ToLower(gvk.Kind)}, k.Name)
	}
	md := mdOf(e.obj)
	if do.Preconditions != nil {
		if do.Preconditions.UID != nil && string(*do.Preconditions.UID) != strOf(md, "uid") {
			s.mu.Unlock()
			return kerrors.NewConflict(schema.GroupResource{Group: gvk.Group, Resource: strings.ToLower(gvk.Kind)}, k.Name, fmt.Errorf("uid precondition"))
		}
		if do.Preconditions.ResourceVersion != nil && *do.Preconditions.ResourceVersion != strOf(md, "resourceVersion") {
			s.mu.Unlock()
			return kerrors.NewConflict(schema.GroupResource{Group: gvk.Group, Resource: strings.ToLower(gvk.Kind)}, k.Name, fmt.Errorf("rv precondition"))
		}
	}
	adm := s.Admission
	cur := &unstructured.Unstructured{Object: deepCopyMap(e.obj)}
	s.mu.Unlock()
	if adm != nil {
		if err := adm("delete", cur); err != nil {
			return err
		}
	}
	s.mu.Lock()
	defer s.mu.Unlock()
	e, ok = s.objs[k]
	if !ok {
		return kerrors.NewNotFound(schema.GroupResource{Group: gvk.Group, Resource: strings.ToLower(gvk.Kind)}, k.Name)
	}
	md = mdOf(e.obj)
	c.Applied = true
	if c.DryRun {
		return nil
	}
	fins, _ := md["finalizers"].([]any)
	addedFG := false
	if do.PropagationPolicy != nil && *do.PropagationPolicy == metav1.DeletePropagationForeground {
		has := false
		for _, f := range fins {
			if f == "foregroundDeletion" {
				has = true
			}
		}
		if !has {
			fins = append(fins, "foregroundDeletion")
			md["finalizers"] = fins
			addedFG = true
		}
	}
	if len(fins) > 0 {
		// A delete that changes the stored object (sets the deletionTimestamp or adds
		// the foregroundDeletion finalizer to an already terminating object) is a write:
		// it gets a new resourceVersion, as in the real API server.
		if _, already := md["deletionTimestamp"]; !already || addedFG {
			if !already {
				md["deletionTimestamp"] = s.now()
			}
			md["resourceVersion"] = s.nextRV()
			c.Changed = true
			s.put(k, e)
		}
		return nil
	}
	delete(s.objs, k)
	c.Changed = true
	return nil
}

func (s *Store) DeleteAllOf(ctx context.Context, obj client.Object, opts ...client.DeleteAllOfOption) error {
	dao := &client.DeleteAllOfOptions{}
	dao.ApplyOptions(opts)
	gvk, err := apiutil.GVKForObject(obj, s.scheme)
	if err != nil {
		return err
	}
	c := CallInfo{Verb: "deleteAllOf", GK: gkString(gvk.GroupKind()), NS: dao.Namespace}
	o, err := s.begin(&c)
	if err != nil {
		return s.end(&c, o, err)
	}
	for _, u := range s.OfKind(gvk.GroupKind()) {
		if dao.Namespace != "" && u.GetNamespace() != dao.Namespace {
			continue
		}
		if dao.LabelSelector != nil && !dao.LabelSelector.Matches(labels.Set(u.GetLabels())) {
			continue
		}
		k := objKey{gvk.GroupKind(), u.GetNamespace(), u.GetName()}
		sub := CallInfo{}
		_ = s.deleteLocked(k, gvk, &dao.DeleteOptions, &sub)
		if sub.Changed {
			c.Changed = true
		}
	}
	c.Applied = true
	return s.end(&c, o, nil)
}

// GCStep performs one round of Kubernetes garbage collection: objects all of
// whose owners are gone are deleted (respecting finalizers); an owner in
// foreground deletion loses its foregroundDeletion finalizer once no dependent
// with blockOwnerDeletion remains. Returns true if anything changed.
func (s *Store) GCStep() bool {
	s.mu.Lock()
	defer s.mu.Unlock()
	uids := map[string]objKey{}
	for k, e := range s.objs {
		uids[strOf(mdOf(e.obj), "uid")] = k
	}
	changed := false
	blocked := map[string]bool{}
	for k, e := range s.objs {
		refs, _ := mdOf(e.obj)["ownerReferences"].([]any)
		if len(refs) == 0 {
			continue
		}
		alive := 0
		for _, r := range refs {
			rm, _ := r.(map[string]any)
			uid := strOf(rm, "uid")
			if _, ok := uids[uid]; ok {
				alive++
				if b, _ := rm["blockOwnerDeletion"].(bool); b {
					blocked[uid] = true
				}
			}
		}
		if alive == 0 {
			md := mdOf(e.obj)
			if f, _ := md["finalizers"].([]any); len(f) > 0 {
				if _, d := md["deletionTimestamp"]; !d {
					md["deletionTimestamp"] = s.now()
					md["resourceVersion"] = s.nextRV()
					changed = true
				}
			} else {
				delete(s.objs, k)
				changed = true
			}
		}
	}
	for k, e := range s.objs {
		md := mdOf(e.obj)
		if _, d := md["deletionTimestamp"]; !d {
			continue
		}
		fins, _ := md["finalizers"].([]any)
		var kept []any
		for _, f := range fins {
			if f == "foregroundDeletion" && !blocked[strOf(md, "uid")] {
				changed = true
				continue
			}
			kept = append(kept, f)
		}
		if len(kept) != len(fins) {
			if len(kept) == 0 {
				delete(md, "finalizers")
			} else {
				md["finalizers"] = kept
			}
			md["resourceVersion"] = s.nextRV()
			s.finalizeIfDone(k)
		}
	}
	return changed
}

// ---- status & misc ----

type subWriter struct {
	s   *Store
	sub string
}

func (w subWriter) Create(ctx context.Context, obj client.Object, subResource client.Object, opts ...client.SubResourceCreateOption) error {
	return fmt.Errorf("simstore: subresource create unsupported")
}

func (w subWriter) Update(ctx context.Context, obj client.Object, opts ...client.SubResourceUpdateOption) error {
	uo := &client.SubResourceUpdateOptions{}
	uo.ApplyOptions(opts)
	return w.s.update(obj, w.sub, isDryRun(uo.DryRun))
}

func (w subWriter) Patch(ctx context.Context, obj client.Object, patch client.Patch, opts ...client.SubResourcePatchOption) error {
	po := &client.SubResourcePatchOptions{}
	po.ApplyOptions(opts)
	return w.s.patch(obj, patch, &po.PatchOptions, w.sub)
}

func (w subWriter) Get(ctx context.Context, obj client.Object, subResource client.Object, opts ...client.SubResourceGetOption) error {
	return fmt.Errorf("simstore: subresource get unsupported")
}

func (s *Store) Status() client.SubResourceWriter { return subWriter{s, "status"} }

func (s *Store) SubResource(sub string) client.SubResourceClient { return subWriter{s, sub} }

func (s *Store) Scheme() *runtime.Scheme { return s.scheme }

func (s *Store) RESTMapper() meta.RESTMapper { return nil }

func (s *Store) GroupVersionKindFor(obj runtime.Object) (schema.GroupVersionKind, error) {
	return apiutil.GVKForObject(obj, s.scheme)
}

func (s *Store) IsObjectNamespaced(obj runtime.Object) (bool, error) {
	gvk, err := apiutil.GVKForObject(obj, s.scheme)
	if err != nil {
		return false, err
	}
	return s.Namespaced[gvk.GroupKind()], nil
}

var _ client.Client = &Store{}

// WritesTo returns the applied, non-dry-run, changing writes addressed to a key.
func (s *Store) WritesTo(gk, ns, name string) []CallInfo {
	var out []CallInfo
	for _, c := range s.Log {
		if c.IsWrite() && !c.DryRun && c.GK == gk && c.NS == ns && c.Name == name {
			out = append(out, c)
		}
	}
	return out
}

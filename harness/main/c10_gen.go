//go:build verif

package main

// Generators for C10. Everything is drawn from the run's Rng.

import (
	"encoding/json"
	"fmt"
	"sort"
	"strconv"
	"strings"
)

func c10P[T any](v T) *T { return &v }

var c10Keys = []string{"a", "b", "c", "list", "m", "n", "x.y", "s", "i", "f", "t", "k-1"}

var c10Strings = []string{
	"", "abc", "true", "false", "1", "0", "-5", "+7", "007", "t", "T", "TRUE", "yes",
	"9223372036854775807", "9223372036854775808", "-9223372036854775808", "-9223372036854775809",
	"foo-bar", "Hello World", "aGVsbG8=", "not base64!", "1.5", "1e3", "Inf", "NaN", "10Gi", "500m",
	"{\"a\":1}", "[1,\"x\"]", "{bad", "prefix-middle-suffix", "eu-west-1", "ÄÖü", "a_b", "12_3", " 5",
	"us-east-1a", "x",
	// numbers as authors write them: leading zeros, signs, base prefixes, digit separators,
	// exponents, surrounding whitespace
	"010", "0644", "0x1F", "0X1f", "0b101", "0o17", "1_000", "-0x10", "+0", "-0", "00", " 42", "42 ", "42\n", "1e3", "1E-2", ".5", "5.", "0x1p-2",
	"1_000.5", "+Inf", "infinity", "nan", "True", "F", "0.0", "-010", "9_223_372_036_854_775_807",
}

// numbers as composition authors and users write them
var c10NumStrings = []string{
	"0", "7", "-5", "+7", "007", "010", "0644", "-010", "00", "+0", "-0", "0x1F", "0X1f", "-0x10", "0b101", "0o17", "1_000", "12_3",
	"9_223_372_036_854_775_807", "9223372036854775807", "9223372036854775808", "-9223372036854775808", " 42", "42 ", "42\n", "\t42",
	"1e3", "1E-2", "1.5", ".5", "5.", "-2.50", "0.0", "0x1p-2", "1_000.5", "Inf", "+Inf", "-inf", "infinity", "NaN", "nan",
	"true", "false", "True", "TRUE", "t", "F", "1", "yes", "",
}

var c10Ints = []int64{0, 1, -1, 2, 3, 7, 10, 42, -42, 1000, 1 << 31, 1 << 53, (1 << 53) + 1, 9223372036854775807, -9223372036854775808, 4611686018427387904, -4611686018427387905, 3037000500}

var c10Floats = []float64{0, 1, -1, 1.5, -2.5, 2, 0.1, 1e20, 1e21, 1e-7, 3.9, -3.9, 9.3e18, -9.3e18, 123456.789}

func c10GenScalar(r *Rng) any {
	switch r.Intn(10) {
	case 0:
		return nil
	case 1:
		return r.Bool()
	case 2, 3:
		return Pick(r, c10Ints)
	case 4:
		return Pick(r, c10Floats)
	case 5:
		return int64(r.Range(-20, 20))
	default:
		return Pick(r, c10Strings)
	}
}

func c10GenVal(r *Rng, depth int) any {
	if depth <= 0 {
		return c10GenScalar(r)
	}
	switch r.Intn(10) {
	case 0, 1:
		n := r.Intn(4)
		l := make([]any, n)
		elemObj := r.Bool()
		for i := range l {
			if elemObj {
				l[i] = c10GenObj(r, depth-1)
			} else {
				l[i] = c10GenScalar(r)
			}
		}
		return l
	case 2, 3, 4:
		return c10GenObj(r, depth-1)
	default:
		return c10GenScalar(r)
	}
}

func c10GenObj(r *Rng, depth int) map[string]any {
	m := map[string]any{}
	for i, n := 0, r.Intn(5); i < n; i++ {
		m[Pick(r, c10Keys)] = c10GenVal(r, depth)
	}
	return m
}

func c10GenMeta(r *Rng, name string) map[string]any {
	md := map[string]any{}
	if name != "" {
		md["name"] = name
	}
	if r.Chance(2, 3) {
		l := map[string]any{"crossplane.io/composite": "xr"}
		if r.Bool() {
			l["app.kubernetes.io/name"] = Pick(r, c10Strings)
		}
		md["labels"] = l
	}
	if r.Chance(1, 2) {
		md["annotations"] = map[string]any{"crossplane.io/external-name": Pick(r, []string{"ext", "foo-bar", "x"})}
	}
	return md
}

// c10AddCollections adds an array of objects and a map of objects (wildcard targets).
func c10AddCollections(r *Rng, spec map[string]any) {
	if r.Chance(1, 2) {
		items := []any{}
		for i, n := 0, r.Intn(4); i < n; i++ {
			it := map[string]any{"name": Pick(r, c10Strings)}
			if r.Chance(3, 4) {
				it["v"] = c10GenScalar(r)
			}
			if r.Chance(1, 2) {
				tags := []any{}
				for j, k := 0, r.Intn(3); j < k; j++ {
					tags = append(tags, Pick(r, c10Strings))
				}
				it["tags"] = tags
			}
			if r.Chance(1, 3) {
				it["sub"] = c10GenObj(r, 1)
			}
			items = append(items, it)
		}
		if r.Chance(1, 10) {
			items = append(items, Pick(r, []any{nil, "scalar", int64(3)}))
		}
		spec["items"] = items
	}
	if r.Chance(1, 3) {
		by := map[string]any{}
		for i, n := 0, r.Intn(3); i < n; i++ {
			by[Pick(r, []string{"k1", "k2", "x.y", "k-1"})] = map[string]any{"v": c10GenScalar(r), "l": []any{int64(1), "x"}}
		}
		spec["byKey"] = by
	}
}

var c10WildPaths = []string{
	"spec.items[*].v", "spec.items[*].new", "spec.items[*].tags[*]", "spec.items[*].tags[0]", "spec.byKey[*].v",
	"spec.nolist[*].x", "spec.items[*]", "metadata.labels[*]", "spec.items[*].name.x", "spec[*]", "spec.items[*].sub.a",
	"spec.byKey[*].l[*]", "spec.items[1].tags[*]", "spec.items[*].zz.deep", "spec.byKey[*]", "[*]", "spec.items[*][*]",
	"spec.items[*].sub[*]", "spec.byKey[*].l[5]",
}

func c10GenXRContent(r *Rng) map[string]any {
	m := map[string]any{
		"apiVersion": "example.org/v1",
		"kind":       "XThing",
		"metadata":   c10GenMeta(r, "xr"),
		"spec":       c10GenObj(r, 3),
	}
	c10AddCollections(r, m["spec"].(map[string]any))
	if r.Chance(2, 3) {
		m["status"] = c10GenObj(r, 2)
	}
	return m
}

func c10GenCDContent(r *Rng) map[string]any {
	m := map[string]any{
		"apiVersion": "example.org/v1",
		"metadata":   c10GenMeta(r, Pick(r, []string{"", "cd-1"})),
		"spec":       c10GenObj(r, 3),
	}
	if !r.Chance(1, 25) {
		m["kind"] = "Thing"
	}
	if r.Chance(1, 3) {
		m["status"] = c10GenObj(r, 2)
	}
	c10AddCollections(r, m["spec"].(map[string]any))
	return m
}

type c10Walk struct {
	segs []string // each already a key or an index ("#3")
	val  any
}

func c10Paths(v any, prefix []string, out *[]c10Walk) {
	*out = append(*out, c10Walk{segs: append([]string{}, prefix...), val: v})
	switch x := v.(type) {
	case map[string]any:
		keys := make([]string, 0, len(x))
		for k := range x {
			keys = append(keys, k)
		}
		sort.Strings(keys)
		for _, k := range keys {
			c10Paths(x[k], append(prefix, k), out)
		}
	case []any:
		for i := range x {
			c10Paths(x[i], append(prefix, "#"+strconv.Itoa(i)), out)
		}
	}
}

// c10Render prints a list of keys/indices as a field path using the syntax variants of the parser.
func c10RenderPath(r *Rng, segs []string, wildAt int) string {
	var b strings.Builder
	for i, s := range segs {
		switch {
		case i == wildAt:
			b.WriteString("[*]")
		case strings.HasPrefix(s, "#"):
			b.WriteString("[" + s[1:] + "]")
		case strings.Contains(s, "."):
			b.WriteString("[" + s + "]")
		default:
			switch r.Intn(8) {
			case 0:
				b.WriteString("[" + s + "]")
			case 1:
				b.WriteString("['" + s + "']")
			case 2:
				b.WriteString("[\"" + s + "\"]")
			default:
				if i > 0 {
					b.WriteString(".")
				}
				b.WriteString(s)
			}
		}
	}
	return b.String()
}

var c10BadPaths = []string{"spec..a", ".spec", "spec.", "spec[", "spec]", "spec[]", "spec.[0]", "spec[a[b]]", ""}

// c10GenPath picks a path into (or near) obj. want: "any", "missing", "wild".
func c10GenPath(r *Rng, obj map[string]any, allowWild bool) string {
	var all []c10Walk
	c10Paths(obj, nil, &all)
	all = all[1:] // drop the root
	switch x := r.Intn(20); {
	case x == 0:
		return Pick(r, c10BadPaths)
	case x <= 3 || len(all) == 0:
		// a path that probably does not exist
		base := []string{Pick(r, []string{"spec", "status", "metadata"})}
		for i, n := 0, r.Range(1, 3); i < n; i++ {
			if r.Chance(1, 5) {
				base = append(base, "#"+strconv.Itoa(r.Intn(4)))
			} else {
				base = append(base, Pick(r, c10Keys))
			}
		}
		return c10RenderPath(r, base, -1)
	case x <= 5 && len(all) > 0:
		// an existing path extended by one more step (into a scalar, a null, beyond an array...)
		w := Pick(r, all)
		segs := append(append([]string{}, w.segs...), Pick(r, []string{"a", "#0", "#5", "zz", "#1100"}))
		return c10RenderPath(r, segs, -1)
	}
	w := Pick(r, all)
	wildAt := -1
	if allowWild && r.Chance(1, 3) {
		// replace one array index (or a map key) by a wildcard
		cands := []int{}
		for i, s := range w.segs {
			if strings.HasPrefix(s, "#") || (i > 0 && r.Chance(1, 4)) {
				cands = append(cands, i)
			}
		}
		if len(cands) > 0 {
			wildAt = Pick(r, cands)
		}
	}
	return c10RenderPath(r, w.segs, wildAt)
}

func c10ValueAt(obj map[string]any, raw string) (any, bool) {
	v, err := c10Lookup(obj, raw)
	return v, err == nil
}

var c10RawSrcs = []string{`"str"`, `5`, `1.5`, `true`, `null`, `{"a":1}`, `[1,"x"]`, `"abc"`, `"42"`, `0`, `-7`, `1e3`, `{bad`, `"unterminated`}

func c10GenRaw(r *Rng) c10Raw {
	switch r.Intn(12) {
	case 0:
		return c10Raw{K: "nil"}
	case 1:
		return c10Raw{K: "empty"}
	}
	return c10Raw{K: "val", Src: Pick(r, c10RawSrcs)}
}

var c10Regexps = []string{"^a.*", "[0-9]+", "(", "^(\\w+)-(\\w+)$", ".*", "^([a-z]+)-([a-z]+)-([0-9]+)", "(?P<x>b+)c?", "^$", "[", "e|E", "(a)|(b)", "(\\d+)(Gi|m)?"}

var c10Fmts = []string{"%s", "%d", "pre-%s", "%v-x", "%5.2f", "%!", "%s %s", "plain", "%t", "%q", "%x", "%s-%d", "%[2]s", "%", "%08d", "%v"}

var c10StrConverts = []string{"ToUpper", "ToLower", "ToJson", "ToBase64", "FromBase64", "ToSha1", "ToSha256", "ToSha512", "ToAdler32", "Bogus", ""}

// c10BigInts: int64 values at and beyond the precision of float64 (2^53): above it neighbouring
// integers share one float64, so a comparison carried out in float64 loses exactly the ties.
var c10BigInts = []int64{
	1 << 53, (1 << 53) - 1, (1 << 53) + 1, (1 << 53) + 2, (1 << 53) - 2, -(1 << 53), -(1 << 53) - 1, -(1 << 53) + 1, -(1 << 53) - 2,
	1 << 62, (1 << 62) + 1, (1 << 62) - 1, (1 << 62) + 2, (1 << 62) + 511, (1 << 62) - 255, -(1 << 62), -(1 << 62) - 1, -(1 << 62) + 2,
	9223372036854775807, 9223372036854775806, 9223372036854775805, 9223372036854775295,
	-9223372036854775808, -9223372036854775807, -9223372036854775806, -9223372036854775296,
	(1 << 60) + 1, -(1 << 60) - 1, 1 << 54, (1 << 54) + 2, (1 << 54) + 1,
}

// c10GenBigMath: an int64 input and a math transform whose parameter lies within a few units of
// it (+-1, +-2, the same value, a value that rounds to the same float64), or a multiplier that
// takes the product to the int64 boundary.
func c10GenBigMath(r *Rng) (int64, c10Xf) {
	in := Pick(r, c10BigInts)
	near := func() int64 {
		d := Pick(r, []int64{0, 1, -1, 2, -2, 3, -3, 100, -100, 511, -511})
		b := in + d
		if (d > 0 && b < in) || (d < 0 && b > in) { // int64 overflow: stay on the boundary
			b = in
		}
		if r.Chance(1, 5) {
			b = Pick(r, c10BigInts)
		}
		return b
	}
	m := &c10Math{Type: Pick(r, []string{"ClampMin", "ClampMax", "ClampMin", "ClampMax", "Multiply", ""})}
	switch m.Type {
	case "ClampMin":
		m.ClampMin = c10P(near())
	case "ClampMax":
		m.ClampMax = c10P(near())
	default:
		m.Multiply = c10P(Pick(r, []int64{1, -1, 2, -2, 3, 1 << 10, 1 << 11, (1 << 53) + 1, 9223372036854775807, -9223372036854775808}))
	}
	return in, c10Xf{Type: "math", Math: m}
}

func c10GenMath(r *Rng) *c10Math {
	m := &c10Math{Type: Pick(r, []string{"", "Multiply", "Multiply", "ClampMin", "ClampMax", "Bogus"})}
	val := func() *int64 {
		if r.Chance(1, 8) {
			return nil
		}
		return c10P(Pick(r, []int64{0, 1, -1, 2, 3, 10, -7, 1000, 1 << 40, 9223372036854775807, -9223372036854775808}))
	}
	t := m.Type
	if t == "" {
		t = "Multiply"
	}
	if t == "Multiply" || r.Chance(1, 6) {
		m.Multiply = val()
	}
	if t == "ClampMin" || r.Chance(1, 6) {
		m.ClampMin = val()
	}
	if t == "ClampMax" || r.Chance(1, 6) {
		m.ClampMax = val()
	}
	return m
}

func c10GenMap(r *Rng, hint any) *c10Map {
	m := &c10Map{Pairs: []c10MapPair{}}
	seen := map[string]bool{}
	add := func(k string) {
		if !seen[k] {
			seen[k] = true
			m.Pairs = append(m.Pairs, c10MapPair{K: k, V: c10GenRaw(r)})
		}
	}
	if s, ok := hint.(string); ok && r.Chance(2, 3) {
		add(s)
	}
	for i, n := 0, r.Intn(3); i < n; i++ {
		add(Pick(r, c10Strings))
	}
	return m
}

func c10GenMatch(r *Rng, hint any) *c10Match {
	m := &c10Match{Patterns: []c10Pattern{}, FallbackTo: Pick(r, []string{"", "Value", "Input", "Input", "Bogus"}), FallbackValue: c10Raw{K: "nil"}}
	if m.FallbackTo != "Input" || r.Chance(1, 4) {
		m.FallbackValue = c10GenRaw(r)
	}
	for i, n := 0, r.Intn(4); i < n; i++ {
		p := c10Pattern{Type: Pick(r, []string{"literal", "literal", "regexp", "regexp", "", "bogus"}), Result: c10GenRaw(r)}
		if p.Type == "literal" || r.Chance(1, 8) {
			if !r.Chance(1, 10) {
				if s, ok := hint.(string); ok && r.Chance(1, 2) {
					switch r.Intn(4) {
					case 0:
						s = strings.ToUpper(s)
					case 1:
						s = strings.ToLower(s)
					}
					p.Literal = c10P(s)
				} else {
					p.Literal = c10P(Pick(r, c10Strings))
				}
			}
		}
		if p.Type == "regexp" || r.Chance(1, 8) {
			if !r.Chance(1, 10) {
				p.Regexp = c10P(Pick(r, c10Regexps))
			}
		}
		m.Patterns = append(m.Patterns, p)
	}
	return m
}

func c10GenString(r *Rng) *c10String {
	s := &c10String{Type: Pick(r, []string{"Format", "Format", "Convert", "Convert", "TrimPrefix", "TrimSuffix", "Regexp", "Regexp", "Regexp", "Join", "", "Bogus"})}
	has := func(t string) bool { return (s.Type == t && !r.Chance(1, 10)) || r.Chance(1, 15) }
	if has("Format") {
		s.Fmt = c10P(Pick(r, c10Fmts))
	}
	if has("Convert") {
		s.Convert = c10P(Pick(r, c10StrConverts))
	}
	if has("TrimPrefix") || has("TrimSuffix") {
		s.Trim = c10P(Pick(r, []string{"", "a", "abc", "foo-", "-bar", "prefix-", "-suffix", "Hello", "1", "-", "World", "eu-", "x", "ÄÖ"}))
	}
	if has("Regexp") {
		rg := &c10Regexp{Match: Pick(r, c10Regexps)}
		switch r.Intn(10) {
		case 0, 1, 2:
		case 3, 4:
			rg.Group = c10P(int64(0))
		case 5:
			rg.Group = c10P(int64(1))
		case 6:
			rg.Group = c10P(int64(2))
		case 7:
			rg.Group = c10P(Pick(r, []int64{3, 5, 100, 1 << 40}))
		default:
			// negative indices: the unchanged tree panics on them (defect D1,
			// corpus/C10/d1-negative-group.jsonl, fixes/D1.diff)
			rg.Group = c10P(Pick(r, []int64{-1, -1, -2, -100, -9223372036854775808}))
		}
		s.Regexp = rg
	}
	if has("Join") {
		s.Join = c10P(Pick(r, []string{"", ",", "-", ", ", "/"}))
	}
	return s
}

func c10GenConvert(r *Rng) *c10Convert {
	c := &c10Convert{ToType: Pick(r, []string{"string", "bool", "int", "int64", "float64", "object", "array", "string", "int64", "bool", "bogus", ""})}
	switch r.Intn(8) {
	case 0:
		c.Format = c10P("none")
	case 1:
		c.Format = c10P("quantity")
	case 2:
		c.Format = c10P("json")
	case 3:
		if r.Chance(1, 3) {
			c.Format = c10P("bogus")
		}
	}
	if (c.ToType == "object" || c.ToType == "array") && r.Chance(3, 4) {
		c.Format = c10P("json")
	}
	return c
}

// c10GenXf draws one transform; hint is the value it will probably be applied to.
func c10GenXf(r *Rng, hint any) c10Xf {
	t := c10Xf{}
	types := []string{"math", "map", "match", "string", "string", "convert", "convert"}
	if r.Chance(2, 3) {
		// pick a type that suits the input
		switch hint.(type) {
		case int64, float64:
			types = []string{"math", "math", "convert", "string"}
		case string:
			types = []string{"map", "match", "string", "string", "convert"}
		case bool:
			types = []string{"convert", "string"}
		case []any:
			types = []string{"string"}
		}
	}
	t.Type = Pick(r, types)
	if r.Chance(1, 40) {
		t.Type = Pick(r, []string{"", "bogus"})
	}
	cfg := func(name string) bool { return (t.Type == name && !r.Chance(1, 15)) || r.Chance(1, 25) }
	if cfg("math") {
		t.Math = c10GenMath(r)
	}
	if cfg("map") {
		t.Map = c10GenMap(r, hint)
	}
	if cfg("match") {
		t.Match = c10GenMatch(r, hint)
	}
	if cfg("string") {
		t.String = c10GenString(r)
		if _, isArr := hint.([]any); isArr && r.Chance(2, 3) {
			t.String.Type = "Join"
			t.String.Join = c10P(Pick(r, []string{",", "-", ""}))
		}
	}
	if cfg("convert") {
		t.Convert = c10GenConvert(r)
	}
	return t
}

// c10GenChain draws a transform chain, following the values through the real
// code only to choose plausible next steps (the hint), never to decide results.
func c10GenChain(r *Rng, input any, maxLen int) []c10Xf {
	n := 0
	switch x := r.Intn(10); {
	case x < 3:
		n = 0
	case x < 7:
		n = 1
	case x < 9:
		n = 2
	default:
		n = 3
	}
	if n > maxLen {
		n = maxLen
	}
	xfs := make([]c10Xf, 0, n)
	cur := input
	for i := 0; i < n; i++ {
		t := c10GenXf(r, cur)
		xfs = append(xfs, t)
		// guess the output type for the next hint
		switch t.Type {
		case "string":
			cur = "abc"
		case "math":
			if _, ok := cur.(float64); !ok {
				cur = int64(1)
			}
		case "convert":
			if t.Convert != nil {
				switch t.Convert.ToType {
				case "string":
					cur = "1"
				case "int", "int64":
					cur = int64(1)
				case "float64":
					cur = 1.5
				case "bool":
					cur = true
				}
			}
		default:
			cur = Pick(r, []any{"abc", int64(1), nil})
		}
	}
	return xfs
}

func c10GenPolicy(r *Rng) *c10Policy {
	switch r.Intn(10) {
	case 0, 1, 2:
		return nil
	}
	p := &c10Policy{}
	switch r.Intn(8) {
	case 0, 1:
	case 2, 3:
		p.From = c10P("Optional")
	case 4, 5, 6:
		p.From = c10P("Required")
	default:
		p.From = c10P("Bogus")
	}
	if r.Chance(1, 3) {
		mo := &c10MO{}
		if r.Bool() {
			mo.Keep = c10P(r.Bool())
		}
		if r.Bool() {
			mo.Append = c10P(r.Bool())
		}
		p.MO = mo
	}
	return p
}

// c10GenSanePatch draws a patch that a composition author could have written: valid type,
// an existing (or plausible) source, a destination under spec/status/metadata, a transform
// chain that suits the source value. Policies and merge options still vary freely.
func c10GenSanePatch(r *Rng, xr, cd map[string]any) (*c10Patch, []string) {
	p := &c10Patch{Type: Pick(r, []string{"", "FromCompositeFieldPath", "FromCompositeFieldPath", "ToCompositeFieldPath", "ToCompositeFieldPath", "CombineFromComposite", "CombineToComposite"})}
	src, dst := xr, cd
	if p.Type == "ToCompositeFieldPath" || p.Type == "CombineToComposite" {
		src, dst = cd, xr
	}
	p.Policy = c10GenPolicy(r)
	existing := func(obj map[string]any, wild bool) string {
		var all []c10Walk
		c10Paths(obj, nil, &all)
		if len(all) <= 1 {
			return "spec"
		}
		w := Pick(r, all[1:])
		wildAt := -1
		if wild && r.Chance(1, 3) {
			for i, s := range w.segs {
				if strings.HasPrefix(s, "#") && r.Bool() {
					wildAt = i
				}
			}
		}
		return c10RenderPath(r, w.segs, wildAt)
	}
	fresh := func() string {
		base := Pick(r, []string{"spec", "spec.forProvider", "status", "metadata.annotations", "metadata.labels", "spec.list[2]", "spec.m"})
		return base + Pick(r, []string{".new", ".a", "[k.dotted]", ".deep.er", ".arr[1]", ".arr[0].x"})
	}
	var hint any
	if p.Type == "CombineFromComposite" || p.Type == "CombineToComposite" {
		c := &c10Combine{Strategy: "string", Vars: []c10Path{}}
		n := r.Range(1, 3)
		for i := 0; i < n; i++ {
			if r.Chance(1, 10) {
				c.Vars = append(c.Vars, c10Path{Raw: "spec.missing"})
			} else {
				c.Vars = append(c.Vars, c10Path{Raw: existing(src, false)})
			}
		}
		c.Fmt = c10P(Pick(r, []string{"%s", "%s-%s", "%v-%v-%v", "%v/%v", "%d-%s", "x-%v"}))
		p.Combine = c
		p.To = &c10Path{Raw: fresh()}
		if r.Chance(1, 6) {
			// a combine patch does not expand wildcards: "[*]" is an ordinary field name there
			p.To = &c10Path{Raw: Pick(r, c10WildPaths)}
		}
		hint = "abc"
	} else {
		if r.Chance(1, 8) {
			p.From = &c10Path{Raw: "spec.missing." + Pick(r, c10Keys)}
		} else {
			p.From = &c10Path{Raw: existing(src, false)}
		}
		if v, ok := c10ValueAt(src, p.From.Raw); ok {
			hint = v
		}
		switch r.Intn(6) {
		case 0:
		case 1:
			p.To = &c10Path{Raw: existing(dst, true)}
		case 2, 3:
			p.To = &c10Path{Raw: Pick(r, c10WildPaths)}
		default:
			p.To = &c10Path{Raw: fresh()}
		}
	}
	p.Xfs = c10GenSaneChain(r, hint)
	return p, nil
}

// c10GenSaneChain draws 0-3 well-configured transforms that fit the value they get.
func c10GenSaneChain(r *Rng, input any) []c10Xf {
	n := Pick(r, []int{0, 0, 1, 1, 1, 2, 2, 3})
	cur := input
	var xfs []c10Xf
	for i := 0; i < n; i++ {
		var t c10Xf
		switch v := cur.(type) {
		case int64:
			switch r.Intn(4) {
			case 0, 1:
				m := &c10Math{Type: Pick(r, []string{"", "Multiply", "ClampMin", "ClampMax"})}
				x := c10P(Pick(r, []int64{0, 1, -1, 2, 3, 10, -7, 1000, 1 << 40}))
				switch m.Type {
				case "ClampMin":
					m.ClampMin = x
				case "ClampMax":
					m.ClampMax = x
				default:
					m.Multiply = x
				}
				t = c10Xf{Type: "math", Math: m}
			case 2:
				to := Pick(r, []string{"string", "bool", "float64", "int"})
				t = c10Xf{Type: "convert", Convert: &c10Convert{ToType: to}}
				cur = map[string]any{"string": "1", "bool": true, "float64": 1.5, "int": int64(1)}[to]
			default:
				t = c10Xf{Type: "string", String: &c10String{Type: "Format", Fmt: c10P(Pick(r, []string{"%d", "n-%d", "%v", "%05d", "%s"}))}}
				cur = "abc"
			}
		case float64:
			switch r.Intn(3) {
			case 0:
				t = c10Xf{Type: "math", Math: &c10Math{Type: "Multiply", Multiply: c10P(Pick(r, []int64{2, -1, 10}))}}
			case 1:
				t = c10Xf{Type: "math", Math: &c10Math{Type: "ClampMax", ClampMax: c10P(Pick(r, []int64{0, 2, 100}))}}
			default:
				to := Pick(r, []string{"string", "int64", "bool"})
				t = c10Xf{Type: "convert", Convert: &c10Convert{ToType: to}}
				cur = map[string]any{"string": "1", "bool": true, "int64": int64(1)}[to]
			}
		case bool:
			to := Pick(r, []string{"string", "int64", "float64"})
			t = c10Xf{Type: "convert", Convert: &c10Convert{ToType: to}}
			cur = map[string]any{"string": "true", "float64": 1.5, "int64": int64(1)}[to]
		case []any:
			t = c10Xf{Type: "string", String: &c10String{Type: "Join", Join: c10P(Pick(r, []string{",", "-", ""}))}}
			cur = "abc"
		case string:
			switch r.Intn(8) {
			case 0:
				mp := &c10Map{Pairs: []c10MapPair{{K: v, V: c10Raw{K: "val", Src: Pick(r, c10RawSrcs[:12])}}, {K: "other", V: c10Raw{K: "val", Src: `"o"`}}}}
				t = c10Xf{Type: "map", Map: mp}
				cur = "abc"
			case 1:
				m := &c10Match{FallbackTo: Pick(r, []string{"Value", "Input", ""}), FallbackValue: c10Raw{K: "nil"}}
				if m.FallbackTo != "Input" {
					m.FallbackValue = c10Raw{K: "val", Src: `"fallback"`}
				}
				m.Patterns = []c10Pattern{
					{Type: "literal", Literal: c10P(Pick(r, []string{v, v, "zzz", strings.ToUpper(v), strings.ToLower(v), v + " "})), Result: c10Raw{K: "val", Src: Pick(r, c10RawSrcs[:12])}},
					{Type: "regexp", Regexp: c10P(Pick(r, []string{"^a.*", "[0-9]+", ".*", "^$"})), Result: c10Raw{K: "val", Src: `"re"`}},
				}
				t = c10Xf{Type: "match", Match: m}
				cur = "abc"
			case 2:
				to := Pick(r, []string{"int64", "bool", "float64", "int"})
				c := &c10Convert{ToType: to}
				if to == "float64" && r.Bool() {
					c.Format = c10P("quantity")
				}
				t = c10Xf{Type: "convert", Convert: c}
				cur = map[string]any{"int": int64(1), "bool": true, "float64": 1.5, "int64": int64(1)}[to]
			case 3:
				t = c10Xf{Type: "string", String: &c10String{Type: Pick(r, []string{"TrimPrefix", "TrimSuffix"}), Trim: c10P(Pick(r, []string{"", "a", "abc", "foo-", "-bar", "prefix-", "-suffix", "Hello", "eu-", "x", "1"}))}}
			case 4:
				rg := &c10Regexp{Match: Pick(r, []string{"^(\\w+)-(\\w+)", "[0-9]+", ".*", "^([a-z]+)-([a-z]+)-([0-9]+)", "(a)|(b)"})}
				if r.Bool() {
					rg.Group = c10P(int64(r.Intn(4)))
				}
				t = c10Xf{Type: "string", String: &c10String{Type: "Regexp", Regexp: rg}}
			case 5:
				t = c10Xf{Type: "string", String: &c10String{Type: "Convert", Convert: c10P(Pick(r, c10StrConverts[:9]))}}
			default:
				t = c10Xf{Type: "string", String: &c10String{Type: "Format", Fmt: c10P(Pick(r, []string{"%s", "pre-%s", "%v-x", "%q", "%10s|"}))}}
			}
		default:
			t = c10Xf{Type: "string", String: &c10String{Type: "Convert", Convert: c10P(Pick(r, []string{"ToJson", "ToSha256", "ToUpper"}))}}
			cur = "abc"
		}
		xfs = append(xfs, t)
	}
	return xfs
}

func c10GenPatchFor(r *Rng, xr, cd map[string]any) (*c10Patch, []string) {
	if r.Chance(1, 2) {
		return c10GenSanePatch(r, xr, cd)
	}
	p := &c10Patch{}
	p.Type = Pick(r, []string{"", "FromCompositeFieldPath", "FromCompositeFieldPath", "ToCompositeFieldPath", "ToCompositeFieldPath", "CombineFromComposite", "CombineToComposite", "PatchSet", "Bogus"})
	if p.Type == "PatchSet" || p.Type == "Bogus" {
		if !r.Chance(1, 3) {
			p.Type = Pick(r, []string{"FromCompositeFieldPath", "ToCompositeFieldPath", "CombineFromComposite"})
		}
	}
	src, dst := xr, cd
	if p.Type == "ToCompositeFieldPath" || p.Type == "CombineToComposite" {
		src, dst = cd, xr
	}
	p.Policy = c10GenPolicy(r)
	var hint any
	switch p.Type {
	case "CombineFromComposite", "CombineToComposite":
		if !r.Chance(1, 15) {
			c := &c10Combine{Strategy: Pick(r, []string{"string", "string", "string", "string", "bogus", ""}), Vars: []c10Path{}}
			for i, n := 0, r.Intn(4); i < n; i++ {
				c.Vars = append(c.Vars, c10Path{Raw: c10GenPath(r, src, false)})
			}
			if !r.Chance(1, 10) {
				c.Fmt = c10P(Pick(r, []string{"%s", "%s-%s", "%s-%d", "%v/%v/%v", "x", "%d-%d", "%s-%s-%s", "%"}))
			}
			p.Combine = c
		}
		if !r.Chance(1, 12) {
			p.To = &c10Path{Raw: c10GenPath(r, dst, false)}
		}
		hint = "abc"
	default:
		if !r.Chance(1, 15) {
			p.From = &c10Path{Raw: c10GenPath(r, src, false)}
			if v, ok := c10ValueAt(src, p.From.Raw); ok {
				hint = v
			}
		}
		if r.Chance(2, 3) {
			p.To = &c10Path{Raw: c10GenPath(r, dst, true)}
		}
	}
	p.Xfs = c10GenChain(r, hint, 3)
	var only []string
	switch r.Intn(6) {
	case 0:
		only = []string{"FromCompositeFieldPath", "CombineFromComposite"}
	case 1:
		only = []string{"ToCompositeFieldPath", "CombineToComposite"}
	}
	return p, only
}

func c10GenPatchScn(r *Rng) *c10Scn {
	xr := c10GenXRContent(r)
	cd := c10GenCDContent(r)
	p, only := c10GenPatchFor(r, xr, cd)
	return &c10Scn{Kind: "patch", XR: c10Enc(xr), CD: c10Enc(cd), Patch: p, Only: only}
}

func c10GenResolveScn(r *Rng) *c10Scn {
	in := c10GenVal(r, 1)
	if r.Chance(1, 6) {
		// conversion round trips
		var a, b string
		switch r.Intn(3) {
		case 0:
			in, a, b = Pick(r, c10Ints), "string", Pick(r, []string{"int64", "int"})
		case 1:
			in, a, b = r.Bool(), "string", "bool"
		default:
			in, a, b = r.Bool(), Pick(r, []string{"int64", "int"}), "bool"
		}
		return &c10Scn{Kind: "resolve", Input: c10Enc(in), Xfs: []c10Xf{
			{Type: "convert", Convert: &c10Convert{ToType: a}}, {Type: "convert", Convert: &c10Convert{ToType: b}}}}
	}
	if r.Chance(1, 12) {
		// int64 inputs and clamp bounds / multipliers at and beyond 2^53
		bi, t := c10GenBigMath(r)
		xfs := []c10Xf{t}
		if r.Chance(1, 4) {
			_, t2 := c10GenBigMath(r)
			xfs = append(xfs, t2)
		}
		if r.Chance(1, 5) {
			xfs = append(xfs, c10Xf{Type: "convert", Convert: &c10Convert{ToType: "string"}})
		}
		return &c10Scn{Kind: "resolve", Input: c10Enc(bi), Xfs: xfs}
	}
	if r.Chance(1, 8) {
		// numbers as text (and numbers, booleans) through the default conversions
		in = Pick(r, c10NumStrings)
		if r.Chance(1, 4) {
			in = Pick(r, []any{Pick(r, c10Ints), Pick(r, c10Floats), r.Bool()})
		}
		c := &c10Convert{ToType: Pick(r, []string{"int64", "int64", "int", "float64", "bool", "string"})}
		if r.Chance(1, 4) {
			c.Format = c10P("none")
		}
		xfs := []c10Xf{{Type: "convert", Convert: c}}
		if r.Chance(1, 4) {
			xfs = append(xfs, c10Xf{Type: "convert", Convert: &c10Convert{ToType: "string"}})
		}
		return &c10Scn{Kind: "resolve", Input: c10Enc(in), Xfs: xfs}
	}
	xfs := c10GenChain(r, in, 3)
	if len(xfs) == 0 {
		xfs = []c10Xf{c10GenXf(r, in)}
	}
	s := &c10Scn{Kind: "resolve", Input: c10Enc(in), Xfs: xfs}
	if r.Chance(1, 3) {
		s.Warm = c10GenWarm(r, in, xfs)
	}
	return s
}

// c10GenWarm draws 1-2 calls related to (in, xfs) that run before it: the same input through
// other transforms of the same types (another pattern, group, pair value, literal, multiplier ...),
// or the same transforms on another input.
func c10GenWarm(r *Rng, in any, xfs []c10Xf) []c10WarmCall {
	var out []c10WarmCall
	for k, n := 0, r.Range(1, 2); k < n; k++ {
		if r.Bool() {
			other := c10GenVal(r, 1)
			if _, isStr := in.(string); isStr && r.Chance(2, 3) {
				other = Pick(r, c10Strings)
			}
			out = append(out, c10WarmCall{Input: c10Enc(other), Xfs: c10CloneXfs(xfs)})
			continue
		}
		var w []c10Xf
		for _, t := range xfs {
			if r.Chance(3, 4) {
				w = append(w, c10MutateXf(r, t))
				continue
			}
			v := c10GenXf(r, in)
			for try := 0; try < 6 && v.Type != t.Type; try++ {
				v = c10GenXf(r, in)
			}
			w = append(w, v)
		}
		out = append(out, c10WarmCall{Input: c10Enc(in), Xfs: w})
	}
	return out
}

// c10MutateXf: the same transform with ONE parameter changed (another expression or group,
// another trim string / conversion / format, other values under the same map keys, other results
// for the same patterns, another multiplier or bound, another target type).
func c10MutateXf(r *Rng, t c10Xf) c10Xf {
	v := c10CloneXfs([]c10Xf{t})[0]
	switch {
	case v.Type == "string" && v.String != nil:
		s := v.String
		switch {
		case s.Regexp != nil:
			if r.Bool() {
				s.Regexp.Match = Pick(r, c10Regexps)
			} else {
				s.Regexp.Group = c10P(int64(r.Intn(3)))
			}
		case s.Trim != nil:
			s.Trim = c10P(Pick(r, []string{"", "a", "abc", "foo-", "-bar", "prefix-", "-suffix", "Hello", "eu-", "x", "1"}))
		case s.Convert != nil:
			s.Convert = c10P(Pick(r, c10StrConverts[:9]))
		case s.Fmt != nil:
			s.Fmt = c10P(Pick(r, c10Fmts))
		case s.Join != nil:
			s.Join = c10P(Pick(r, []string{"", ",", "-", ", ", "/"}))
		}
	case v.Type == "map" && v.Map != nil:
		for i := range v.Map.Pairs {
			v.Map.Pairs[i].V = c10GenRaw(r)
		}
	case v.Type == "match" && v.Match != nil:
		for i := range v.Match.Patterns {
			if r.Bool() {
				v.Match.Patterns[i].Result = c10GenRaw(r)
			} else if v.Match.Patterns[i].Literal != nil {
				v.Match.Patterns[i].Literal = c10P(Pick(r, c10Strings))
			} else if v.Match.Patterns[i].Regexp != nil {
				v.Match.Patterns[i].Regexp = c10P(Pick(r, c10Regexps))
			}
		}
		if r.Chance(1, 3) {
			v.Match.FallbackValue = c10GenRaw(r)
		}
	case v.Type == "math" && v.Math != nil:
		x := c10P(Pick(r, []int64{0, 1, -1, 2, 3, 10, -7, 1000}))
		switch {
		case v.Math.Multiply != nil:
			v.Math.Multiply = x
		case v.Math.ClampMin != nil:
			v.Math.ClampMin = x
		case v.Math.ClampMax != nil:
			v.Math.ClampMax = x
		}
	case v.Type == "convert" && v.Convert != nil:
		v.Convert.ToType = Pick(r, []string{"string", "bool", "int", "int64", "float64"})
	}
	return v
}

func c10CloneXfs(xfs []c10Xf) []c10Xf {
	var out []c10Xf
	if err := json.Unmarshal([]byte(mustJSON(xfs)), &out); err != nil {
		panic(err)
	}
	return out
}

// c10Gen draws one scenario.
func c10Gen(r *Rng, tier string) *c10Scn {
	switch x := r.Intn(100); {
	case x < 46:
		return c10GenPatchScn(r)
	case x < 74:
		return c10GenResolveScn(r)
	case x < 82:
		return c10GenRenderScn(r)
	case x < 91:
		return c10GenComposeScn(r)
	default:
		return c10GenSeqScn(r)
	}
}

var _ = fmt.Sprintf

//go:build verif

package main

// C17, the world of the lock reconciler (internal/controller/pkg/resolver): the Reconciler is
// built ONCE per process (Setup) over the manager's client. That client reads through the
// informer cache (Get of the Lock, List of the installed packages) and writes to the API server
// (Update / Status().Update of the Lock, Create / Update of a package); the tag list comes from
// the registry, the pull secret from the image config store. This file realises
//
//   - the long-lived reconciler: one Reconciler, one client, one fetcher per scenario, driven
//     through a SEQUENCE of Reconciles (steps) on a world that keeps evolving;
//   - the cached reader: Get / List are served from a cache that is synchronised with the API
//     server only when the scenario says so (an older Lock, a just-created package missing, a
//     deleted package still served, an older spec.package);
//   - third parties (a revision's Resolve / RemoveSelf, the package manager, a user, the
//     registry) that act right before the reconciler's k-th call of a step;
//   - error classes injected into the k-th call: NotFound, AlreadyExists, Conflict, Invalid,
//     Forbidden, Timeout, InternalError, a Temporary() transport error, a context deadline;
//   - identity dimensions: dependency identifiers that are prefixes of one another, the same
//     repository path in another registry, identifiers without registry (default registry),
//     identifiers that do not parse, package names that collide after ToDNSLabel, the package
//     kind (Provider / Configuration / Function / none) a dependency declares.
//
// The model of the same world is lean/Xp/Model/C17Rec.lean (RWorld / execRec / applyWAct /
// reconcileP); both sides interpret the `steps` of the scenario.

import (
	"context"
	"errors"
	"fmt"
	"net"
	"sort"
	"strings"

	"github.com/Masterminds/semver"
	"github.com/google/go-containerregistry/pkg/name"
	conregv1 "github.com/google/go-containerregistry/pkg/v1"
	kerrors "k8s.io/apimachinery/pkg/api/errors"
	metav1 "k8s.io/apimachinery/pkg/apis/meta/v1"
	"k8s.io/apimachinery/pkg/apis/meta/v1/unstructured"
	"k8s.io/apimachinery/pkg/runtime"
	"k8s.io/apimachinery/pkg/runtime/schema"
	"k8s.io/apimachinery/pkg/types"
	"k8s.io/apimachinery/pkg/util/validation/field"
	"k8s.io/utils/ptr"
	"sigs.k8s.io/controller-runtime/pkg/client"
	"sigs.k8s.io/controller-runtime/pkg/reconcile"

	"github.com/crossplane/crossplane-runtime/pkg/feature"
	"github.com/crossplane/crossplane-runtime/pkg/fieldpath"

	"github.com/crossplane/crossplane/apis/pkg/v1beta1"
	"github.com/crossplane/crossplane/internal/controller/pkg/resolver"
	"github.com/crossplane/crossplane/internal/dag"
	"github.com/crossplane/crossplane/internal/features"
	"github.com/crossplane/crossplane/internal/xpkg"
)

// ---------------------------------------------------------------- scenario

type c17WLock struct {
	Pkgs     []c17Pkg `json:"pkgs"`
	Fin      bool     `json:"fin"`
	Resolved string   `json:"resolved"` // "" | "True" | "False"
}

// c17WObj is a Provider / Configuration / Function object. In the cache list: Fresh = the
// cached copy is the stored object (same resourceVersion); otherwise an older copy with this Image.
type c17WObj struct {
	Kind  string  `json:"kind"`
	Name  string  `json:"name"`
	Image *string `json:"image"` // nil: spec.package missing
	Fresh bool    `json:"fresh,omitempty"`
}

// c17WAct is something that happens right before call number K of a step (0-based; all calls
// count: Lock and package calls, the pull-secret lookup and the tag fetch).
type c17WAct struct {
	K     int      `json:"k"`
	Do    string   `json:"do"` // setLock | delLock | setPkg | delPkg | syncLock | syncPkg | setTags | err
	Pkgs  []c17Pkg `json:"pkgs,omitempty"`
	Kind  string   `json:"kind,omitempty"`
	Name  string   `json:"name,omitempty"`
	Image *string  `json:"image,omitempty"`
	Repo  string   `json:"repo,omitempty"`
	Tags  []string `json:"tags,omitempty"`
	Fail  bool     `json:"fail,omitempty"`
	Class string   `json:"class,omitempty"`
}

type c17Ref struct {
	S     string `json:"s"`
	Repo  string `json:"repo"`
	Ident string `json:"ident"`
	Str   string `json:"str"`
	Name  string `json:"name"`
}

type c17WScn struct {
	Kind       string        `json:"kind"` // "recw"
	Upg        bool          `json:"upg"`
	Down       bool          `json:"down"`
	Registry   string        `json:"registry"`
	Kinds      [][2]string   `json:"kinds"` // dependency identifier -> package kind its dependencies declare ("" = none)
	Lock       *c17WLock     `json:"lock"`  // API server (nil: no Lock)
	CLockFresh bool          `json:"clockFresh"`
	CLock      *c17WLock     `json:"clock"` // cache when !CLockFresh (nil: not cached)
	Pkgs       []c17WObj     `json:"pkgs"`
	CPkgs      []c17WObj     `json:"cpkgs"` // order = order served by List
	Tags       []c17RepoTags `json:"tags"`  // Repo = ref.Context().Name()
	Steps      [][]c17WAct   `json:"steps"`
	Refs       []c17Ref      `json:"refs"` // name.ParseReference verdicts (strings absent here do not parse)
	Oracle     c17Oracle     `json:"oracle"`
}

type c17WStepObs struct {
	Err      string   `json:"err"`
	Requeue  bool     `json:"requeue"`
	Calls    []string `json:"calls"`
	Lock     string   `json:"lock"` // "absent" | "fin=<b>/resolved=<s>"
	LockPkgs []c17Pkg `json:"lockPkgs"`
	Pkgs     []string `json:"pkgs"` // sorted Kind/name=image
}

type c17WObs struct {
	Steps []c17WStepObs `json:"steps"`
}

var c17ErrClasses = []string{"notFound", "alreadyExists", "conflict", "invalid", "forbidden", "timeout", "internal", "transport", "deadline"}

var c17PkgKinds = []string{"Provider", "Configuration", "Function"}

const c17PkgGroup = "pkg.crossplane.io"

func c17PkgGK(kind string) schema.GroupKind { return schema.GroupKind{Group: c17PkgGroup, Kind: kind} }

// ---------------------------------------------------------------- error classes

type c17TransportErr struct{}

func (c17TransportErr) Error() string   { return "dial tcp 10.96.0.1:443: connect: connection refused" }
func (c17TransportErr) Timeout() bool   { return false }
func (c17TransportErr) Temporary() bool { return true }

var _ net.Error = c17TransportErr{}

func c17ErrOf(class, what string) error {
	gr := schema.GroupResource{Group: c17PkgGroup, Resource: "objects"}
	switch class {
	case "notFound":
		return kerrors.NewNotFound(gr, what)
	case "alreadyExists":
		return kerrors.NewAlreadyExists(gr, what)
	case "conflict":
		return kerrors.NewConflict(gr, what, errors.New("the object has been modified; please apply your changes to the latest version and try again"))
	case "invalid":
		return kerrors.NewInvalid(schema.GroupKind{Group: c17PkgGroup, Kind: "Object"}, what, field.ErrorList{field.Invalid(field.NewPath("spec", "package"), "x", "injected")})
	case "forbidden":
		return kerrors.NewForbidden(gr, what, errors.New("RBAC: denied"))
	case "timeout":
		return kerrors.NewTimeoutError("request did not complete within the allotted time", 1)
	case "internal":
		return kerrors.NewInternalError(errors.New("etcdserver: leader changed"))
	case "transport":
		return c17TransportErr{}
	case "deadline":
		return fmt.Errorf("Get %q: %w", "https://10.96.0.1:443/apis/pkg.crossplane.io/v1beta1/locks/lock", context.DeadlineExceeded)
	}
	return fmt.Errorf("c17: unknown error class %q", class)
}

func c17ErrClassOf(err error) string {
	var ne net.Error
	switch {
	case err == nil:
		return "ok"
	case errors.Is(err, context.DeadlineExceeded):
		return "deadline"
	case kerrors.IsNotFound(err):
		return "notFound"
	case kerrors.IsAlreadyExists(err):
		return "alreadyExists"
	case kerrors.IsConflict(err):
		return "conflict"
	case kerrors.IsInvalid(err):
		return "invalid"
	case kerrors.IsForbidden(err):
		return "forbidden"
	case kerrors.IsTimeout(err):
		return "timeout"
	case kerrors.IsInternalError(err):
		return "internal"
	case errors.As(err, &ne) && ne.Temporary(): //nolint:staticcheck // the class the audit names
		return "transport"
	}
	return "other"
}

// c17WErrKind maps what Reconcile returned to the model's RErr.
func c17WErrKind(err error) string {
	if err == nil {
		return ""
	}
	t, cl := err.Error(), c17ErrClassOf(err)
	switch {
	case strings.HasPrefix(t, "cannot get package lock"):
		return "getLock:" + cl
	case strings.HasPrefix(t, "cannot remove lock finalizer"):
		return "removeFinalizer:" + cl
	case strings.HasPrefix(t, "cannot add lock finalizer"):
		return "addFinalizer:" + cl
	case strings.HasPrefix(t, "cannot update status"):
		return "status:" + cl
	case strings.HasPrefix(t, "cannot build DAG"):
		return "buildDag"
	case strings.HasPrefix(t, "cannot sort DAG"):
		return "sortDag"
	case strings.HasPrefix(t, "cannot get dependency package"):
		if strings.Contains(t, "encountered an invalid dependency") {
			return "depType"
		}
		return "list:" + cl
	case strings.HasPrefix(t, "cannot find dependency version to install"):
		if strings.Contains(t, "cannot get image pull secret from config") {
			return "findInstall:pullConfig"
		}
		return "findInstall:" + c17VErrKind(err)
	case strings.HasPrefix(t, "cannot construct dependency package"):
		return "construct"
	case strings.HasPrefix(t, "cannot create dependency package"):
		if strings.Contains(t, "existing package") && strings.Contains(t, "has source") {
			return "create:nameTaken"
		}
		return "create:" + cl
	case strings.HasPrefix(t, "cannot find dependency version to upgrade"):
		if strings.Contains(t, "cannot get image pull secret from config") {
			return "findUpdate:pullConfig"
		}
		return "findUpdate:" + c17VErrKind(err)
	case strings.HasPrefix(t, "cannot update dependency package"):
		return "update:" + cl
	}
	return "other:" + t
}

// ---------------------------------------------------------------- the world

// c17Write is a package write the API server applied during one step.
type c17Write struct {
	Verb     string
	Kind     string
	Name     string
	Image    string
	Pre      *string  // spec.package stored right before an update landed
	LiveTags []string // registry content of the image's repository at that moment (nil: unreachable / unknown)
}

type c17World struct {
	*Store
	scn   *c17WScn
	kinds map[string]string

	clock *unstructured.Unstructured
	cpkgs []*unstructured.Unstructured
	tags  map[string]c17RepoTags

	acts   []c17WAct
	k      int
	inject string
	bumps  int

	// record of the running step
	calls       []string
	servedLock  *[]c17Pkg
	servedList  []*unstructured.Unstructured
	listed      bool
	servedTags  []string
	fetched     bool
	failedRead  string
	writes      []c17Write
	lockTouched bool // the Lock's packages were changed by one of the reconciler's own writes
	prePkg      *string
	preLock     *unstructured.Unstructured
	lockStale   bool               // a write of the Lock was answered Conflict: the reconciler knows the Lock it read is outdated
	staleWrite  bool               // ... and a package write landed afterwards
	shadowed    string             // a Create answered AlreadyExists while the object holding the name is not a package of the dependency's repository
	takenKey    string             // Kind/name of that Create
	takenWant   string             // the image it wanted
	servedGet   map[string]*string // spec.package the Get of a package served in this step (after the Create)
}

func c17LockPackagesK(pkgs []c17Pkg, kinds map[string]string) []v1beta1.LockPackage {
	out := c17LockPackages(pkgs)
	for i := range out {
		for j := range out[i].Dependencies {
			d := &out[i].Dependencies[j]
			d.Type = nil
			switch k := kinds[d.Package]; k {
			case "Provider", "Configuration", "Function":
				d.Type = ptr.To(v1beta1.PackageType(k))
			case "":
			default: // explicit apiVersion and kind
				d.APIVersion, d.Kind = ptr.To(c17PkgGroup+"/v1"), ptr.To(k)
			}
		}
	}
	return out
}

func (w *c17World) lockObj(l *c17WLock) *v1beta1.Lock {
	o := &v1beta1.Lock{ObjectMeta: metav1.ObjectMeta{Name: "lock"}, Packages: c17LockPackagesK(l.Pkgs, w.kinds)}
	if l.Fin {
		o.Finalizers = []string{"lock.pkg.crossplane.io"}
	}
	switch l.Resolved {
	case "True":
		o.SetConditions(v1beta1.ResolutionSucceeded())
	case "False":
		o.SetConditions(v1beta1.ResolutionFailed(errors.New("earlier failure")))
	}
	return o
}

func c17PkgUnstructured(kind, nm string, image *string) *unstructured.Unstructured {
	u := &unstructured.Unstructured{Object: map[string]any{}}
	u.SetAPIVersion(c17PkgGroup + "/v1")
	u.SetKind(kind)
	u.SetName(nm)
	if image != nil {
		_ = fieldpath.Pave(u.Object).SetString("spec.package", *image)
	}
	return u
}

func (w *c17World) touch(u *unstructured.Unstructured) {
	w.bumps++
	a := u.GetAnnotations()
	if a == nil {
		a = map[string]string{}
	}
	a["verif.crossplane.io/writes"] = fmt.Sprint(w.bumps)
	u.SetAnnotations(a)
}

func (w *c17World) toUnstructured(o runtime.Object) *unstructured.Unstructured {
	m, err := runtime.DefaultUnstructuredConverter.ToUnstructured(o)
	if err != nil {
		panic(err)
	}
	return &unstructured.Unstructured{Object: m}
}

func c17NewWorld(s *c17WScn) *c17World {
	w := &c17World{Store: NewStore(c17Scheme), scn: s, kinds: map[string]string{}, tags: map[string]c17RepoTags{}}
	for _, kv := range s.Kinds {
		w.kinds[kv[0]] = kv[1]
	}
	if s.Lock != nil {
		w.Store.Seed(w.lockObj(s.Lock))
	}
	for _, p := range s.Pkgs {
		if w.Store.Peek(c17PkgGK(p.Kind), "", p.Name) == nil {
			w.Store.Seed(c17PkgUnstructured(p.Kind, p.Name, p.Image))
		}
	}
	switch {
	case s.CLockFresh:
		w.clock = w.Store.Peek(c17LockGK, "", "lock")
	case s.CLock != nil:
		u := w.toUnstructured(w.lockObj(s.CLock))
		u.SetAPIVersion(v1beta1.LockGroupVersionKind.GroupVersion().String())
		u.SetKind(v1beta1.LockKind)
		u.SetResourceVersion("0")
		w.clock = u
	}
	for _, p := range s.CPkgs {
		if p.Fresh {
			if u := w.Store.Peek(c17PkgGK(p.Kind), "", p.Name); u != nil {
				w.cpkgs = append(w.cpkgs, u)
			}
			continue
		}
		u := c17PkgUnstructured(p.Kind, p.Name, p.Image)
		u.SetResourceVersion("0")
		w.cpkgs = append(w.cpkgs, u)
	}
	for _, t := range s.Tags {
		w.tags[t.Repo] = t
	}
	// every write the API server applies is judged, whichever verb carried it and whether or
	// not it came through the calls the model knows (a Patch, a Delete, ...)
	lockGK := gkString(c17LockGK)
	isPkg := func(ci CallInfo) (string, bool) {
		for _, k := range c17PkgKinds {
			if ci.GK == gkString(c17PkgGK(k)) {
				return k, true
			}
		}
		return "", false
	}
	w.Store.Before = func(ci CallInfo) {
		if !ci.IsWrite() || ci.DryRun {
			return
		}
		if k, ok := isPkg(ci); ok {
			w.prePkg = c17ImageOf(w.Store.Peek(c17PkgGK(k), "", ci.Name))
		}
		if ci.GK == lockGK {
			w.preLock = w.Store.Peek(c17LockGK, "", "lock")
		}
	}
	w.Store.After = func(ci CallInfo) {
		if !ci.IsWrite() || ci.DryRun || ci.Err != "" {
			return
		}
		if k, ok := isPkg(ci); ok {
			verb := "update"
			switch ci.Verb {
			case "create":
				verb = "create"
			case "delete", "deleteAllOf":
				verb = "delete"
			}
			img := c17ImageStr(c17ImageOf(w.Store.Peek(c17PkgGK(k), "", ci.Name)))
			x := c17Write{Verb: verb, Kind: k, Name: ci.Name, Image: img, LiveTags: w.liveTagsFor(img)}
			if verb != "create" {
				x.Pre = w.prePkg
			}
			w.writes = append(w.writes, x)
			w.staleWrite = w.staleWrite || w.lockStale
		}
		if ci.GK == lockGK {
			w.checkLockUntouched(w.preLock)
		}
	}
	return w
}

func (w *c17World) applyAct(a c17WAct) {
	switch a.Do {
	case "setLock":
		if w.Store.Peek(c17LockGK, "", "lock") == nil {
			w.Store.Seed(w.lockObj(&c17WLock{Pkgs: a.Pkgs}))
			return
		}
		m := w.toUnstructured(&v1beta1.Lock{Packages: c17LockPackagesK(a.Pkgs, w.kinds)})
		w.Store.Mutate(c17LockGK, "", "lock", func(u *unstructured.Unstructured) {
			if p, ok := m.Object["packages"]; ok {
				u.Object["packages"] = p
			} else {
				delete(u.Object, "packages")
			}
			w.touch(u)
		})
	case "delLock":
		w.Store.Remove(c17LockGK, "", "lock")
	case "setPkg":
		if w.Store.Peek(c17PkgGK(a.Kind), "", a.Name) == nil {
			w.Store.Seed(c17PkgUnstructured(a.Kind, a.Name, a.Image))
			return
		}
		w.Store.Mutate(c17PkgGK(a.Kind), "", a.Name, func(u *unstructured.Unstructured) {
			if a.Image != nil {
				_ = fieldpath.Pave(u.Object).SetString("spec.package", *a.Image)
			} else {
				_ = fieldpath.Pave(u.Object).DeleteField("spec.package")
			}
			w.touch(u)
		})
	case "delPkg":
		w.Store.Remove(c17PkgGK(a.Kind), "", a.Name)
	case "syncLock":
		w.clock = w.Store.Peek(c17LockGK, "", "lock")
	case "syncPkg":
		live := w.Store.Peek(c17PkgGK(a.Kind), "", a.Name)
		var out []*unstructured.Unstructured
		done := false
		for _, c := range w.cpkgs {
			if c.GetKind() == a.Kind && c.GetName() == a.Name {
				if live != nil && !done {
					out = append(out, live)
					done = true
				} else if live != nil {
					out = append(out, c)
				}
				continue
			}
			out = append(out, c)
		}
		if live != nil && !done {
			out = append(out, live)
		}
		w.cpkgs = out
	case "setTags":
		w.tags[a.Repo] = c17RepoTags{Repo: a.Repo, Tags: a.Tags, Fail: a.Fail}
	case "err":
		w.inject = a.Class
	}
}

// before applies what the environment does right before call k and returns the injected failure, if any.
func (w *c17World) before(what string) error {
	for _, a := range w.acts {
		if a.K == w.k {
			w.applyAct(a)
		}
	}
	w.k++
	if w.inject != "" {
		cl := w.inject
		w.inject = ""
		return c17ErrOf(cl, what)
	}
	return nil
}

func (w *c17World) logCall(s string, err error) {
	w.calls = append(w.calls, s+":"+c17ErrClassOf(err))
}

// forceBump: every applied write moves the resourceVersion in this world (a write that changes
// nothing is indistinguishable from one followed by another client's touch).
func (w *c17World) forceBump(gk schema.GroupKind, nm string, obj client.Object) {
	if n := len(w.Store.Log); n == 0 || w.Store.Log[n-1].Changed {
		return
	}
	w.Store.Mutate(gk, "", nm, func(u *unstructured.Unstructured) { w.touch(u) })
	if u := w.Store.Peek(gk, "", nm); u != nil {
		obj.SetResourceVersion(u.GetResourceVersion())
	}
}

func (w *c17World) Get(_ context.Context, key client.ObjectKey, obj client.Object, _ ...client.GetOption) error {
	if u, ok := obj.(*unstructured.Unstructured); ok { // a package, read through the cache
		err := w.before(key.Name)
		if err == nil {
			err = kerrors.NewNotFound(schema.GroupResource{Group: c17PkgGroup, Resource: strings.ToLower(u.GetKind())}, key.Name)
			for _, c := range w.cpkgs {
				if c.GetKind() == u.GetKind() && c.GetName() == key.Name {
					u.Object = c.DeepCopy().Object
					err = nil
					if w.servedGet == nil {
						w.servedGet = map[string]*string{}
					}
					w.servedGet[u.GetKind()+"/"+key.Name] = c17ImageOf(c)
					break
				}
			}
		}
		w.logCall("get:"+u.GetKind()+"/"+key.Name, err)
		return err
	}
	if _, ok := obj.(*v1beta1.Lock); !ok {
		return fmt.Errorf("c17 world: unexpected Get of %T", obj)
	}
	err := w.before("lock")
	if err == nil {
		if w.clock == nil || key.Name != "lock" {
			err = kerrors.NewNotFound(schema.GroupResource{Group: c17PkgGroup, Resource: "locks"}, key.Name)
		} else {
			err = runtime.DefaultUnstructuredConverter.FromUnstructured(w.clock.DeepCopy().Object, obj)
			if err == nil {
				pk := c17LockPkgsOf(obj.(*v1beta1.Lock))
				w.servedLock = &pk
			}
		}
	}
	if err != nil {
		w.failedRead = "get"
	}
	w.logCall("get:lock", err)
	return err
}

// calls the reconciler does not make today: counted, subject to injected errors, applied by the
// API server (the hooks above judge what they do)
func (w *c17World) Patch(ctx context.Context, obj client.Object, patch client.Patch, opts ...client.PatchOption) error {
	err := w.before(obj.GetName())
	if err == nil {
		err = w.Store.Patch(ctx, obj, patch, opts...)
	}
	w.logCall("patch:"+obj.GetName(), err)
	return err
}

func (w *c17World) Delete(ctx context.Context, obj client.Object, opts ...client.DeleteOption) error {
	err := w.before(obj.GetName())
	if err == nil {
		err = w.Store.Delete(ctx, obj, opts...)
	}
	w.logCall("delete:"+obj.GetName(), err)
	return err
}

func (w *c17World) List(_ context.Context, list client.ObjectList, _ ...client.ListOption) error {
	ul, ok := list.(*unstructured.UnstructuredList)
	if !ok {
		return fmt.Errorf("c17 world: unexpected List of %T", list)
	}
	kind := strings.TrimSuffix(ul.GetKind(), "List")
	err := w.before(kind)
	if err == nil {
		ul.Items = nil
		w.servedList, w.listed = nil, true
		for _, c := range w.cpkgs {
			if c.GetKind() == kind && c.GroupVersionKind().Group == ul.GroupVersionKind().Group {
				ul.Items = append(ul.Items, *c.DeepCopy())
				w.servedList = append(w.servedList, c.DeepCopy())
			}
		}
	} else {
		w.failedRead = "list"
	}
	w.logCall("list:"+kind, err)
	return err
}

func c17ImageOf(u *unstructured.Unstructured) *string {
	if u == nil {
		return nil
	}
	if s, err := fieldpath.Pave(u.Object).GetString("spec.package"); err == nil {
		return &s
	}
	return nil
}

func c17ImageStr(p *string) string {
	if p == nil {
		return "<none>"
	}
	return *p
}

func (w *c17World) liveTagsFor(image string) []string {
	ref, err := name.ParseReference(image, name.WithDefaultRegistry(w.scn.Registry))
	if err != nil {
		return nil
	}
	t, ok := w.tags[ref.Context().Name()]
	if !ok {
		return []string{}
	}
	if t.Fail {
		return nil
	}
	return append([]string{}, t.Tags...)
}

func (w *c17World) Create(ctx context.Context, obj client.Object, opts ...client.CreateOption) error {
	u, ok := obj.(*unstructured.Unstructured)
	if !ok {
		return fmt.Errorf("c17 world: unexpected Create of %T", obj)
	}
	img := c17ImageStr(c17ImageOf(u))
	err := w.before(u.GetName())
	if err == nil {
		err = w.Store.Create(ctx, obj, opts...)
		if kerrors.IsAlreadyExists(err) {
			// the name is taken: by a package of the dependency's repository (fine: it is being
			// installed already), or by something else (the dependency stays uninstalled)
			want, werr := w.parse(img)
			have := c17ImageOf(w.Store.Peek(u.GroupVersionKind().GroupKind(), "", u.GetName()))
			same := false
			if have != nil && werr == nil {
				if hr, herr := w.parse(*have); herr == nil {
					same = hr.Context().Name() == want.Context().Name()
				}
			}
			w.takenKey, w.takenWant, w.servedGet = u.GetKind()+"/"+u.GetName(), img, nil
			if !same {
				w.shadowed = u.GetKind() + "/" + u.GetName() + " holds " + c17ImageStr(have) + ", wanted " + img
			}
		}
	}
	w.logCall("create:"+u.GetKind()+"/"+u.GetName()+"="+img, err)
	return err
}

func (w *c17World) Update(ctx context.Context, obj client.Object, opts ...client.UpdateOption) error {
	if l, ok := obj.(*v1beta1.Lock); ok {
		fin := len(l.GetFinalizers()) > 0
		err := w.before("lock")
		if err == nil {
			err = w.Store.Update(ctx, obj, opts...)
			if err == nil {
				w.forceBump(c17LockGK, "lock", obj)
			}
		}
		w.lockStale = w.lockStale || kerrors.IsConflict(err)
		w.logCall(fmt.Sprintf("update:lock:fin=%v", fin), err)
		return err
	}
	u, ok := obj.(*unstructured.Unstructured)
	if !ok {
		return fmt.Errorf("c17 world: unexpected Update of %T", obj)
	}
	img := c17ImageStr(c17ImageOf(u))
	err := w.before(u.GetName())
	if err == nil {
		gk := u.GroupVersionKind().GroupKind()
		err = w.Store.Update(ctx, obj, opts...)
		if err == nil {
			w.forceBump(gk, u.GetName(), obj)
		}
	}
	w.logCall("update:"+u.GetKind()+"/"+u.GetName()+"="+img, err)
	return err
}

func (w *c17World) checkLockUntouched(pre *unstructured.Unstructured) {
	post := w.Store.Peek(c17LockGK, "", "lock")
	if pre == nil || post == nil {
		return
	}
	a, b := &v1beta1.Lock{}, &v1beta1.Lock{}
	_ = runtime.DefaultUnstructuredConverter.FromUnstructured(pre.Object, a)
	_ = runtime.DefaultUnstructuredConverter.FromUnstructured(post.Object, b)
	if !c17EqualJSON(c17LockPkgsOf(a), c17LockPkgsOf(b)) {
		w.lockTouched = true
	}
}

type c17StatusWriter struct{ w *c17World }

func (s c17StatusWriter) Create(context.Context, client.Object, client.Object, ...client.SubResourceCreateOption) error {
	return errors.New("c17 world: unexpected status create")
}

func (s c17StatusWriter) Patch(context.Context, client.Object, client.Patch, ...client.SubResourcePatchOption) error {
	return errors.New("c17 world: unexpected status patch")
}

func (s c17StatusWriter) Update(ctx context.Context, obj client.Object, opts ...client.SubResourceUpdateOption) error {
	w := s.w
	l, ok := obj.(*v1beta1.Lock)
	if !ok {
		return fmt.Errorf("c17 world: unexpected status update of %T", obj)
	}
	res := string(l.GetCondition(v1beta1.TypeResolved).Status)
	if res == "Unknown" {
		res = ""
	}
	err := w.before("lock")
	if err == nil {
		err = w.Store.Status().Update(ctx, obj, opts...)
		if err == nil {
			w.forceBump(c17LockGK, "lock", obj)
		}
	}
	w.lockStale = w.lockStale || kerrors.IsConflict(err)
	w.logCall("status:lock:"+res, err)
	return err
}

func (w *c17World) Status() client.SubResourceWriter { return c17StatusWriter{w} }

// fetcher and image config store of the long-lived reconciler: their calls are calls of the step too.
type c17WFetcher struct{ w *c17World }

func (f c17WFetcher) Fetch(context.Context, name.Reference, ...string) (conregv1.Image, error) {
	return nil, errors.New("not used")
}

func (f c17WFetcher) Head(context.Context, name.Reference, ...string) (*conregv1.Descriptor, error) {
	return nil, errors.New("not used")
}

func (f c17WFetcher) Tags(_ context.Context, ref name.Reference, _ ...string) ([]string, error) {
	w := f.w
	repo := ref.Context().Name()
	err := w.before(repo)
	var out []string
	if err == nil {
		t := w.tags[repo]
		if t.Fail {
			err = kerrors.NewInternalError(errors.New("registry unreachable"))
		} else {
			out = append([]string{}, t.Tags...)
			w.servedTags, w.fetched = append([]string{}, t.Tags...), true
		}
	}
	if err != nil {
		w.failedRead = "tags"
	}
	w.logCall("tags:"+repo, err)
	return out, err
}

type c17WConfig struct{ w *c17World }

func (c c17WConfig) PullSecretFor(_ context.Context, image string) (string, string, error) {
	err := c.w.before(image)
	if err != nil {
		c.w.failedRead = "secret"
	}
	c.w.logCall("secret", err)
	return "", "", err
}

func (c c17WConfig) ImageVerificationConfigFor(context.Context, string) (string, *v1beta1.ImageVerification, error) {
	return "", nil, errors.New("not used")
}

// ---------------------------------------------------------------- run

func (w *c17World) parse(s string) (name.Reference, error) {
	return name.ParseReference(s, name.WithDefaultRegistry(w.scn.Registry))
}

func (w *c17World) snapshot(o *c17WStepObs) {
	o.Lock, o.LockPkgs, o.Pkgs = "absent", []c17Pkg{}, []string{}
	if u := w.Store.Peek(c17LockGK, "", "lock"); u != nil {
		l := &v1beta1.Lock{}
		_ = runtime.DefaultUnstructuredConverter.FromUnstructured(u.Object, l)
		res := string(l.GetCondition(v1beta1.TypeResolved).Status)
		if res == "Unknown" {
			res = ""
		}
		o.Lock = fmt.Sprintf("fin=%v/resolved=%s", len(l.GetFinalizers()) > 0, res)
		o.LockPkgs = c17LockPkgsOf(l)
	}
	for _, k := range c17PkgKinds {
		for _, u := range w.Store.OfKind(c17PkgGK(k)) {
			o.Pkgs = append(o.Pkgs, k+"/"+u.GetName()+"="+c17ImageStr(c17ImageOf(u)))
		}
	}
	sort.Strings(o.Pkgs)
}

func c17WRun(s *c17WScn) (c17WObs, []Mon, string) {
	w := c17NewWorld(s)
	opts := []resolver.ReconcilerOption{resolver.WithFetcher(c17WFetcher{w}), resolver.WithConfigStore(c17WConfig{w}), resolver.WithDefaultRegistry(s.Registry)}
	flags := &feature.Flags{}
	if s.Upg {
		flags.Enable(features.EnableAlphaDependencyVersionUpgrades)
		opts = append(opts, resolver.WithNewDagFn(dag.NewUpgradingMapDag))
		if s.Down {
			opts = append(opts, resolver.WithDowngradesEnabled())
		}
	}
	opts = append(opts, resolver.WithFeatures(flags))
	// ONE reconciler for the whole scenario, as in one process
	r := resolver.NewReconciler(c17Mgr{c: w}, opts...)
	obs := c17WObs{Steps: []c17WStepObs{}}
	var mons []Mon
	clsParts := []string{}
	for si, acts := range s.Steps {
		w.acts, w.k, w.inject = acts, 0, ""
		w.calls, w.servedLock, w.servedList, w.listed, w.servedTags, w.fetched, w.failedRead, w.writes, w.lockTouched = nil, nil, nil, false, nil, false, "", nil, false
		w.lockStale, w.staleWrite, w.shadowed, w.takenKey, w.takenWant, w.servedGet = false, false, "", "", "", nil
		var res reconcile.Result
		var err error
		panicked := Guard(func() {
			res, err = r.Reconcile(context.Background(), reconcile.Request{NamespacedName: types.NamespacedName{Name: "lock"}})
		})
		so := c17WStepObs{Err: c17WErrKind(err), Requeue: res.Requeue, Calls: append([]string{}, w.calls...)}
		if panicked != "" {
			so.Err, so.Requeue = "panic", false
			if !strings.Contains(panicked, "semver.MustParse") {
				mons = append(mons, Mon{Sig: "C17:reconcile-panic", Why: panicked})
			}
		}
		w.snapshot(&so)
		obs.Steps = append(obs.Steps, so)
		mons = append(mons, w.monitors(si, so)...)
		act := "none"
		for _, x := range w.writes {
			act = x.Verb
		}
		clsParts = append(clsParts, act+"/"+strings.SplitN(so.Err, ":", 2)[0])
	}
	cls := fmt.Sprintf("steps=%d/%s", len(s.Steps), strings.Join(clsParts, ","))
	return obs, mons, cls
}

// ---------------------------------------------------------------- direct monitors

// monitors judges the step that just ran against what the reconciler was served in THIS step
// (Lock, package list, tag list) and against the API server's state at the moment each of its
// writes landed; nothing here looks at the model.
func (w *c17World) monitors(step int, so c17WStepObs) []Mon {
	var mons []Mon
	add := func(sig, why string) {
		mons = append(mons, Mon{Sig: "C17:" + sig, Why: fmt.Sprintf("step %d: %s", step, why)})
	}
	if w.lockTouched {
		add("resolver-modified-lock", "a write of the reconciler changed the Lock's packages")
	}
	if w.takenKey != "" && so.Err == "" {
		// D31: AlreadyExists from Create is success only if the object that holds the name is a
		// package of the dependency's repository - judged on the object this Reconcile's Get was
		// served after the Create; without such a Get, on the object stored at that moment
		why := ""
		if served, ok := w.servedGet[w.takenKey]; ok {
			want, werr := w.parse(w.takenWant)
			same := false
			if served != nil && werr == nil {
				if hr, herr := w.parse(*served); herr == nil {
					same = hr.Context().Name() == want.Context().Name()
				}
			}
			if !same {
				why = w.takenKey + " was served as " + c17ImageStr(served) + ", wanted " + w.takenWant
			}
		} else if w.shadowed != "" {
			why = w.shadowed + " (no Get of the existing object)"
		}
		if why != "" {
			add("missing-dependency-shadowed-by-name", "Reconcile returned no error although the dependency was not installed: "+why)
		}
	}
	if w.staleWrite {
		add("installed-from-lock-known-stale", "a package was written after a write of the Lock was answered Conflict in the same Reconcile")
	}
	if len(w.writes) > 1 {
		add("more-than-one-package-written", "one Reconcile wrote several packages")
	}
	if len(w.writes) > 0 && w.failedRead != "" {
		add("write-after-failed-read", "a package was written although the "+w.failedRead+" call of this Reconcile failed")
	}
	var lock []c17Pkg
	if w.servedLock != nil {
		lock = *w.servedLock
	}
	edges := c17Edges(lock)
	cyclic := c17HasCycle(edges)
	dup := false
	seen := map[string]bool{}
	for _, p := range lock {
		dup = dup || seen[p.Source]
		seen[p.Source] = true
	}
	if len(w.writes) > 0 && (w.servedLock == nil || cyclic || dup) {
		add("installed-despite-broken-graph", fmt.Sprintf("lock served=%v cyclic=%v duplicate=%v but %s %s landed", w.servedLock != nil, cyclic, dup, w.writes[0].Verb, w.writes[0].Image))
	}
	pastFinalizer := false
	for _, c := range so.Calls {
		pastFinalizer = pastFinalizer || strings.HasPrefix(c, "status:")
	}
	if cyclic && !dup && pastFinalizer && so.Err != "sortDag" {
		add("cycle-undetected", "the Lock served has a dependency cycle but Reconcile returned "+so.Err)
	}
	for _, x := range w.writes {
		src, ver := c17SplitImage(x.Image)
		tags := w.servedTags
		if !w.fetched {
			tags = x.LiveTags
		}
		// the edges of the served Lock towards the identifier written in front of the version:
		// every dependency entry (a create is justified by any of them), and the first entry per
		// lock package (lock.go AddNeighbors records that one as the parent's constraint)
		var cons, parents []string
		for _, p := range lock {
			first := true
			for _, d := range p.Deps {
				if d.Pkg == src {
					cons = append(cons, d.Con)
					if first {
						parents = append(parents, d.Con)
					}
					first = false
				}
			}
		}
		ref, perr := w.parse(x.Image)
		switch x.Verb {
		case "delete":
			add("package-deleted", "the reconciler deleted "+x.Kind+"/"+x.Name)
		case "create":
			if len(cons) == 0 {
				add("created-not-a-dependency", "created "+x.Image+" but no package of the Lock served depends on "+src)
				continue
			}
			if !w.scn.Upg && seen[src] {
				add("created-present-dependency", "created "+x.Image+" although "+src+" is in the Lock served")
			}
			if w.scn.Upg {
				if !w.listed {
					add("install-without-installed-check", "created "+x.Image+" without a successful List of the installed packages in this Reconcile")
				} else if perr == nil {
					for _, u := range w.servedList {
						if img := c17ImageOf(u); img != nil {
							if pr, e := w.parse(*img); e == nil && pr.Context().Name() == ref.Context().Name() {
								add("install-without-installed-check", "created "+x.Image+" although the List served "+u.GetName()+" with the same repository")
							}
						}
					}
				}
			}
			okAny, maxAny, digestAny, isTag := false, false, false, false
			for _, t := range tags {
				isTag = isTag || t == ver
			}
			for _, con := range cons {
				if h, herr := conregv1.NewHash(con); herr == nil {
					if h.String() == ver {
						okAny, maxAny, digestAny = true, true, true
					}
					continue
				}
				c, cerr := semver.NewConstraint(con)
				v, verr := semver.NewVersion(ver)
				if cerr != nil || verr != nil || !c.Check(v) {
					continue
				}
				okAny = true
				higher := false
				for _, t := range tags {
					if tv, e := semver.NewVersion(t); e == nil && c.Check(tv) && tv.GreaterThan(v) {
						higher = true
					}
				}
				maxAny = maxAny || !higher
			}
			switch {
			case !okAny:
				add("created-version-violates-constraint", "created "+x.Image+" satisfies no constraint recorded for it in the Lock served")
			case !digestAny && !w.fetched:
				add("install-without-fetching-tags", "created "+x.Image+" without fetching the tag list in this Reconcile")
				if tags != nil && (!isTag || !maxAny) {
					add("install-not-max", "created "+x.Image+" is not the highest satisfying tag of the registry")
				}
			case !digestAny && !isTag:
				add("install-not-a-tag", "created "+x.Image+": "+ver+" is not among the tags served")
			case !maxAny:
				add("install-not-max", "created "+x.Image+" although a higher tag satisfies the constraint")
			}
		case "update":
			if !w.scn.Upg {
				add("updated-without-upgrades", "updated "+x.Image+" although upgrades are disabled")
			}
			if len(cons) == 0 {
				add("updated-not-a-dependency", "updated to "+x.Image+" but no package of the Lock served depends on "+src)
				continue
			}
			// the package updated must have been, at that moment, a package of the dependency's repository
			insVer := ""
			if x.Pre == nil {
				add("updated-foreign-package", "updated "+x.Kind+"/"+x.Name+" whose spec.package was missing")
				continue
			}
			pre, e := w.parse(*x.Pre)
			if e != nil || perr != nil || pre.Context().Name() != ref.Context().Name() {
				add("updated-foreign-package", "updated "+x.Kind+"/"+x.Name+" ("+*x.Pre+") to "+x.Image+": another repository")
				continue
			}
			insVer = pre.Identifier()
			if tags == nil {
				tags = []string{}
			}
			um, _ := c17UpdMonitor(parents, insVer, w.scn.Down, tags, ver, "")
			for _, m := range um {
				// a pinned digest needs no tag list
				mons = append(mons, Mon{Sig: m.Sig, Why: fmt.Sprintf("step %d: %s/%s at %s: %s", step, x.Kind, x.Name, *x.Pre, m.Why)})
			}
			ndig, _, _ := c17ParentCons(parents)
			if ndig == 0 && !w.fetched {
				add("install-without-fetching-tags", "updated to "+x.Image+" without fetching the tag list in this Reconcile")
			}
		}
	}
	return mons
}

// ---------------------------------------------------------------- oracle tables, emit

func c17WRefs(s *c17WScn) []c17Ref {
	strs := map[string]bool{}
	addImg := func(p *string) {
		if p != nil {
			strs[*p] = true
		}
	}
	var ids []string
	addLock := func(pkgs []c17Pkg) {
		for _, p := range pkgs {
			for _, d := range p.Deps {
				ids = append(ids, d.Pkg)
			}
		}
	}
	if s.Lock != nil {
		addLock(s.Lock.Pkgs)
	}
	if s.CLock != nil {
		addLock(s.CLock.Pkgs)
	}
	tagsOf := map[string][]string{}
	for _, t := range s.Tags {
		tagsOf[t.Repo] = append(tagsOf[t.Repo], t.Tags...)
	}
	for _, p := range s.Pkgs {
		addImg(p.Image)
	}
	for _, p := range s.CPkgs {
		addImg(p.Image)
	}
	var digests []string
	for _, st := range s.Steps {
		for _, a := range st {
			addImg(a.Image)
			addLock(a.Pkgs)
			if a.Do == "setTags" {
				tagsOf[a.Repo] = append(tagsOf[a.Repo], a.Tags...)
			}
		}
	}
	for _, str := range c17WStrings(s) {
		if h, err := conregv1.NewHash(str); err == nil {
			digests = append(digests, h.String())
		}
	}
	for _, id := range ids {
		strs[id] = true
		ref, err := name.ParseReference(id, name.WithDefaultRegistry(s.Registry))
		if err != nil {
			continue
		}
		for _, t := range tagsOf[ref.Context().Name()] {
			strs[ref.String()+":"+t] = true
		}
		for _, d := range digests {
			strs[ref.String()+"@"+d] = true
		}
	}
	var keys []string
	for k := range strs {
		keys = append(keys, k)
	}
	sort.Strings(keys)
	out := []c17Ref{}
	for _, k := range keys {
		ref, err := name.ParseReference(k, name.WithDefaultRegistry(s.Registry))
		if err != nil {
			continue
		}
		out = append(out, c17Ref{S: k, Repo: ref.Context().Name(), Ident: ref.Identifier(), Str: ref.String(), Name: xpkg.ToDNSLabel(ref.Context().RepositoryStr())})
	}
	return out
}

// every string the semver / digest libraries may be asked about
func c17WStrings(s *c17WScn) []string {
	var strs []string
	if s.Lock != nil {
		strs = append(strs, c17DagStrings(s.Lock.Pkgs)...)
	}
	if s.CLock != nil {
		strs = append(strs, c17DagStrings(s.CLock.Pkgs)...)
	}
	for _, t := range s.Tags {
		strs = append(strs, t.Tags...)
	}
	for _, st := range s.Steps {
		for _, a := range st {
			strs = append(strs, c17DagStrings(a.Pkgs)...)
			strs = append(strs, a.Tags...)
		}
	}
	return strs
}

func c17WEmit(c *Ctx, s c17WScn, prefix string) {
	s.Kind = "recw"
	fixPkgs := func(p []c17Pkg) []c17Pkg {
		if p == nil {
			p = []c17Pkg{}
		}
		for i := range p {
			if p[i].Deps == nil {
				p[i].Deps = []c17Dep{}
			}
		}
		return p
	}
	if s.Lock != nil {
		s.Lock.Pkgs = fixPkgs(s.Lock.Pkgs)
	}
	if s.CLock != nil {
		s.CLock.Pkgs = fixPkgs(s.CLock.Pkgs)
	}
	if s.Kinds == nil {
		s.Kinds = [][2]string{}
	}
	if s.Pkgs == nil {
		s.Pkgs = []c17WObj{}
	}
	if s.CPkgs == nil {
		s.CPkgs = []c17WObj{}
	}
	if s.Tags == nil {
		s.Tags = []c17RepoTags{}
	}
	for i := range s.Tags {
		if s.Tags[i].Tags == nil {
			s.Tags[i].Tags = []string{}
		}
	}
	if s.Steps == nil {
		s.Steps = [][]c17WAct{}
	}
	for i := range s.Steps {
		if s.Steps[i] == nil {
			s.Steps[i] = []c17WAct{}
		}
		for j := range s.Steps[i] {
			a := &s.Steps[i][j]
			if a.Do == "setLock" {
				a.Pkgs = fixPkgs(a.Pkgs)
			}
			if a.Do == "setTags" && a.Tags == nil {
				a.Tags = []string{}
			}
		}
	}
	s.Refs = c17WRefs(&s)
	strs := c17WStrings(&s)
	for _, r := range s.Refs {
		strs = append(strs, r.Ident)
	}
	s.Oracle = c17MkOracle(strs)
	obs, mons, cls := c17WRun(&s)
	kind := "install"
	if s.Upg {
		kind = fmt.Sprintf("upgrade/down=%v", s.Down)
	}
	c.Emit(s, obs, mons, prefix+"/recw/"+kind+"/"+cls)
}

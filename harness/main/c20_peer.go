//go:build verif

package main

// C20, other writers and error classes.
//
//   * applyPeer / applyOp: what another client (a concurrent initialiser, a user, another controller, the
//     garbage collector) does to the cluster between two of OUR API calls, realised in simstore's
//     before-the-call window (Seed / Mutate / Remove: new resourceVersion, new UID for a re-created object);
//   * c20Client: the client handed to the real initializer; it answers the one faulted call of a run with an
//     error of the CLASS the scenario asks for (NotFound / AlreadyExists / Conflict / Forbidden / Invalid /
//     Unauthorized / TooManyRequests / ServerTimeout / a Temporary() transport error / context deadline);
//   * the generator of such interference: c20PeerInit (the REAL initializer run on a copy of the cluster as it
//     is at that very call, completely or up to a crash: its effect is what the peer has written) and
//     c20UserOps (creates / deletes / edits aimed at the object our next call is about).

import (
	"context"
	"encoding/base64"
	"encoding/json"
	"fmt"
	"strings"

	corev1 "k8s.io/api/core/v1"
	kerrors "k8s.io/apimachinery/pkg/api/errors"
	"k8s.io/apimachinery/pkg/apis/meta/v1/unstructured"
	"k8s.io/apimachinery/pkg/runtime/schema"
	"k8s.io/apimachinery/pkg/types"
	"k8s.io/apimachinery/pkg/util/strategicpatch"
	"sigs.k8s.io/controller-runtime/pkg/client"
)

// ---------------------------------------------------------------- error classes

// c20TempErr is a transport-level error: Temporary() and a Timeout().
type c20TempErr struct{}

func (c20TempErr) Error() string   { return "simstore: i/o timeout" }
func (c20TempErr) Temporary() bool { return true }
func (c20TempErr) Timeout() bool   { return true }

// c20Classes: "" = the generic InternalError of simstore.
var c20Classes = []string{"", "notFound", "alreadyExists", "conflictErr", "forbidden", "invalid", "unauthorized", "tooMany", "serverTimeout", "timeout", "deadline"}

func c20ClassErr(cls string, gk schema.GroupKind, name string) error {
	gr := schema.GroupResource{Group: gk.Group, Resource: strings.ToLower(gk.Kind)}
	switch cls {
	case "notFound":
		return kerrors.NewNotFound(gr, name)
	case "alreadyExists":
		return kerrors.NewAlreadyExists(gr, name)
	case "conflictErr":
		return kerrors.NewConflict(gr, name, fmt.Errorf("injected"))
	case "forbidden":
		return kerrors.NewForbidden(gr, name, fmt.Errorf("injected"))
	case "invalid":
		return kerrors.NewInvalid(gk, name, nil)
	case "unauthorized":
		return kerrors.NewUnauthorized("injected")
	case "tooMany":
		return kerrors.NewTooManyRequests("injected", 1)
	case "serverTimeout":
		return kerrors.NewServerTimeout(gr, "call", 1)
	case "timeout":
		return c20TempErr{}
	case "deadline":
		return context.DeadlineExceeded
	}
	return nil
}

// c20Lie: an error class that claims something about the object which the call did not establish (the
// server says NotFound / AlreadyExists without having looked). A run that was lied to may "complete"
// without having done its work; the idempotence monitors do not take it as the reference run.
func c20Lie(r c20Run) bool {
	return r.K >= 0 && r.O == "fail" && (r.Cls == "notFound" || r.Cls == "alreadyExists")
}

// c20LieCls: the run's fault, wherever it hits, is of such a class.
func c20LieCls(r c20Run) bool {
	return r.O == "fail" && (r.Cls == "notFound" || r.Cls == "alreadyExists")
}

// c20Client is the client.Client the real initializer runs against.
type c20Client struct {
	*Store
	cls       string
	rewritten string         // the class actually served when `cls` would have been impossible (see fix)
	pre       func(call int) // lets the other writers of the window of call number `call` act now (idempotent)
}

func (c *c20Client) fix(n0 int, gk schema.GroupKind, name string, err error) error {
	st := c.Store
	if c.cls == "" || len(st.Log) == n0 {
		return err
	}
	last := &st.Log[len(st.Log)-1]
	if last.Outcome != "fail" {
		return err
	}
	cls := c.cls
	if cls == "notFound" && last.Verb == "list" {
		// "the server could not find the requested resource" = the kind is not served: impossible while
		// objects of the kind are stored. Serve Forbidden instead and tell the scenario.
		for _, u := range st.All() {
			if u.GroupVersionKind().GroupKind().String() == last.GK {
				cls = "forbidden"
				c.rewritten = cls
				break
			}
		}
	}
	e := c20ClassErr(cls, gk, name)
	if e == nil {
		return err
	}
	last.Err = errClass(e)
	return e
}

func (c *c20Client) gk(obj any) schema.GroupKind {
	if o, ok := obj.(client.Object); ok {
		if gvk, err := c.Store.GroupVersionKindFor(o); err == nil {
			return gvk.GroupKind()
		}
	}
	if o, ok := obj.(client.ObjectList); ok {
		if gvk, err := c.Store.GroupVersionKindFor(o); err == nil {
			return schema.GroupKind{Group: gvk.Group, Kind: strings.TrimSuffix(gvk.Kind, "List")}
		}
	}
	return schema.GroupKind{}
}

func (c *c20Client) Get(ctx context.Context, key client.ObjectKey, obj client.Object, opts ...client.GetOption) error {
	n0 := len(c.Store.Log)
	return c.fix(n0, c.gk(obj), key.Name, c.Store.Get(ctx, key, obj, opts...))
}

func (c *c20Client) List(ctx context.Context, list client.ObjectList, opts ...client.ListOption) error {
	n0 := len(c.Store.Log)
	return c.fix(n0, c.gk(list), "", c.Store.List(ctx, list, opts...))
}

func (c *c20Client) Create(ctx context.Context, obj client.Object, opts ...client.CreateOption) error {
	n0 := len(c.Store.Log)
	return c.fix(n0, c.gk(obj), obj.GetName(), c.Store.Create(ctx, obj, opts...))
}

func (c *c20Client) Update(ctx context.Context, obj client.Object, opts ...client.UpdateOption) error {
	n0 := len(c.Store.Log)
	return c.fix(n0, c.gk(obj), obj.GetName(), c.Store.Update(ctx, obj, opts...))
}

func (c *c20Client) Patch(ctx context.Context, obj client.Object, patch client.Patch, opts ...client.PatchOption) error {
	n0 := len(c.Store.Log)
	if patch.Type() == types.StrategicMergePatchType {
		patch = c.strategic(obj, patch)
	}
	return c.fix(n0, c.gk(obj), obj.GetName(), c.Store.Patch(ctx, obj, patch, opts...))
}

// strategic: simstore applies a strategic merge patch as if it were a JSON merge patch. The API server does not:
// lists with a merge key (the `webhooks` of a webhook configuration: by `name`) are merged entry by entry, entries
// the patch does not name are KEPT. Compute what the API server would store (k8s.io/apimachinery strategicpatch on
// the typed object, against the object as stored right now - after whatever another writer does in the window of
// this call) and hand that to simstore as the JSON merge patch that produces it.
func (c *c20Client) strategic(obj client.Object, patch client.Patch) client.Patch {
	st := c.Store
	if st.Crashed() {
		return patch
	}
	gvk, err := st.GroupVersionKindFor(obj)
	if err != nil {
		return patch
	}
	typed, err := st.Scheme().New(gvk)
	if err != nil {
		return patch // not a typed object: no merge keys known
	}
	data, err := patch.Data(obj)
	if err != nil {
		return patch
	}
	if c.pre != nil {
		c.pre(st.Calls)
	}
	cur := st.Peek(gvk.GroupKind(), obj.GetNamespace(), obj.GetName())
	if cur == nil {
		return patch
	}
	orig, err := json.Marshal(cur.Object)
	if err != nil {
		return patch
	}
	merged, err := strategicpatch.StrategicMergePatch(orig, data, typed)
	if err != nil {
		return patch
	}
	return client.RawPatch(types.MergePatchType, merged)
}

func (c *c20Client) Delete(ctx context.Context, obj client.Object, opts ...client.DeleteOption) error {
	n0 := len(c.Store.Log)
	return c.fix(n0, c.gk(obj), obj.GetName(), c.Store.Delete(ctx, obj, opts...))
}

type c20SubWriter struct {
	client.SubResourceWriter
	c *c20Client
}

func (w c20SubWriter) Update(ctx context.Context, obj client.Object, opts ...client.SubResourceUpdateOption) error {
	n0 := len(w.c.Store.Log)
	return w.c.fix(n0, w.c.gk(obj), obj.GetName(), w.SubResourceWriter.Update(ctx, obj, opts...))
}

func (w c20SubWriter) Patch(ctx context.Context, obj client.Object, patch client.Patch, opts ...client.SubResourcePatchOption) error {
	n0 := len(w.c.Store.Log)
	return w.c.fix(n0, w.c.gk(obj), obj.GetName(), w.SubResourceWriter.Patch(ctx, obj, patch, opts...))
}

func (c *c20Client) Status() client.SubResourceWriter {
	return c20SubWriter{c.Store.Status(), c}
}

// ---------------------------------------------------------------- realising another writer

func c20SameJSON(a, b any) bool { return mustJSON(a) == mustJSON(b) }

// touch records that another writer changed an object during the current run.
func (w *c20World) touch(key string) {
	if w.touched == nil {
		w.touched = map[string]bool{}
	}
	w.touched[key] = true
}

// applyPeer performs the writes of another client out of band (no API call of ours): a missing object is
// created, an existing one replaced (new resourceVersion) unless it already has exactly that content.
func (w *c20World) applyPeer(s *c20Scn, p *c20Peer, steps []c20Step) {
	st := w.st
	w.adoptStored(s.NS)
	last := map[string]int{}
	for i, x := range p.Secrets {
		last[x.Name] = i
	}
	cas, leaves := c20Leaves(steps)
	for i, x := range p.Secrets {
		if last[x.Name] != i {
			continue // net effect of the peer's writes in this window
		}
		data := w.secretData(x)
		if u := st.Peek(c20GKSecret, s.NS, x.Name); u == nil {
			w.seedSecret(s.NS, x)
			w.touch("S/" + x.Name)
		} else {
			cur := &corev1.Secret{}
			c20From(u, cur)
			if c20SameJSON(w.secretOf(cur), x) {
				continue // same content: no write, no new resourceVersion
			}
			w.touch("S/" + x.Name)
			st.Mutate(c20GKSecret, s.NS, x.Name, func(u *unstructured.Unstructured) {
				d := map[string]any{}
				for k, v := range data {
					d[k] = base64.StdEncoding.EncodeToString(v)
				}
				if len(d) == 0 {
					delete(u.Object, "data")
				} else {
					u.Object["data"] = d
				}
				u.SetLabels(c20Extra(x.Meta))
			})
		}
		// a leaf the peer issued while a complete CA is stored and that verifies against it must keep verifying
		if ls, ok := leaves[x.Name]; ok && !cas[x.Name] && x.Crt != nil {
			caName := c20CAOf(steps, x.Name)
			if cu := st.Peek(c20GKSecret, s.NS, caName); cu != nil {
				ca := &corev1.Secret{}
				c20From(cu, ca)
				su := st.Peek(c20GKSecret, s.NS, x.Name)
				sec := &corev1.Secret{}
				c20From(su, sec)
				if _, complete := c20SecretMaterial(ca); complete && w.leafChains(st, s.NS, sec, caName, ls) == "" {
					if _, mine := w.issued[x.Name]; !mine {
						w.issued[x.Name] = "the peer"
					}
				}
			}
		}
	}
	for _, op := range p.Ops {
		w.applyOp(s, op)
	}
}

// applyOp: one change of an object other than a secret's content. A put* of an object that already has exactly
// that (abstract) content is no write.
func (w *c20World) applyOp(s *c20Scn, op c20Op) {
	st := w.st
	cur := w.canon(s)
	switch op.T {
	case "putPkg":
		for _, p := range cur.Pkgs {
			if p.Kind == op.Pkg.Kind && p.Name == op.Pkg.Name && p.Raw == op.Pkg.Raw && p.Extra == op.Pkg.Extra {
				return
			}
		}
		st.Remove(c20PkgGK[op.Pkg.Kind], "", op.Pkg.Name)
		w.seedPkg(*op.Pkg)
		w.touch(op.Pkg.Kind + "/" + op.Pkg.Name)
	case "delPkg":
		st.Remove(c20PkgGK[op.Kind], "", op.Name)
		w.touch(op.Kind + "/" + op.Name)
	case "putCrd":
		for _, c := range cur.Crds {
			if c.Name == op.Crd.Name && c20SameJSON(c, *op.Crd) {
				return
			}
		}
		st.Remove(c20GKCRD, "", op.Crd.Name)
		w.seedCrd(*op.Crd)
		w.touch("CRD/" + op.Crd.Name)
	case "delCrd":
		st.Remove(c20GKCRD, "", op.Name)
		w.touch("CRD/" + op.Name)
	case "putWhc":
		for _, c := range cur.Whcs {
			if c.Kind == op.Whc.Kind && c.Name == op.Whc.Name && c20SameJSON(c, *op.Whc) {
				return
			}
		}
		gk := c20GKV
		if op.Whc.Kind == "M" {
			gk = c20GKM
		}
		st.Remove(gk, "", op.Whc.Name)
		w.seedWhc(*op.Whc)
		w.touch(op.Whc.Kind + "/" + op.Whc.Name)
	case "delWhc":
		gk := c20GKV
		if op.Kind == "M" {
			gk = c20GKM
		}
		st.Remove(gk, "", op.Name)
		w.touch(op.Kind + "/" + op.Name)
	case "putCr":
		group, kind, _, _ := c20CrdParts(op.Cr.Crd)
		st.Remove(schema.GroupKind{Group: group, Kind: kind}, "", op.Cr.Name)
		w.seedCr(*op.Cr)
		w.touch("CR/" + op.Cr.Crd + "/" + op.Cr.Name)
	case "delCr":
		group, kind, _, _ := c20CrdParts(op.Kind)
		st.Remove(schema.GroupKind{Group: group, Kind: kind}, "", op.Name)
		w.touch("CR/" + op.Kind + "/" + op.Name)
	case "lock":
		if (cur.Lock == nil) == (op.N == nil) && (op.N == nil || *cur.Lock == *op.N) {
			return
		}
		st.Remove(c20GKLock, "", "lock")
		if op.N != nil {
			w.seedLock(*op.N)
		}
		w.touch("L")
	case "sc":
		if (cur.SC == nil) == (op.SC == nil) && (op.SC == nil || *cur.SC == *op.SC) {
			return
		}
		st.Remove(c20GKSC, "", "default")
		if op.SC != nil {
			w.seedSC(*op.SC)
		}
		w.touch("SC")
	case "drc":
		if (cur.DRC == nil) == (op.N == nil) && (op.N == nil || *cur.DRC == *op.N) {
			return
		}
		st.Remove(c20GKDRC, "", "default")
		if op.N != nil {
			w.seedDRC(*op.N)
		}
		w.touch("DRC")
	case "delSecret":
		st.Remove(c20GKSecret, s.NS, op.Name)
		w.touch("S/" + op.Name)
	}
}

// ---------------------------------------------------------------- generating another writer

// c20DiffStore: the writes that turn cluster a into cluster b (b = a after an initialiser ran: nothing is deleted).
func c20DiffStore(a, b c20Store) ([]c20Secret, []c20Op) {
	secs, ops := []c20Secret{}, []c20Op{}
	for _, x := range b.Secrets {
		if e := c20FindSecret(a.Secrets, x.Name); e == nil || !c20SameJSON(*e, x) {
			secs = append(secs, x)
		}
	}
	for i := range b.Pkgs {
		x := b.Pkgs[i]
		same := false
		for _, e := range a.Pkgs {
			same = same || (e.Kind == x.Kind && e.Name == x.Name && e.Raw == x.Raw && e.Extra == x.Extra)
		}
		if !same {
			ops = append(ops, c20Op{T: "putPkg", Pkg: &c20Pkg{Kind: x.Kind, Name: x.Name, Raw: x.Raw, Extra: x.Extra}})
		}
	}
	for i := range b.Crds {
		x := b.Crds[i]
		same := false
		for _, e := range a.Crds {
			same = same || (e.Name == x.Name && c20SameJSON(e, x))
		}
		if !same {
			ops = append(ops, c20Op{T: "putCrd", Crd: &x})
		}
	}
	for i := range b.Whcs {
		x := b.Whcs[i]
		same := false
		for _, e := range a.Whcs {
			same = same || (e.Kind == x.Kind && e.Name == x.Name && c20SameJSON(e, x))
		}
		if !same {
			ops = append(ops, c20Op{T: "putWhc", Whc: &x})
		}
	}
	if b.Lock != nil && (a.Lock == nil || *a.Lock != *b.Lock) {
		n := *b.Lock
		ops = append(ops, c20Op{T: "lock", N: &n})
	}
	if b.SC != nil && (a.SC == nil || *a.SC != *b.SC) {
		x := *b.SC
		ops = append(ops, c20Op{T: "sc", SC: &x})
	}
	if b.DRC != nil && (a.DRC == nil || *a.DRC != *b.DRC) {
		n := *b.DRC
		ops = append(ops, c20Op{T: "drc", N: &n})
	}
	return secs, ops
}

// c20OtherVersion: the step list of the pod of ANOTHER release (rolling update): other package versions,
// other CRD contents.
func c20OtherVersion(steps []c20Step) []c20Step {
	b, _ := json.Marshal(steps)
	var out []c20Step
	_ = json.Unmarshal(b, &out)
	for i := range out {
		st := &out[i]
		for _, l := range []*[]c20Img{&st.P, &st.C, &st.F} {
			for j := range *l {
				if c20Parse((*l)[j].Img) != nil {
					(*l)[j] = c20Img{Img: c20WrittenName((*l)[j].Img) + ":v9.9.9"}
				}
			}
		}
		if st.Dir != nil && st.T == "crds" {
			for j := range st.Dir.Objs {
				if c := st.Dir.Objs[j].Crd; c != nil {
					c.Content += 10
				}
			}
		}
	}
	return out
}

// c20PeerInit: what a concurrent initialiser writes when it finds cluster `at`: the REAL steps run on a world
// seeded with `at` (key pair ids from 50 on), completely (stop < 0) or crashing after its API call number `stop`.
func c20PeerInit(s *c20Scn, at c20Store, steps []c20Step, stop int) ([]c20Secret, []c20Op) {
	sub := &c20Scn{Kind: "steps", NS: s.NS, Steps: steps, Store: at, Fresh: 50}
	sub = c20CloneScn(sub)
	w := c20NewWorld(sub)
	var junk []Mon
	run := c20Run{K: -1}
	if stop >= 0 {
		run = c20Run{K: stop, O: "crashAfter"}
	}
	res := w.runOnce(sub, -1, run, &junk)
	return c20DiffStore(c20CloneScn(sub).Store, res.obs.Store)
}

func c20Protected(cas map[string]bool, x c20Secret) bool {
	if cas[x.Name] {
		return x.Crt != nil && x.Key != nil
	}
	return x.Crt != nil || x.Key != nil || x.CA != nil
}

// c20UserOps: another client (a user, another controller, the garbage collector) acting on the object our call
// `line` ("verb:kind:name") is about: it creates the object we are about to create, deletes or edits the one
// we are about to patch / update / read. It never rewrites a protected secret (a complete CA, a certificate
// secret holding material): that is the rely of the theorems about the TLS material.
func c20UserOps(r *Rng, at c20Store, steps []c20Step, line string) ([]c20Secret, []c20Op) {
	secs, ops := []c20Secret{}, []c20Op{}
	p := strings.SplitN(line, ":", 3)
	if len(p) != 3 {
		return secs, ops
	}
	verb, kind, name := p[0], p[1], p[2]
	cas, _ := c20Leaves(steps)
	intp := func(n int) *int { return &n }
	switch kind {
	case "P", "C", "F":
		var cur *c20Pkg
		for i := range at.Pkgs {
			if at.Pkgs[i].Kind == kind && at.Pkgs[i].Name == name {
				cur = &at.Pkgs[i]
			}
		}
		switch {
		case verb == "list":
			// somebody installs one of the requested images under a name of their own / removes a package
			for _, st := range steps {
				if st.T != "install" {
					continue
				}
				l := map[string][]c20Img{"P": st.P, "C": st.C, "F": st.F}[kind]
				if len(l) > 0 {
					im := Pick(r, l)
					if c20Parse(im.Img) != nil {
						ops = append(ops, c20Op{T: "putPkg", Pkg: &c20Pkg{Kind: kind, Name: Pick(r, []string{"their-own", "zz-late", "a-first"}), Raw: c20WrittenName(im.Img) + Pick(r, c20Tags), Extra: 2}})
					}
				}
			}
			if len(ops) == 0 || r.Chance(1, 3) {
				for _, q := range at.Pkgs {
					if q.Kind == kind && r.Bool() {
						ops = append(ops, c20Op{T: "delPkg", Kind: kind, Name: q.Name})
						break
					}
				}
			}
		case cur == nil:
			ops = append(ops, c20Op{T: "putPkg", Pkg: &c20Pkg{Kind: kind, Name: name, Raw: c20GenImg(r), Extra: 1 + r.Intn(3)}})
		case r.Bool():
			ops = append(ops, c20Op{T: "delPkg", Kind: kind, Name: name})
		default:
			ops = append(ops, c20Op{T: "putPkg", Pkg: &c20Pkg{Kind: kind, Name: name, Raw: c20WrittenName(cur.Raw) + Pick(r, c20Tags), Extra: cur.Extra + 1}})
		}
	case "CRD":
		var cur *c20Crd
		for i := range at.Crds {
			if at.Crds[i].Name == name {
				cur = &at.Crds[i]
			}
		}
		switch {
		case cur == nil:
			ops = append(ops, c20Op{T: "putCrd", Crd: &c20Crd{Name: name, Content: 7, Versions: []c20Ver{{N: "v1", S: true}}, Stored: []string{"v1"}, Extra: 2}})
		case r.Chance(1, 3):
			ops = append(ops, c20Op{T: "delCrd", Name: name})
		default:
			x := *cur
			switch r.Intn(4) {
			case 0:
				x.Extra++
			case 1:
				x.Content = 8
			case 2:
				x.Stored = append([]string{"v0"}, x.Stored...)
			default:
				if x.Conv {
					x.Bundle = &c20Blob{T: "j", N: 6}
				} else {
					x.Extra += 2
				}
			}
			ops = append(ops, c20Op{T: "putCrd", Crd: &x})
		}
	case "V", "M":
		var cur *c20Whc
		for i := range at.Whcs {
			if at.Whcs[i].Kind == kind && at.Whcs[i].Name == name {
				cur = &at.Whcs[i]
			}
		}
		switch {
		case cur == nil:
			ops = append(ops, c20Op{T: "putWhc", Whc: &c20Whc{Kind: kind, Name: name, Hooks: []c20Hook{{Name: "theirs.example.org", Svc: c20Svc{Name: "x", NS: "y", Port: 1}}}, Extra: 3}})
		case r.Chance(1, 3):
			ops = append(ops, c20Op{T: "delWhc", Kind: kind, Name: name})
		default:
			x := *cur
			x.Extra++
			x.Hooks = append([]c20Hook{}, x.Hooks...)
			if len(x.Hooks) > 0 && r.Bool() {
				x.Hooks[0].Bundle = &c20Blob{T: "j", N: 6}
			}
			ops = append(ops, c20Op{T: "putWhc", Whc: &x})
		}
	case "CR":
		if verb == "patch" {
			for _, c := range at.Crs {
				if c.Name == name {
					if r.Bool() {
						ops = append(ops, c20Op{T: "delCr", Kind: c.Crd, Name: c.Name})
					} else {
						ops = append(ops, c20Op{T: "putCr", Cr: &c20Cr{Crd: c.Crd, Name: c.Name, Payload: c.Payload + 1}})
					}
					break
				}
			}
		}
	case "L":
		if at.Lock == nil {
			ops = append(ops, c20Op{T: "lock", N: intp(1 + r.Intn(2))})
		} else if r.Bool() {
			ops = append(ops, c20Op{T: "lock"})
		} else {
			ops = append(ops, c20Op{T: "lock", N: intp(*at.Lock + 1)})
		}
	case "SC":
		if at.SC == nil {
			ops = append(ops, c20Op{T: "sc", SC: &c20SC{Scope: "their-scope", Extra: 2}})
		} else if r.Bool() {
			ops = append(ops, c20Op{T: "sc"})
		} else {
			ops = append(ops, c20Op{T: "sc", SC: &c20SC{Scope: at.SC.Scope, Extra: at.SC.Extra + 1}})
		}
	case "DRC":
		if at.DRC == nil {
			ops = append(ops, c20Op{T: "drc", N: intp(2)})
		} else if r.Bool() {
			ops = append(ops, c20Op{T: "drc"})
		} else {
			ops = append(ops, c20Op{T: "drc", N: intp(*at.DRC + 1)})
		}
	case "S":
		cur := c20FindSecret(at.Secrets, name)
		switch {
		case cur == nil:
			secs = append(secs, c20Secret{Name: name, Meta: 1 + r.Intn(2)}) // an empty placeholder
		case !c20Protected(cas, *cur):
			if r.Bool() {
				ops = append(ops, c20Op{T: "delSecret", Name: name})
			} else {
				x := *cur
				x.Meta++
				secs = append(secs, x)
			}
		}
	}
	// now and then something unrelated on top
	if r.Chance(1, 4) {
		switch r.Intn(3) {
		case 0:
			if at.DRC != nil {
				ops = append(ops, c20Op{T: "drc", N: intp(*at.DRC + 5)})
			}
		case 1:
			if at.Lock != nil {
				ops = append(ops, c20Op{T: "lock", N: intp(*at.Lock + 2)})
			}
		default:
			ops = append(ops, c20Op{T: "putCrd", Crd: &c20Crd{Name: "things.example.org", Content: 5, Versions: []c20Ver{{N: "v1", S: true}}, Stored: []string{"v1"}, Extra: 4}})
		}
	}
	return secs, ops
}

// c20AddWriter lets another writer act during run number i of the scenario, right before one of our calls
// (preferably a write, or the read a write depends on). mode: "init" = a concurrent initialiser of the same or
// of another release that has completed, or has crashed after some of its calls; "user" = c20UserOps.
func c20AddWriter(r *Rng, s *c20Scn, i int, mode string) bool {
	if i >= len(s.Runs) {
		return false
	}
	s2 := c20CloneScn(s)
	s2.Peer = nil
	s2.Runs = append(append([]c20Run{}, s.Runs[:i]...), s.Runs[i])
	obs, _ := c20RunScn(s2)
	log := obs.Runs[i].Log
	if len(log) == 0 {
		return false
	}
	// our writes, and the reads they depend on; those that are not about a secret (the TLS steps have a peer of their own)
	writes, deps, writesO, depsO := []int{}, []int{}, []int{}, []int{}
	for k, l := range log {
		sec := strings.Contains(l, ":S:")
		switch {
		case strings.HasPrefix(l, "create:"), strings.HasPrefix(l, "update:"), strings.HasPrefix(l, "patch"):
			writes = append(writes, k)
			if !sec {
				writesO = append(writesO, k)
			}
			if k > 0 && strings.HasPrefix(log[k-1], "get:") {
				deps = append(deps, k-1)
				if !sec {
					depsO = append(depsO, k-1)
				}
			}
		case strings.HasPrefix(l, "list:"):
			deps = append(deps, k)
			depsO = append(depsO, k)
		}
	}
	if len(writesO) > 0 && r.Chance(2, 3) {
		writes = writesO
	}
	if len(depsO) > 0 && r.Chance(2, 3) {
		deps = depsO
	}
	k := r.Intn(len(log))
	switch x := r.Intn(6); {
	case x < 3 && len(writes) > 0:
		k = Pick(r, writes)
	case x < 5 && len(deps) > 0:
		k = Pick(r, deps)
	}
	at := c20StateBefore(s, i, k)
	steps := (&c20World{}).stepsOf(s)
	var secs []c20Secret
	var ops []c20Op
	who := mode
	switch mode {
	case "init":
		psteps := steps
		if r.Chance(1, 4) {
			psteps = c20OtherVersion(steps)
		}
		stop := -1
		if r.Chance(1, 3) {
			stop = r.Intn(len(log) + 1)
		}
		secs, ops = c20PeerInit(s, at, psteps, stop)
	default:
		secs, ops = c20UserOps(r, at, steps, log[k])
	}
	if len(secs)+len(ops) == 0 {
		return false
	}
	s.Peer = append(s.Peer, c20Peer{Run: i, Before: k, Secrets: secs, Ops: ops, Who: who})
	c20Normalize(s)
	return true
}

// c20StateBefore: the cluster right before call k of run i (with the run's own fault plan in place).
func c20StateBefore(s *c20Scn, i, k int) c20Store {
	s3 := c20CloneScn(s)
	s3.Peer = nil
	s3.Runs = append([]c20Run{}, s3.Runs[:i+1]...)
	s3.Runs[i].stop = k + 1
	obs3, _ := c20RunScn(s3)
	return obs3.Runs[i].Store
}

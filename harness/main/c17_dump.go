//go:build verif

package main

// C17 regenerated facts (tie "a"): the ordered call skeleton of every Go function the C17
// model mirrors, extracted with go/ast (skel.go) from the CURRENT tree on every check run and
// written to lean/Xp/Gen/C17Skel.lean. lean/Xp/Model/C17Skel.lean declares, entry by entry,
// the skeleton the model's definitions mirror; lean/Xp/Props/C17.lean states their equality
// (`skeleton_*`, by decide): inserting, removing or reordering a call (or an early return of
// the DAG / lock-node methods) in one of these functions breaks an obligation before any
// scenario is run.

import "strings"

const (
	c17FileDag  = "internal/dag/dag.go"
	c17FileUpg  = "internal/dag/upgrading_dag.go"
	c17FileLock = "apis/pkg/v1beta1/lock.go"
	c17FileRec  = "internal/controller/pkg/resolver/reconciler.go"
	c17FileDep  = "internal/controller/pkg/revision/dependency.go"
	c17FileName = "internal/xpkg/name.go"
)

func init() {
	RegisterDump("C17Skel", func() string {
		var sb strings.Builder
		// DAG methods and the dag.Node implementations: the Node / DAG interface methods, the two
		// recursive helpers, the error constructors and every return (early exits are the
		// structure of these small functions).
		dagVerbs := SkelVerbs("AddNode", "AddNodes", "AddEdge", "AddEdges", "Identifier", "Neighbors",
			"AddNeighbors", "AddParentConstraints", "GetParentConstraints", "GetConstraints",
			"traceNode", "visit", "Errorf", "New", "NewConstraint", "NewVersion", "Check")
		delete(dagVerbs, "Get") // no client in these files
		dag := SkelOpts{Verbs: dagVerbs, DropRecv: true, Returns: true, Idents: map[string]bool{"isValidConstraints": true}}
		for _, t := range []struct{ lean, file, recv string }{
			{"c17SkelDag", c17FileDag, "MapDag"},
			{"c17SkelUpg", c17FileUpg, "MapUpgradingDag"},
		} {
			for _, fn := range []string{"Init", "AddNodes", "AddNode", "AddOrUpdateNodes", "NodeExists", "TraceNode", "traceNode", "GetNode", "AddEdges", "AddEdge", "Sort", "visit"} {
				name := strings.ToUpper(fn[:1]) + fn[1:]
				if fn == "traceNode" {
					name = "TraceNodeRec"
				}
				if fn == "visit" {
					name = "Visit"
				}
				sb.WriteString(SkelDef(t.lean+name, t.file, t.recv, fn, dag))
			}
		}
		sb.WriteString(SkelDef("c17SkelIsValidConstraints", c17FileUpg, "", "isValidConstraints", dag))
		sb.WriteString(SkelDef("c17SkelToNodes", c17FileLock, "", "ToNodes", dag))
		for _, fn := range []string{"Identifier", "GetConstraints", "GetParentConstraints", "AddParentConstraints", "Neighbors", "AddNeighbors"} {
			sb.WriteString(SkelDef("c17SkelLockPackage"+fn, c17FileLock, "LockPackage", fn, dag))
			sb.WriteString(SkelDef("c17SkelDependency"+fn, c17FileLock, "Dependency", fn, dag))
		}

		// resolver: client verbs, the finalizer, the DAG, reference parsing, the selection
		// functions and what they call in the two libraries and in the fetcher / config store.
		rec := SkelOpts{Verbs: SkelVerbs("RemoveFinalizer", "AddFinalizer", "CleanConditions", "SetConditions",
			"newDag", "Init", "ToNodes", "Sort", "ParseReference", "GetString", "SetString", "Identifier",
			"findDependencyVersionToInstall", "findDependencyVersionToUpdate", "checkExistingPackage", "GetNode",
			"IsAlreadyExists", "IsConflict", "IgnoreNotFound", "Enabled", "HasPrefix",
			"NewHash", "NewConstraint", "NewVersion", "MustParse", "Check", "PullSecretFor", "Tags", "Sort",
			"Original", "GreaterThan", "Equal", "GetParentConstraints", "ToDNSLabel", "RepositoryStr",
			"SetName", "SetAPIVersion", "SetKind", "Deref"),
			DropRecv: true,
			Idents:   map[string]bool{"NewPackageList": true, "NewPackage": true, "findDigestToUpdate": true}}
		sb.WriteString(SkelDef("c17SkelReconcile", c17FileRec, "Reconciler", "Reconcile", rec))
		sb.WriteString(SkelDef("c17SkelFindInstall", c17FileRec, "Reconciler", "findDependencyVersionToInstall", rec))
		sb.WriteString(SkelDef("c17SkelCheckExisting", c17FileRec, "Reconciler", "checkExistingPackage", rec))
		sb.WriteString(SkelDef("c17SkelFindUpdate", c17FileRec, "Reconciler", "findDependencyVersionToUpdate", rec))
		sb.WriteString(SkelDef("c17SkelFindDigest", c17FileRec, "", "findDigestToUpdate", rec))
		sb.WriteString(SkelDef("c17SkelNewPackage", c17FileRec, "", "NewPackage", rec))
		sb.WriteString(SkelDef("c17SkelNewPackageList", c17FileRec, "", "NewPackageList", rec))

		// revision: PackageDependencyManager
		dep := SkelOpts{Verbs: SkelVerbs("GetDesiredState", "GetDependencies", "ParseReference", "newDag", "Init", "ToNodes",
			"ParsePackageSourceFromReference", "RemoveSelf", "AddOrUpdateNodes", "NodeExists", "TraceNode", "GetNode",
			"Identifier", "GetSource", "NewHash", "NewConstraint", "NewVersion", "Check", "IsNotFound"),
			DropRecv: true}
		sb.WriteString(SkelDef("c17SkelResolve", c17FileDep, "PackageDependencyManager", "Resolve", dep))
		sb.WriteString(SkelDef("c17SkelRemoveSelf", c17FileDep, "PackageDependencyManager", "RemoveSelf", dep))

		// xpkg: the glue that derives a lock package's Source from a parsed reference
		src := SkelOpts{Verbs: map[string]bool{"Cut": true, "LastIndex": true, "String": true}, Returns: true}
		sb.WriteString(SkelDef("c17SkelParseSource", c17FileName, "", "ParsePackageSourceFromReference", src))
		return sb.String()
	})
}

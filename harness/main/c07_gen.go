//go:build verif

package main

// C07 scenario generator. Every random choice comes from the run's Rng.
//
// Markers: values owned by one side carry a recognisable prefix so that the
// monitors can also find a leak by scanning (independently of key tables):
//   cm-only-*  claim-only machinery values      xr-only-*  XR-only machinery values
//   cms-*      claim status machinery            xrs-*      XR status machinery
//   cu-*       claim user spec values            xu-*       XR-side user spec values (not from the claim)
//   xus-*      XR user status values             cus-*      stale claim user status values

import (
	"encoding/json"
	"fmt"

	"k8s.io/apiextensions-apiserver/pkg/apis/apiextensions"
	extv1 "k8s.io/apiextensions-apiserver/pkg/apis/apiextensions/v1"
	structuralschema "k8s.io/apiextensions-apiserver/pkg/apiserver/schema"
	"k8s.io/apiextensions-apiserver/pkg/apiserver/schema/pruning"
	metav1 "k8s.io/apimachinery/pkg/apis/meta/v1"
	"k8s.io/apimachinery/pkg/runtime"

	v1 "github.com/crossplane/crossplane/apis/apiextensions/v1"
	"github.com/crossplane/crossplane/internal/xcrd"
)

// The XRD author's schema. Top-level names deliberately collide with machinery
// names of OTHER levels (status machinery names as spec fields, spec machinery
// names as status fields and as nested fields).
const c07AuthorSchema = `{
 "type":"object",
 "properties":{
  "spec":{"type":"object","properties":{
    "size":{"type":"integer"},
    "region":{"type":"string"},
    "enabled":{"type":"boolean"},
    "tags":{"type":"array","items":{"type":"string"}},
    "params":{"type":"object","x-kubernetes-preserve-unknown-fields":true},
    "strict":{"type":"object","properties":{
        "a":{"type":"string"},"b":{"type":"integer"},
        "resourceRef":{"type":"object","x-kubernetes-preserve-unknown-fields":true},
        "claimRef":{"type":"string"}}},
    "conditions":{"type":"object","x-kubernetes-preserve-unknown-fields":true},
    "connectionDetails":{"type":"string"},
    "status":{"type":"object","x-kubernetes-preserve-unknown-fields":true},
    "metadata":{"type":"object","x-kubernetes-preserve-unknown-fields":true},
    "resourceref":{"type":"object","x-kubernetes-preserve-unknown-fields":true},
    "compositionRefs":{"type":"object","x-kubernetes-preserve-unknown-fields":true},
    "claim":{"type":"object","x-kubernetes-preserve-unknown-fields":true},
    "writeConnectionSecretToRefs":{"type":"object","x-kubernetes-preserve-unknown-fields":true}
  }},
  "status":{"type":"object","properties":{
    "address":{"type":"string"},
    "replicas":{"type":"integer"},
    "atProvider":{"type":"object","x-kubernetes-preserve-unknown-fields":true},
    "resourceRef":{"type":"object","x-kubernetes-preserve-unknown-fields":true},
    "claimRef":{"type":"string"},
    "compositionRef":{"type":"object","x-kubernetes-preserve-unknown-fields":true},
    "Conditions":{"type":"object","x-kubernetes-preserve-unknown-fields":true},
    "condition":{"type":"object","x-kubernetes-preserve-unknown-fields":true},
    "connectionDetailsRef":{"type":"object","x-kubernetes-preserve-unknown-fields":true}
  }}
 }
}`

// (the last four spec keys and last three status keys are case variants, prefixes and
// extensions of machinery names of the SAME level)
var c07UserKeys = []string{"conditions", "connectionDetails", "enabled", "metadata", "params", "region", "size", "status", "strict", "tags",
	"resourceref", "compositionRefs", "claim", "writeConnectionSecretToRefs"}
var c07UserStatus = []string{"address", "atProvider", "claimRef", "compositionRef", "replicas", "resourceRef",
	"Conditions", "condition", "connectionDetailsRef"}

type c07Gen struct {
	structural *structuralschema.Structural
}

func c07NewGen() *c07Gen {
	xrd := &v1.CompositeResourceDefinition{
		ObjectMeta: metav1.ObjectMeta{Name: "xthings." + c07Group},
		Spec: v1.CompositeResourceDefinitionSpec{
			Group:      c07Group,
			Names:      extv1.CustomResourceDefinitionNames{Kind: c07XRGVK.Kind, Plural: "xthings", Singular: "xthing", ListKind: "XThingList"},
			ClaimNames: &extv1.CustomResourceDefinitionNames{Kind: c07ClaimGVK.Kind, Plural: "things", Singular: "thing", ListKind: "ThingList"},
			Versions: []v1.CompositeResourceDefinitionVersion{{
				Name: "v1", Served: true, Referenceable: true,
				Schema: &v1.CompositeResourceValidation{OpenAPIV3Schema: runtime.RawExtension{Raw: []byte(c07AuthorSchema)}},
			}},
		},
	}
	crd, err := xcrd.ForCompositeResourceClaim(xrd)
	if err != nil {
		panic(err)
	}
	in := crd.Spec.Versions[0].Schema.OpenAPIV3Schema
	out := &apiextensions.JSONSchemaProps{}
	if err := extv1.Convert_v1_JSONSchemaProps_To_apiextensions_JSONSchemaProps(in, out, nil); err != nil {
		panic(err)
	}
	ss, err := structuralschema.NewStructural(out)
	if err != nil {
		panic(err)
	}
	return &c07Gen{structural: ss}
}

// Prune applies the API server's structural pruning for the generated claim CRD
// to a whole claim object (in place) and reports whether anything was removed.
func (g *c07Gen) Prune(obj map[string]any) bool {
	before := mustJSON(obj)
	pruning.Prune(obj, g.structural, true)
	return mustJSON(obj) != before
}

func (g *c07Gen) pruneSpec(spec map[string]any) (map[string]any, bool) {
	obj := map[string]any{"apiVersion": c07ClaimGVK.GroupVersion().String(), "kind": c07ClaimGVK.Kind,
		"metadata": map[string]any{"name": c07ClaimName, "namespace": c07NS}, "spec": spec}
	ch := g.Prune(obj)
	out, _ := obj["spec"].(map[string]any)
	if out == nil {
		out = map[string]any{}
	}
	return out, ch
}

func (g *c07Gen) pruneStatus(status map[string]any) (map[string]any, bool) {
	obj := map[string]any{"apiVersion": c07ClaimGVK.GroupVersion().String(), "kind": c07ClaimGVK.Kind,
		"metadata": map[string]any{"name": c07ClaimName, "namespace": c07NS}, "spec": map[string]any{}, "status": status}
	ch := g.Prune(obj)
	out, _ := obj["status"].(map[string]any)
	if out == nil {
		out = map[string]any{}
	}
	return out, ch
}

// ---------------------------------------------------------------- values

var c07NestedNames = []string{"a", "b", "name", "resourceRef", "claimRef", "resourceRefs", "writeConnectionSecretToRef",
	"compositionRef", "compositionRevisionRef", "compositeDeletePolicy", "conditions", "connectionDetails", "kubernetes.io"}

func c07Str(r *Rng, pfx string) any {
	if r.Chance(1, 8) {
		return ""
	}
	return fmt.Sprintf("%s%d", pfx, r.Intn(4))
}

func c07Int(r *Rng) any {
	if r.Chance(1, 6) {
		return int64(0)
	}
	return int64(r.Range(1, 9))
}

func c07Scalar(r *Rng, pfx string) any {
	switch r.Intn(4) {
	case 0:
		return c07Int(r)
	case 1:
		return r.Bool()
	default:
		return c07Str(r, pfx)
	}
}

// c07Free builds arbitrary nested JSON (for preserve-unknown-fields objects).
func c07Free(r *Rng, pfx string, depth int, nulls bool) any {
	if depth <= 0 {
		return c07Scalar(r, pfx)
	}
	switch r.Intn(7) {
	case 0, 1:
		return c07FreeObj(r, pfx, depth-1, nulls)
	case 2:
		n := r.Intn(3)
		l := make([]any, 0, n)
		for i := 0; i < n; i++ {
			l = append(l, c07Free(r, pfx, depth-1, false))
		}
		return l
	case 3:
		if nulls && r.Chance(1, 2) {
			return nil
		}
		return c07Scalar(r, pfx)
	default:
		return c07Scalar(r, pfx)
	}
}

func c07FreeObj(r *Rng, pfx string, depth int, nulls bool) map[string]any {
	m := map[string]any{}
	for i, n := 0, r.Intn(4); i < n; i++ {
		m[Pick(r, c07NestedNames)] = c07Free(r, pfx, depth, nulls)
	}
	return m
}

// c07UserVal builds a schema-conformant value for a top-level user spec key.
func c07UserVal(r *Rng, k, pfx string) any {
	switch k {
	case "size":
		return c07Int(r)
	case "region", "connectionDetails":
		return c07Str(r, pfx)
	case "enabled":
		return r.Bool()
	case "tags":
		n := r.Intn(3)
		l := make([]any, 0, n)
		for i := 0; i < n; i++ {
			l = append(l, fmt.Sprintf("%st%d", pfx, r.Intn(3)))
		}
		return l
	case "strict":
		m := map[string]any{}
		if r.Bool() {
			m["a"] = c07Str(r, pfx)
		}
		if r.Bool() {
			m["b"] = c07Int(r)
		}
		if r.Chance(1, 3) {
			m["resourceRef"] = c07FreeObj(r, pfx, 1, false)
		}
		if r.Chance(1, 4) {
			m["claimRef"] = c07Str(r, pfx)
		}
		if r.Chance(1, 5) {
			m["unknownNested"] = "pruned-away"
		}
		return m
	default: // params conditions status metadata: free-form objects
		return c07FreeObj(r, pfx, 2, r.Chance(1, 4))
	}
}

func c07UserStatusVal(r *Rng, k, pfx string) any {
	switch k {
	case "address", "claimRef":
		return c07Str(r, pfx)
	case "replicas":
		return c07Int(r)
	default:
		return c07FreeObj(r, pfx, 2, false)
	}
}

func c07Selector(r *Rng, pfx string) any {
	m := map[string]any{}
	for i, n := 0, r.Range(0, 2); i < n; i++ {
		m[fmt.Sprintf("sel%d", r.Intn(3))] = fmt.Sprintf("%sv%d", pfx, r.Intn(3))
	}
	return map[string]any{"matchLabels": m}
}

var c07Policies = []string{"Manual", "Automatic"}

// c07SharedVal builds a valid value of a propagated (shared) machinery key.
func c07SharedVal(r *Rng, k, pfx string) any {
	switch k {
	case "compositionRef":
		return map[string]any{"name": fmt.Sprintf("%scomp%d", pfx, r.Intn(3))}
	case "compositionRevisionRef":
		return map[string]any{"name": fmt.Sprintf("%srev%d", pfx, r.Intn(4))}
	case "compositionSelector", "compositionRevisionSelector":
		return c07Selector(r, pfx)
	case "compositionUpdatePolicy":
		return Pick(r, c07Policies)
	}
	panic("unknown shared key " + k)
}

var c07MetaKeys = []string{
	// reserved
	"kubectl.kubernetes.io/last-applied-configuration", "app.kubernetes.io/name", "kubernetes.io/arch", "foo.k8s.io/bar", "k8s.io", "xk8s.io/z", "kubernetes.io",
	// not reserved
	"example.org/kubernetes.io", "kubernetes.io.example.org/a", "team", "a/b/c", "k8s.io.x", "crossplane.io/paused", "argocd.argoproj.io/instance",
	// identity of the reserved suffix: case, trailing separators, what follows the first "/"
	"sub.k8s.io//x", "kubernetes.io/", // reserved
	"K8s.io/x", "app.Kubernetes.IO/name", "/kubernetes.io", "kubernetes.io./x", "a/k8s.io", "k8s.iox/y", // not reserved
}

func c07Meta(r *Rng, pfx string, n int) map[string]string {
	m := map[string]string{}
	for i := 0; i < n; i++ {
		m[Pick(r, c07MetaKeys)] = fmt.Sprintf("%s%d", pfx, r.Intn(3))
	}
	return m
}

const c07Time1 = "2024-01-01T00:00:00Z"
const c07Time2 = "2099-12-31T23:59:59Z"

func c07Conds(r *Rng, pfx, t string) []any {
	var l []any
	for _, ty := range []string{"Ready", "Synced", "Custom"} {
		if r.Chance(2, 3) {
			c := map[string]any{"type": ty, "status": Pick(r, []string{"True", "False", "Unknown"}), "reason": pfx + ty, "lastTransitionTime": t}
			if r.Chance(1, 3) {
				c["message"] = pfx + "msg"
			}
			l = append(l, c)
		}
	}
	if len(l) == 0 {
		l = append(l, map[string]any{"type": "Ready", "status": "False", "reason": pfx + "Ready", "lastTransitionTime": t})
	}
	return l
}

// ---------------------------------------------------------------- scenario

func c07XRRef(name string) map[string]any {
	return map[string]any{"apiVersion": c07XRGVK.GroupVersion().String(), "kind": c07XRGVK.Kind, "name": name}
}

func c07ClaimRef(claimName string) map[string]any { return c07ClaimRefNS(claimName, c07NS) }

func c07ClaimRefNS(claimName, ns string) map[string]any {
	return map[string]any{"apiVersion": c07ClaimGVK.GroupVersion().String(), "kind": c07ClaimGVK.Kind, "name": claimName, "namespace": ns}
}

// c07ClaimSpec draws a raw (unpruned) claim spec.
func (g *c07Gen) claimSpec(r *Rng) map[string]any {
	spec := map[string]any{}
	for _, k := range c07UserKeys {
		if r.Chance(2, 5) {
			spec[k] = c07UserVal(r, k, "cu-")
		}
	}
	for _, k := range []string{"compositionRef", "compositionSelector", "compositionRevisionSelector", "compositionRevisionRef"} {
		if r.Chance(1, 3) {
			spec[k] = c07SharedVal(r, k, "cu-")
		}
	}
	if r.Chance(2, 3) {
		spec["compositionUpdatePolicy"] = Pick(r, c07Policies)
	}
	if r.Chance(2, 5) {
		spec["compositeDeletePolicy"] = Pick(r, []string{"Background", "Foreground"})
	}
	if r.Chance(2, 5) {
		spec["writeConnectionSecretToRef"] = map[string]any{"name": "cm-only-secret"}
	}
	if r.Chance(1, 4) {
		spec["publishConnectionDetailsTo"] = map[string]any{"name": "cm-only-pub", "metadata": map[string]any{"labels": map[string]any{"l": "cm-only-l"}}}
	}
	// unknown top-level fields (XR-only machinery names and junk): pruned by the API server
	if r.Chance(1, 4) {
		spec["resourceRefs"] = []any{map[string]any{"apiVersion": "v1", "kind": "ConfigMap", "name": "cm-only-injected"}}
	}
	if r.Chance(1, 6) {
		spec["claimRef"] = map[string]any{"apiVersion": "v1", "kind": "Other", "name": "cm-only-forged", "namespace": "x"}
	}
	if r.Chance(1, 6) {
		spec["junk"] = c07Free(r, "cu-", 1, false)
	}
	return spec
}

func c07GenName(r *Rng, claimName string) string {
	const alpha = "bcdfghjklmnpqrstvwxz2456789"
	b := make([]byte, 5)
	for i := range b {
		b[i] = alpha[r.Intn(len(alpha))]
	}
	return claimName + "-" + string(b)
}

func (g *c07Gen) xrCtlOp(r *Rng) c07Op {
	op := c07Op{Op: "xrCtl"}
	op.SetSpec = map[string]any{}
	op.SetStatus = map[string]any{}
	if r.Chance(3, 4) {
		var refs []any
		for i, n := 0, r.Range(0, 2); i < n; i++ {
			refs = append(refs, map[string]any{"apiVersion": "nop.example.org/v1", "kind": "NopResource", "name": fmt.Sprintf("xr-only-cd%d", r.Intn(5))})
		}
		if refs == nil {
			refs = []any{}
		}
		op.SetSpec["resourceRefs"] = refs
	}
	if r.Chance(1, 3) {
		op.SetSpec["compositionRef"] = c07SharedVal(r, "compositionRef", "xs-")
	}
	if r.Chance(1, 2) {
		op.SetSpec["compositionRevisionRef"] = c07SharedVal(r, "compositionRevisionRef", "xs-")
	}
	if r.Chance(1, 8) {
		op.DelSpec = append(op.DelSpec, "compositionRevisionRef")
		delete(op.SetSpec, "compositionRevisionRef")
	}
	if r.Chance(1, 8) {
		op.SetSpec["compositionUpdatePolicy"] = Pick(r, c07Policies)
	}
	if r.Chance(1, 4) {
		op.SetSpec["writeConnectionSecretToRef"] = map[string]any{"name": fmt.Sprintf("xr-only-secret%d", r.Intn(3)), "namespace": "crossplane-system"}
	}
	if r.Chance(1, 6) {
		// another writer (or a composition function) sets a user field on the XR
		k := Pick(r, c07UserKeys)
		op.SetSpec[k] = c07UserVal(r, k, "xu-")
	}
	if r.Chance(2, 3) {
		op.SetStatus["conditions"] = c07Conds(r, "xrs-", c07Time2)
	}
	if r.Chance(1, 3) {
		op.SetStatus["connectionDetails"] = map[string]any{"lastPublishedTime": c07Time2}
	}
	if r.Chance(1, 4) {
		op.SetStatus["claimConditionTypes"] = []any{"xrs-Custom"}
	}
	for _, k := range c07UserStatus {
		if r.Chance(1, 4) {
			op.SetStatus[k] = c07UserStatusVal(r, k, "xus-")
		} else if r.Chance(1, 10) {
			op.DelStatus = append(op.DelStatus, k)
		}
	}
	if r.Chance(1, 4) {
		op.SetAnn = map[string]string{"crossplane.io/external-name": fmt.Sprintf("xr-ext%d", r.Intn(3))}
	}
	if r.Chance(1, 6) {
		op.SetLabels = map[string]string{"crossplane.io/composite": "xr-own"}
	}
	return op
}

func (g *c07Gen) editOp(r *Rng) (c07Op, bool) {
	op := c07Op{Op: "editClaim"}
	set := map[string]any{}
	for _, k := range c07UserKeys {
		switch {
		case r.Chance(1, 5):
			set[k] = c07UserVal(r, k, "cu-")
		case r.Chance(1, 5):
			op.DelSpec = append(op.DelSpec, k)
		}
	}
	for _, k := range []string{"compositionRef", "compositionSelector", "compositionRevisionSelector", "compositionRevisionRef", "compositionUpdatePolicy"} {
		switch {
		case r.Chance(1, 6):
			set[k] = c07SharedVal(r, k, "cu-")
		case r.Chance(1, 8):
			op.DelSpec = append(op.DelSpec, k)
		}
	}
	if r.Chance(1, 8) {
		set["compositeDeletePolicy"] = Pick(r, []string{"Background", "Foreground"})
	}
	if r.Chance(1, 8) {
		set["writeConnectionSecretToRef"] = map[string]any{"name": "cm-only-secret2"}
	}
	if r.Chance(1, 8) {
		set["resourceRefs"] = []any{map[string]any{"name": "cm-only-injected"}}
	}
	pruned, ch := g.pruneSpec(set)
	op.SetSpec = pruned
	if r.Chance(1, 3) {
		op.SetLabels = c07Meta(r, "cl-", r.Range(1, 2))
	}
	if r.Chance(1, 5) {
		op.DelLabels = []string{Pick(r, c07MetaKeys)}
	}
	if r.Chance(1, 3) {
		op.SetAnn = c07Meta(r, "ca-", r.Range(1, 2))
	}
	if r.Chance(1, 5) {
		op.DelAnn = []string{Pick(r, c07MetaKeys)}
	}
	if r.Chance(1, 10) {
		op.SetAnn = map[string]string{"crossplane.io/external-name": "cu-ext"}
	}
	return op, ch
}

// c07PeerNames: the other claims of the XRD (no name is a prefix of another).
var c07PeerNames = []string{"peer1-claim", "peer2-claim", "peer3-claim"}

// c07OtherNS: a second namespace; a peer there may carry the SAME name as the main claim.
const c07OtherNS = "team-b"

// Scenario draws a main claim/XR pair with its history and, half of the time, one to
// two (thorough: three) peer pairs of the same XRD with their own histories, plus a
// random interleaving. Every pair comes from the same distribution. One peer in four
// lives in another namespace, half of those under the main claim's own name.
func (g *c07Gen) Scenario(r *Rng, tier string) (c07Scn, bool) {
	s := c07Scn{UserKeys: c07UserKeys, UserStat: c07UserStatus}
	var pruned bool
	s.Claim, s.XR, s.Ops, pruned = g.pair(r, tier, c07ClaimName, c07NS)
	// XR names in use or to be generated anywhere in the scenario (XRs are cluster scoped)
	xrNames := map[string]bool{}
	namesOf := func(x *c07Obj, ops []c07Op) []string {
		var out []string
		if x != nil {
			out = append(out, x.Name)
		}
		for _, o := range ops {
			if o.Op == "sync" {
				out = append(out, o.Gen)
			}
		}
		return out
	}
	for _, n := range namesOf(s.XR, s.Ops) {
		xrNames[n] = true
	}
	if r.Chance(1, 2) {
		n := r.Range(1, 2)
		if tier == "thorough" {
			n = r.Range(1, 3)
		}
		total := len(s.Ops)
		sameNameTaken := false
		for i := 0; i < n; i++ {
			var pe c07Peer
			var ch bool
			name, ns := c07PeerNames[i], c07NS
			if r.Chance(1, 4) {
				ns = c07OtherNS
				pe.NS = ns
				if r.Bool() && !sameNameTaken {
					name = c07ClaimName
					sameNameTaken = true
				}
			}
			for {
				pe.Claim, pe.XR, pe.Ops, ch = g.pair(r, tier, name, ns)
				clash := false
				for _, n := range namesOf(pe.XR, pe.Ops) {
					clash = clash || xrNames[n]
				}
				if !clash {
					break
				}
			}
			for _, n := range namesOf(pe.XR, pe.Ops) {
				xrNames[n] = true
			}
			pruned = pruned || ch
			total += len(pe.Ops)
			s.Peers = append(s.Peers, pe)
		}
		for i := 0; i < total; i++ {
			s.Sched = append(s.Sched, r.Intn(n+1))
		}
	}
	// make every value plain JSON (int64 numbers), as a replayed corpus line would be
	b, _ := json.Marshal(s)
	var back c07Scn
	_ = json.Unmarshal(b, &back)
	return c07Normalize(back), pruned
}

// ---------------------------------------------------------------- the world of a sync

// c07XRObj: an XR as another replica of the claim controller (or a user) would create it
// for this claim: bound to the claim, with its own machinery.
func (g *c07Gen) createdXR(r *Rng, claimName, ns string) *c07Obj {
	x := c07Obj{Name: "set-by-the-harness", Labels: map[string]string{"crossplane.io/claim-name": claimName, "crossplane.io/claim-namespace": ns}}
	xs := map[string]any{"claimRef": c07ClaimRefNS(claimName, ns)}
	if r.Bool() {
		xs["resourceRefs"] = []any{map[string]any{"apiVersion": "nop.example.org/v1", "kind": "NopResource", "name": "xr-only-cd7"}}
	}
	if r.Bool() {
		xs["writeConnectionSecretToRef"] = map[string]any{"name": "xr-only-secret7", "namespace": "crossplane-system"}
	}
	if r.Chance(1, 3) {
		xs["compositionUpdatePolicy"] = Pick(r, c07Policies)
	}
	if r.Chance(1, 3) {
		xs["compositionRevisionRef"] = c07SharedVal(r, "compositionRevisionRef", "xs-")
	}
	if r.Chance(1, 3) {
		k := Pick(r, c07UserKeys)
		xs[k] = c07UserVal(r, k, "xu-")
	}
	x.Spec = xs
	if r.Bool() {
		x.Annotations = map[string]string{"crossplane.io/external-name": "xr-ext7"}
	}
	if r.Bool() {
		x.Status = map[string]any{"conditions": c07Conds(r, "xrs-", c07Time2), "address": "xus-7"}
	}
	return &x
}

func (g *c07Gen) act(r *Rng, k int, claimName, ns string) c07Act {
	a := c07Act{K: k}
	switch r.Intn(8) {
	case 0, 1, 2: // a user edits the claim
		op, _ := g.editOp(r)
		a.Act = "editClaim"
		a.SetSpec, a.DelSpec, a.SetLabels, a.DelLabels, a.SetAnn, a.DelAnn = op.SetSpec, op.DelSpec, op.SetLabels, op.DelLabels, op.SetAnn, op.DelAnn
	case 3, 4, 5: // the XR controller (or a user) writes the XR
		op := g.xrCtlOp(r)
		a.Act = "xrCtl"
		a.SetSpec, a.DelSpec, a.SetStatus, a.DelStatus, a.SetLabels, a.SetAnn = op.SetSpec, op.DelSpec, op.SetStatus, op.DelStatus, op.SetLabels, op.SetAnn
		if r.Chance(1, 3) {
			if a.SetAnn == nil {
				a.SetAnn = map[string]string{}
			}
			a.SetAnn["crossplane.io/external-name"] = fmt.Sprintf("xr-ext%d", 4+r.Intn(3))
		}
	case 6:
		a.Act = "deleteXR"
	default:
		a.Act = "createXR"
		a.XR = g.createdXR(r, claimName, ns)
	}
	return a
}

// decorate gives the sync operations of one history a world: third-party writes between
// the API calls, failing calls of every class, stale / missing cached reads.
func (g *c07Gen) decorate(r *Rng, ops []c07Op, claimName, ns string) {
	for i := range ops {
		op := &ops[i]
		switch op.Op {
		case "sync":
			if r.Chance(1, 4) {
				for j, n := 0, r.Range(1, 2); j < n; j++ {
					op.Acts = append(op.Acts, g.act(r, r.Intn(5), claimName, ns))
				}
				sortActs(op.Acts)
			}
			if r.Chance(1, 6) {
				op.Inj = []c07Inj{{K: r.Intn(5), Class: Pick(r, c07ErrClasses)}}
			}
			if r.Chance(1, 6) && i > 0 {
				op.LagCm = r.Range(1, 3)
			}
			if r.Chance(1, 5) {
				if r.Chance(1, 3) {
					op.MissXr = true
				} else if i > 0 {
					op.LagXr = r.Range(1, 3)
				}
			}
			if op.Syncer == "csa" && r.Chance(1, 2) && (op.MissXr || op.LagXr > 0) {
				op.GetCache = true
			}
		case "upgrade":
			if r.Chance(1, 3) {
				op.Inj = []c07Inj{{K: 0, Class: Pick(r, c07ErrClasses)}}
			}
		}
	}
}

func sortActs(a []c07Act) {
	for i := 1; i < len(a); i++ {
		for j := i; j > 0 && a[j].K < a[j-1].K; j-- {
			a[j], a[j-1] = a[j-1], a[j]
		}
	}
}

var c07ProbeManagers = []string{"crossplane", "apiextensions.crossplane.io/composite", "kubectl-edit", "provider-x"}

// probeOp: the upgrader against 0..5 managers in a random order, the claim manager and
// before-first-apply present or not, before-first-apply at any position.
func (g *c07Gen) probeOp(r *Rng) c07Op {
	var mf []string
	for _, m := range c07ProbeManagers {
		if r.Chance(1, 2) {
			mf = append(mf, m)
		}
	}
	if r.Chance(2, 3) {
		mf = append(mf, "apiextensions.crossplane.io/claim")
	}
	if r.Chance(1, 2) {
		mf = append(mf, "before-first-apply")
	}
	if len(mf) == 0 {
		// an object of a real cluster always has at least one manager
		mf = []string{"crossplane"}
	}
	out := make([]string, len(mf))
	for i, j := range r.Perm(len(mf)) {
		out[i] = mf[j]
	}
	op := c07Op{Op: "upgradeProbe", Mf: out}
	if r.Chance(1, 3) {
		op.Inj = []c07Inj{{K: 0, Class: Pick(r, c07ErrClasses)}}
	}
	return op
}

// pair draws one claim, its optional pre-existing XR and its history.
func (g *c07Gen) pair(r *Rng, tier, claimName, ns string) (c07Obj, *c07Obj, []c07Op, bool) {
	var s c07Scn
	pruned := false

	// ---- claim
	spec, ch := g.pruneSpec(g.claimSpec(r))
	pruned = pruned || ch
	cm := c07Obj{Name: claimName, Labels: map[string]string{}}
	if r.Chance(2, 3) {
		cm.Labels = c07Meta(r, "cl-", r.Range(1, 3))
	}
	if r.Chance(1, 8) {
		cm.Labels["crossplane.io/claim-name"] = "cl-forged"
	}
	if r.Chance(2, 3) {
		cm.Annotations = c07Meta(r, "ca-", r.Range(0, 3))
		if r.Chance(1, 5) {
			cm.Annotations["crossplane.io/external-name"] = "cu-ext"
		}
	}
	if r.Chance(1, 2) {
		raw := map[string]any{}
		if r.Chance(2, 3) {
			raw["conditions"] = c07Conds(r, "cms-", c07Time1)
		}
		if r.Chance(1, 2) {
			raw["connectionDetails"] = map[string]any{"lastPublishedTime": c07Time1}
		}
		for _, k := range c07UserStatus {
			if r.Chance(1, 4) {
				raw[k] = c07UserStatusVal(r, k, "cus-")
			}
		}
		if r.Chance(1, 6) {
			raw["unknownStatus"] = "pruned-away"
		}
		stp, ch2 := g.pruneStatus(raw)
		pruned = pruned || ch2
		cm.Status = stp
	}

	// ---- pre-existing XR
	xrName := ""
	switch r.Intn(10) {
	case 0, 1, 2, 3: // existing, bound XR
		xrName = c07GenName(r, claimName)
		x := c07Obj{Name: xrName, Labels: map[string]string{}}
		if r.Chance(3, 4) {
			x.Labels["crossplane.io/composite"] = xrName
		}
		if r.Chance(1, 2) {
			x.Labels["crossplane.io/claim-name"] = claimName
			x.Labels["crossplane.io/claim-namespace"] = ns
		}
		if r.Chance(1, 4) {
			for k, v := range c07Meta(r, "xl-", 1) {
				x.Labels[k] = v
			}
		}
		switch r.Intn(4) {
		case 0:
		case 1:
			x.Annotations = map[string]string{"crossplane.io/external-name": "xr-ext"}
		case 2:
			x.Annotations = c07Meta(r, "xa-", r.Range(1, 2))
		default:
			x.Annotations = c07Meta(r, "xa-", r.Range(0, 1))
			x.Annotations["crossplane.io/external-name"] = "xr-ext"
		}
		xs := map[string]any{}
		if r.Chance(4, 5) {
			xs["claimRef"] = c07ClaimRefNS(claimName, ns)
		}
		if r.Chance(3, 4) {
			xs["resourceRefs"] = []any{map[string]any{"apiVersion": "nop.example.org/v1", "kind": "NopResource", "name": "xr-only-cd0"}}
		}
		if r.Chance(1, 2) {
			xs["compositionRef"] = c07SharedVal(r, "compositionRef", "xs-")
		}
		if r.Chance(3, 5) {
			xs["compositionRevisionRef"] = c07SharedVal(r, "compositionRevisionRef", "xs-")
		}
		if r.Chance(2, 3) {
			xs["compositionUpdatePolicy"] = Pick(r, c07Policies)
		}
		if r.Chance(1, 4) {
			xs["compositionSelector"] = c07Selector(r, "xs-")
		}
		if r.Chance(1, 5) {
			xs["compositionRevisionSelector"] = c07Selector(r, "xs-")
		}
		if r.Chance(3, 5) {
			xs["writeConnectionSecretToRef"] = map[string]any{"name": "xr-only-secret", "namespace": "crossplane-system"}
		}
		if r.Chance(1, 4) {
			xs["publishConnectionDetailsTo"] = map[string]any{"name": "xr-only-pub"}
		}
		for _, k := range c07UserKeys {
			if r.Chance(1, 3) {
				// sometimes the claim's own value (earlier sync), sometimes something else
				if v, ok := spec[k]; ok && r.Bool() {
					xs[k] = c07Canon(v)
				} else {
					xs[k] = c07UserVal(r, k, "xu-")
				}
			}
		}
		x.Spec = xs
		if r.Chance(4, 5) {
			xst := map[string]any{}
			if r.Chance(4, 5) {
				xst["conditions"] = c07Conds(r, "xrs-", c07Time2)
			}
			if r.Chance(1, 2) {
				xst["connectionDetails"] = map[string]any{"lastPublishedTime": c07Time2}
			}
			if r.Chance(1, 3) {
				xst["claimConditionTypes"] = []any{"xrs-Custom"}
			}
			for _, k := range c07UserStatus {
				if r.Chance(1, 3) {
					xst[k] = c07UserStatusVal(r, k, "xus-")
				}
			}
			x.Status = xst
		}
		s.XR = &x
		spec["resourceRef"] = c07XRRef(xrName)
		if r.Chance(1, 8) {
			// the reference was written under another version / kind of the XRD (the identity
			// of a reference is apiVersion, kind and name, not the name alone)
			ref := c07XRRef(xrName)
			if r.Bool() {
				ref["apiVersion"] = c07Group + "/v1alpha1"
			} else {
				ref["kind"] = "XThingOld"
			}
			spec["resourceRef"] = ref
		}
	case 4: // the claim references an XR that does not exist (any more)
		spec["resourceRef"] = c07XRRef(c07GenName(r, claimName))
	default: // first sync, nothing exists
	}
	cm.Spec = spec

	// ---- malformed stream
	mal := ""
	if r.Chance(1, 40) {
		switch r.Intn(3) {
		case 0:
			cm.Spec = nil
			s.XR = nil
			mal = "nospec"
		case 1:
			if s.XR != nil {
				s.XR.Status = "xrs-not-an-object"
				mal = "xrstatus"
			}
		case 2:
			cm.Status = map[string]any{}
			mal = "emptystatus"
		}
	}
	_ = mal
	s.Claim = cm

	// ---- history
	mode := r.Intn(20)
	nsync := r.Range(1, 3)
	if tier == "thorough" {
		nsync = r.Range(1, 4)
	}
	syncer := func(i int) string {
		switch {
		case mode < 9:
			return "ssa"
		case mode < 17:
			return "csa"
		default: // migration: client-side first, then upgrade, then server-side
			if i == 0 {
				return "csa"
			}
			return "ssa"
		}
	}
	if mode >= 17 && nsync < 2 {
		nsync = 2
	}
	for i := 0; i < nsync; i++ {
		if i > 0 || r.Chance(1, 5) {
			if r.Chance(3, 5) {
				op, ch := g.editOp(r)
				pruned = pruned || ch
				s.Ops = append(s.Ops, op)
			}
			if r.Chance(7, 10) {
				s.Ops = append(s.Ops, g.xrCtlOp(r))
			}
		}
		if mode >= 17 && i == 1 {
			s.Ops = append(s.Ops, c07Op{Op: "upgrade"})
		}
		s.Ops = append(s.Ops, c07Op{Op: "sync", Syncer: syncer(i), Gen: c07GenName(r, claimName)})
		if r.Chance(1, 12) {
			s.Ops = append(s.Ops, g.probeOp(r))
		}
	}
	// one history in three runs in a world that is not quiet
	if r.Chance(1, 3) {
		g.decorate(r, s.Ops, claimName, ns)
	}
	return s.Claim, s.XR, s.Ops, pruned
}

// ---------------------------------------------------------------- the world, enumerated

// c07WorldEnum: for both syncers, a first sync and a re-sync (XR with its own external
// name, composed-resource references, secret reference, status; Manual or Automatic):
//   (d) every API call position 0..4 x every error class;
//   (b) every API call position 0..4 x every kind of third-party write before it;
//   (c) a second sync whose cached reads lag 1..3 operations behind (across third-party
//       writes and across the controller's own previous sync) or miss the XR, with the
//       client-side Apply's Get answered by the live store or by that same cache;
// each followed by a quiet sync (what a failed or disturbed sync leaves behind is synced
// correctly afterwards).
func c07WorldEnum(shard int, emit func(s c07Scn, cls string)) {
	idx := 0
	base := func(resync bool, pol string) (c07Obj, *c07Obj) {
		xrName := c07ClaimName + "-we000"
		spec := map[string]any{"region": "cu-eu", "params": map[string]any{"resourceRef": map[string]any{"name": "cu-nested"}},
			"compositionRevisionRef": map[string]any{"name": "cu-rev1"}, "compositionUpdatePolicy": pol,
			"writeConnectionSecretToRef": map[string]any{"name": "cm-only-secret"}, "compositeDeletePolicy": "Foreground"}
		cm := c07Obj{Name: c07ClaimName, Labels: map[string]string{"team": "cl-0", "app.kubernetes.io/name": "cl-1"},
			Annotations: map[string]string{"crossplane.io/external-name": "cu-ext", "example.org/note": "ca-0"},
			Status: map[string]any{"conditions": []any{map[string]any{"type": "Ready", "status": "False", "reason": "cms-Ready", "lastTransitionTime": c07Time1}},
				"connectionDetails": map[string]any{"lastPublishedTime": c07Time1}, "address": "cus-0"}}
		if !resync {
			cm.Spec = spec
			return cm, nil
		}
		spec["resourceRef"] = c07XRRef(xrName)
		cm.Spec = spec
		x := c07Obj{Name: xrName, Labels: map[string]string{"crossplane.io/composite": xrName, "crossplane.io/claim-name": c07ClaimName, "crossplane.io/claim-namespace": c07NS},
			Annotations: map[string]string{"crossplane.io/external-name": "xr-ext"},
			Spec: map[string]any{"claimRef": c07ClaimRef(c07ClaimName), "region": "cu-eu", "compositionUpdatePolicy": pol,
				"compositionRevisionRef": map[string]any{"name": "xs-rev1"}, "compositionRef": map[string]any{"name": "xs-comp"},
				"resourceRefs":               []any{map[string]any{"apiVersion": "nop.example.org/v1", "kind": "NopResource", "name": "xr-only-cd0"}},
				"writeConnectionSecretToRef": map[string]any{"name": "xr-only-secret", "namespace": "crossplane-system"}},
			Status: map[string]any{"conditions": []any{map[string]any{"type": "Ready", "status": "True", "reason": "xrs-Ready", "lastTransitionTime": c07Time2}},
				"connectionDetails": map[string]any{"lastPublishedTime": c07Time2}, "address": "xus-1"}}
		return cm, &x
	}
	acts := func(k int) []c07Act {
		return []c07Act{
			{K: k, Act: "editClaim", SetSpec: map[string]any{"region": "cu-edited", "size": int64(7)}, SetLabels: map[string]string{"team": "cl-edited"}},
			{K: k, Act: "xrCtl", SetSpec: map[string]any{"resourceRefs": []any{map[string]any{"apiVersion": "nop.example.org/v1", "kind": "NopResource", "name": "xr-only-cd9"}}, "compositionRevisionRef": map[string]any{"name": "xs-rev9"}},
				SetStatus: map[string]any{"address": "xus-9"}, SetAnn: map[string]string{"crossplane.io/external-name": "xr-ext9"}},
			{K: k, Act: "deleteXR"},
			{K: k, Act: "createXR", XR: &c07Obj{Name: "x", Labels: map[string]string{"crossplane.io/claim-name": c07ClaimName, "crossplane.io/claim-namespace": c07NS},
				Annotations: map[string]string{"crossplane.io/external-name": "xr-ext7"},
				Spec: map[string]any{"claimRef": c07ClaimRef(c07ClaimName), "resourceRefs": []any{map[string]any{"apiVersion": "nop.example.org/v1", "kind": "NopResource", "name": "xr-only-cd7"}}},
				Status: map[string]any{"address": "xus-7"}}},
		}
	}
	out := func(cm c07Obj, xr *c07Obj, ops []c07Op, cls string) {
		idx++
		if idx%8 != shard {
			return
		}
		s := c07Scn{UserKeys: c07UserKeys, UserStat: c07UserStatus, Claim: cm, XR: xr, Ops: ops}
		b, _ := json.Marshal(s)
		var back c07Scn
		_ = json.Unmarshal(b, &back)
		emit(c07Normalize(back), cls)
	}
	gen := c07ClaimName + "-we000"
	for _, syncer := range []string{"ssa", "csa"} {
		for _, resync := range []bool{false, true} {
			for pi, pol := range c07Policies {
				for k := 0; k < 5; k++ {
					// (d)
					for ci, class := range c07ErrClasses {
						if (ci+k)%2 != pi { // each (k, class) under one of the two policies
							continue
						}
						cm, xr := base(resync, pol)
						out(cm, xr, []c07Op{{Op: "sync", Syncer: syncer, Gen: gen, Inj: []c07Inj{{K: k, Class: class}}}, {Op: "sync", Syncer: syncer, Gen: gen}}, "world-enum/inj")
					}
					// (b)
					for _, a := range acts(k) {
						cm, xr := base(resync, pol)
						out(cm, xr, []c07Op{{Op: "sync", Syncer: syncer, Gen: gen, Acts: []c07Act{a}}, {Op: "sync", Syncer: syncer, Gen: gen}}, "world-enum/act")
					}
				}
				// (c)
				for lag := 0; lag <= 3; lag++ {
					for _, v := range []c07Op{{LagCm: lag}, {LagXr: lag}, {LagCm: lag, LagXr: lag}, {MissXr: true, LagCm: lag}} {
						if lag == 0 && !v.MissXr {
							continue
						}
						for _, cache := range []bool{false, true} {
							if cache && syncer == "ssa" {
								continue
							}
							cm, xr := base(resync, pol)
							v2 := v
							v2.Op, v2.Syncer, v2.Gen, v2.GetCache = "sync", syncer, gen, cache
							out(cm, xr, []c07Op{{Op: "sync", Syncer: syncer, Gen: gen},
								{Op: "xrCtl", SetSpec: map[string]any{"compositionRevisionRef": map[string]any{"name": "xs-rev2"}, "compositionUpdatePolicy": c07Policies[1-pi]}, SetStatus: map[string]any{"address": "xus-2"}, SetAnn: map[string]string{"crossplane.io/external-name": "xr-ext2"}},
								{Op: "editClaim", SetSpec: map[string]any{"region": "cu-edited"}, SetAnn: map[string]string{"example.org/note": "ca-1"}},
								v2, {Op: "sync", Syncer: syncer, Gen: gen}}, "world-enum/view")
						}
					}
				}
			}
		}
	}
	// (f) the upgrader against every order of {claim manager, before-first-apply, two others}
	ms := []string{"apiextensions.crossplane.io/claim", "before-first-apply", "crossplane", "apiextensions.crossplane.io/composite"}
	for mask := 1; mask < 16; mask++ {
		var sub []string
		for i, m := range ms {
			if mask&(1<<i) != 0 {
				sub = append(sub, m)
			}
		}
		for rot := 0; rot < len(sub) || rot == 0; rot++ {
			for _, rev := range []bool{false, true} {
				mf := append(append([]string{}, sub[rot:]...), sub[:rot]...)
				if rev {
					for i, j := 0, len(mf)-1; i < j; i, j = i+1, j-1 {
						mf[i], mf[j] = mf[j], mf[i]
					}
				}
				for _, class := range append([]string{""}, c07ErrClasses...) {
					if class != "" && (mask+rot)%3 != 0 {
						continue
					}
					cm, xr := base(true, "Automatic")
					op := c07Op{Op: "upgradeProbe", Mf: mf}
					if class != "" {
						op.Inj = []c07Inj{{K: 0, Class: class}}
					}
					out(cm, xr, []c07Op{op, {Op: "sync", Syncer: "ssa", Gen: gen}}, "world-enum/upgrader")
				}
			}
		}
	}
}

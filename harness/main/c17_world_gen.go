//go:build verif

package main

// C17: generator of the lock reconciler's worlds (scenario kind "recw", see c17_world.go).

import (
	"fmt"

	"github.com/google/go-containerregistry/pkg/name"

	"github.com/crossplane/crossplane/internal/xpkg"
)

// dependency identifiers: plain ones, a string prefix of another, the same repository path in
// another registry / without registry, two that collide after ToDNSLabel, two that do not parse
var c17WIds = []string{
	"xpkg.io/o/a", "xpkg.io/o/ab", "xpkg.io/o/b", "xpkg.io/o/c",
	"index.docker.io/o/a", "o/a", "xpkg.io/o/a-b", "xpkg.io/o/a.b", "xpkg.io/O/a", "xpkg.io/o/c/",
}

func c17WParse(id, registry string) (repo, label string, ok bool) {
	ref, err := name.ParseReference(id, name.WithDefaultRegistry(registry))
	if err != nil {
		return "", "", false
	}
	return ref.Context().Name(), xpkg.ToDNSLabel(ref.Context().RepositoryStr()), true
}

func c17WPlain(r *Rng) string { return fmt.Sprintf("%d.%d.%d", r.Intn(3), r.Intn(3), r.Intn(3)) }

func c17WRange(r *Rng) string {
	switch x := r.Intn(22); {
	case x < 6:
		return fmt.Sprintf(">=%d.%d.0", r.Intn(3), r.Intn(3))
	case x < 9:
		return ">" + c17WPlain(r)
	case x < 11:
		return ">=" + c17WPlain(r)
	case x < 14:
		return fmt.Sprintf("<%d.%d.0", r.Range(1, 3), r.Intn(3))
	case x < 15:
		return "<=" + c17WPlain(r)
	case x < 16:
		return "^" + c17WPlain(r)
	case x < 17:
		return fmt.Sprintf("~%d.%d", r.Intn(3), r.Intn(3))
	case x < 18:
		return ">=" + c17WPlain(r) + ", <" + fmt.Sprintf("%d.0.0", r.Range(1, 3))
	case x < 19:
		return fmt.Sprintf("%d.x", r.Intn(3))
	case x < 20:
		return Pick(r, []string{c17DigestA, c17DigestA, c17DigestB})
	case x < 21:
		return Pick(r, []string{"", "latest", "not a constraint", ">="})
	default:
		return "*"
	}
}

func c17WTagList(r *Rng) []string {
	var tags []string
	for x := 0; x < 3; x++ {
		for y := 0; y < 3; y++ {
			if r.Chance(6, 10) {
				tags = append(tags, fmt.Sprintf("%d.%d.0", x, y))
			}
		}
	}
	for i, n := 0, r.Range(0, 4); i < n; i++ {
		switch {
		case r.Chance(1, 4):
			tags = append(tags, Pick(r, []string{"latest", "main", "1.x", "v"}))
		case r.Chance(1, 3):
			tags = append(tags, c17GenTagVersion(r))
		default:
			tags = append(tags, c17WPlain(r))
		}
	}
	out := make([]string, 0, len(tags))
	for _, i := range r.Perm(len(tags)) {
		out = append(out, tags[i])
	}
	return out
}

func c17WImage(r *Rng, id, ver string) *string {
	switch x := r.Intn(40); {
	case x == 0:
		return nil
	case x == 1:
		return ptrTo(id) // no tag: the identifier is "latest"
	case x == 2:
		return ptrTo(id + ":latest")
	case x < 5:
		return ptrTo(id + "@" + Pick(r, []string{c17DigestA, c17DigestB}))
	}
	return ptrTo(id + ":" + ver)
}

func ptrTo[T any](v T) *T { return &v }

func c17WorldRandom(c *Ctx) {
	r := c.Rng
	if r.Chance(1, 7) {
		c17WorldUpdateWindow(c)
		return
	}
	s := c17WScn{Upg: r.Bool()}
	s.Down = s.Upg && r.Bool()
	s.Registry = Pick(r, []string{"", "", "xpkg.io"})
	// clean: an up-to-date cache and a reachable registry, so that a single injected error /
	// a single third-party write decides the outcome
	clean := r.Chance(1, 4)

	// identifiers of this scenario: mostly the plain ones, some exotic
	var ids []string
	used := map[string]bool{}
	m := r.Range(2, 5)
	for len(ids) < m {
		var id string
		if r.Chance(3, 4) {
			id = c17WIds[r.Intn(4)]
		} else {
			id = c17WIds[r.Intn(len(c17WIds))]
		}
		if !used[id] {
			used[id] = true
			ids = append(ids, id)
		}
	}
	kinds := map[string]string{}
	for _, id := range c17WIds {
		k := "Provider"
		switch x := r.Intn(20); {
		case x < 3:
			k = "Configuration"
		case x < 5:
			k = "Function"
		case x < 6:
			k = ""
		}
		kinds[id] = k
		s.Kinds = append(s.Kinds, [2]string{id, k})
	}

	// the Lock
	n := r.Range(1, min(3, m))
	if m > 2 && r.Chance(1, 2) {
		n = min(n, m-1) // leave something missing
	}
	density := r.Range(2, 6)
	acyclic := r.Chance(5, 6)
	var pkgs []c17Pkg
	for i := 0; i < n; i++ {
		p := c17Pkg{Name: fmt.Sprintf("p%d", i), Source: ids[i], Version: c17WPlain(r)}
		for j := 0; j < m; j++ {
			if j == i && !r.Chance(1, 30) {
				continue
			}
			if acyclic && j < n && j <= i {
				continue
			}
			if r.Chance(density, 10) {
				p.Deps = append(p.Deps, c17Dep{Pkg: ids[j], Con: c17WRange(r)})
			}
		}
		pkgs = append(pkgs, p)
	}
	if m > n && r.Chance(3, 4) { // a dependency that is not in the Lock, declared by one or two packages
		miss := ids[r.Range(n, m-1)]
		for i, cnt := 0, r.Range(1, 2); i < cnt; i++ {
			q := &pkgs[r.Intn(n)]
			q.Deps = append(q.Deps, c17Dep{Pkg: miss, Con: c17WRange(r)})
		}
	}
	if r.Chance(1, 40) { // duplicate source: Init fails
		d := pkgs[r.Intn(len(pkgs))]
		d.Name += "x"
		pkgs = append(pkgs, d)
	}
	lock := &c17WLock{Pkgs: pkgs, Fin: r.Chance(3, 4), Resolved: Pick(r, []string{"", "True", "False"})}
	switch x := r.Intn(40); {
	case clean:
	case x == 0:
		lock = nil
	case x < 3:
		lock.Pkgs = nil
	}
	s.Lock = lock
	inLock := map[string]string{}
	if lock != nil {
		for _, p := range lock.Pkgs {
			inLock[p.Source] = p.Version
		}
	}

	// installed packages
	type key struct{ kind, name string }
	have := map[key]bool{}
	addPkg := func(o c17WObj) {
		if !have[key{o.Kind, o.Name}] {
			have[key{o.Kind, o.Name}] = true
			s.Pkgs = append(s.Pkgs, o)
		}
	}
	for _, id := range ids {
		_, label, ok := c17WParse(id, s.Registry)
		if !ok || !r.Chance(map[bool]int{true: 4, false: 1}[s.Upg], 6) {
			continue
		}
		kind := kinds[id]
		if kind == "" || r.Chance(1, 8) {
			kind = Pick(r, c17PkgKinds)
		}
		nm := label
		if r.Chance(1, 6) {
			nm = "custom-" + label
		}
		ver := c17WPlain(r)
		if v, ok := inLock[id]; ok && r.Chance(5, 6) {
			ver = v
		}
		addPkg(c17WObj{Kind: kind, Name: nm, Image: c17WImage(r, id, ver)})
		if r.Chance(1, 8) { // a second package of the same repository
			addPkg(c17WObj{Kind: kind, Name: "other-" + label, Image: c17WImage(r, id, c17WPlain(r))})
		}
		if r.Chance(1, 8) { // the same repository path in another registry, or a longer path
			twin := Pick(r, []string{"registry.example.org/" + label, id + "x", "index.docker.io/" + label})
			addPkg(c17WObj{Kind: kind, Name: "twin-" + label, Image: ptrTo(twin + ":" + c17WPlain(r))})
		}
	}

	// the informer cache
	s.CLockFresh = clean || r.Chance(7, 10)
	if !s.CLockFresh && lock != nil && !r.Chance(1, 6) {
		cl := &c17WLock{Pkgs: append([]c17Pkg{}, lock.Pkgs...), Fin: lock.Fin, Resolved: lock.Resolved}
		switch r.Intn(5) {
		case 0:
			if len(cl.Pkgs) > 0 {
				cl.Pkgs = cl.Pkgs[:len(cl.Pkgs)-1]
			}
		case 1:
			if len(cl.Pkgs) > 0 {
				i := r.Intn(len(cl.Pkgs))
				p := cl.Pkgs[i]
				p.Deps = append([]c17Dep{}, p.Deps...)
				if len(p.Deps) > 0 && r.Bool() {
					p.Deps = p.Deps[:len(p.Deps)-1]
				} else {
					p.Deps = append(p.Deps, c17Dep{Pkg: Pick(r, ids), Con: c17WRange(r)})
				}
				cl.Pkgs[i] = p
			}
		case 2:
			cl.Fin = !cl.Fin
		case 3:
			if len(cl.Pkgs) > 0 {
				i := r.Intn(len(cl.Pkgs))
				p := cl.Pkgs[i]
				p.Version = c17WPlain(r)
				cl.Pkgs[i] = p
			}
		}
		s.CLock = cl
	}
	if lock == nil && r.Chance(1, 2) { // deleted, still cached
		s.CLockFresh = false
		s.CLock = &c17WLock{Pkgs: pkgs, Fin: true}
	}
	var cp []c17WObj
	for _, p := range s.Pkgs {
		switch x := r.Intn(20); {
		case x < 15 || clean:
			cp = append(cp, c17WObj{Kind: p.Kind, Name: p.Name, Fresh: true})
		case x < 18:
			img := p.Image
			if img != nil {
				src, _ := c17SplitImage(*img)
				img = ptrTo(src + ":" + c17WPlain(r))
			}
			cp = append(cp, c17WObj{Kind: p.Kind, Name: p.Name, Image: img})
		}
	}
	if !clean && r.Chance(1, 15) { // deleted, still cached
		id := Pick(r, ids)
		if _, label, ok := c17WParse(id, s.Registry); ok {
			k := kinds[id]
			if k == "" {
				k = "Provider"
			}
			if !have[key{k, "gone-" + label}] {
				cp = append(cp, c17WObj{Kind: k, Name: "gone-" + label, Image: ptrTo(id + ":" + c17WPlain(r))})
			}
		}
	}
	for _, i := range r.Perm(len(cp)) {
		s.CPkgs = append(s.CPkgs, cp[i])
	}

	// the registry
	repos := map[string]bool{}
	var repoList []string
	for _, id := range ids {
		if repo, _, ok := c17WParse(id, s.Registry); ok && !repos[repo] {
			repos[repo] = true
			repoList = append(repoList, repo)
			s.Tags = append(s.Tags, c17RepoTags{Repo: repo, Tags: c17WTagList(r), Fail: !clean && r.Chance(1, 25)})
		}
	}

	// candidate package keys (for syncs and third-party writes)
	var keys []key
	for _, p := range s.Pkgs {
		keys = append(keys, key{p.Kind, p.Name})
	}
	for _, id := range ids {
		if _, label, ok := c17WParse(id, s.Registry); ok && kinds[id] != "" {
			keys = append(keys, key{kinds[id], label})
		}
	}

	curPkgs := pkgs
	genAct := func(k int) c17WAct {
		switch x := r.Intn(100); {
		case x < 30:
			return c17WAct{K: k, Do: "err", Class: Pick(r, c17ErrClasses)}
		case x < 45:
			np := append([]c17Pkg{}, curPkgs...)
			switch r.Intn(6) {
			case 0: // the package manager records a dependency that was missing
				for _, id := range ids {
					if _, ok := inLock[id]; !ok {
						np = append(np, c17Pkg{Name: "n-" + fmt.Sprint(len(np)), Source: id, Version: c17WPlain(r)})
						break
					}
				}
			case 1:
				if len(np) > 0 {
					np = np[:len(np)-1]
				}
			case 2: // a cycle
				if len(np) > 0 {
					last := np[len(np)-1]
					last.Deps = append(append([]c17Dep{}, last.Deps...), c17Dep{Pkg: np[0].Source, Con: "*"})
					np[len(np)-1] = last
					if len(np) == 1 || r.Bool() {
						first := np[0]
						first.Deps = append(append([]c17Dep{}, first.Deps...), c17Dep{Pkg: last.Source, Con: "*"})
						np[0] = first
					}
				}
			case 3:
				if len(np) > 0 {
					i := r.Intn(len(np))
					p := np[i]
					p.Deps = append(append([]c17Dep{}, p.Deps...), c17Dep{Pkg: Pick(r, ids), Con: c17WRange(r)})
					np[i] = p
				}
			case 4:
				np = nil
			}
			curPkgs = np
			return c17WAct{K: k, Do: "setLock", Pkgs: np}
		case x < 48:
			return c17WAct{K: k, Do: "delLock"}
		case x < 68:
			if len(keys) == 0 {
				return c17WAct{K: k, Do: "syncLock"}
			}
			ky := Pick(r, keys)
			if len(s.Pkgs) > 0 && r.Chance(2, 3) { // mostly a package that is installed
				q := Pick(r, s.Pkgs)
				ky = key{q.Kind, q.Name}
			}
			id := Pick(r, ids)
			for _, cand := range ids { // prefer the identifier that key was derived from
				if _, label, ok := c17WParse(cand, s.Registry); ok && (label == ky.name || "custom-"+label == ky.name) {
					id = cand
				}
			}
			return c17WAct{K: k, Do: "setPkg", Kind: ky.kind, Name: ky.name, Image: c17WImage(r, id, c17WPlain(r))}
		case x < 74:
			if len(keys) == 0 {
				return c17WAct{K: k, Do: "syncLock"}
			}
			ky := Pick(r, keys)
			return c17WAct{K: k, Do: "delPkg", Kind: ky.kind, Name: ky.name}
		case x < 82:
			return c17WAct{K: k, Do: "syncLock"}
		case x < 91:
			if len(keys) == 0 {
				return c17WAct{K: k, Do: "syncLock"}
			}
			ky := Pick(r, keys)
			return c17WAct{K: k, Do: "syncPkg", Kind: ky.kind, Name: ky.name}
		default:
			if len(repoList) == 0 {
				return c17WAct{K: k, Do: "syncLock"}
			}
			repo := Pick(r, repoList)
			switch r.Intn(4) {
			case 0:
				return c17WAct{K: k, Do: "setTags", Repo: repo, Fail: true}
			case 1:
				return c17WAct{K: k, Do: "setTags", Repo: repo, Tags: []string{}}
			default: // new tags are published, among them one above everything so far
				return c17WAct{K: k, Do: "setTags", Repo: repo, Tags: append(c17WTagList(r), Pick(r, []string{"3.0.0", "2.9.0", "9.9.9", "0.0.1"}))}
			}
		}
	}

	// a third-party write is often followed at once (same or next call) by the cache catching up
	genActs := func(k int) []c17WAct {
		a := genAct(k)
		out := []c17WAct{a}
		if r.Bool() {
			switch a.Do {
			case "setPkg", "delPkg":
				out = append(out, c17WAct{K: k + r.Intn(2), Do: "syncPkg", Kind: a.Kind, Name: a.Name})
			case "setLock", "delLock":
				out = append(out, c17WAct{K: k + r.Intn(2), Do: "syncLock"})
			}
		}
		return out
	}
	nsteps := 1
	switch x := r.Intn(20); {
	case x < 10:
	case x < 16:
		nsteps = 2
	case x < 19:
		nsteps = 3
	default:
		nsteps = 4
	}
	if clean {
		nsteps = min(nsteps, 2)
	}
	for si := 0; si < nsteps; si++ {
		var acts []c17WAct
		if clean {
			if si > 0 {
				acts = append(acts, c17WAct{K: 0, Do: "syncLock"})
				for _, ky := range keys {
					acts = append(acts, c17WAct{K: 0, Do: "syncPkg", Kind: ky.kind, Name: ky.name})
				}
			}
			if r.Chance(7, 10) {
				acts = append(acts, c17WAct{K: r.Intn(7), Do: "err", Class: Pick(r, c17ErrClasses)})
			} else {
				acts = append(acts, genActs(r.Intn(7))...)
			}
			s.Steps = append(s.Steps, acts)
			continue
		}
		if si > 0 && r.Chance(4, 5) { // between two Reconciles the world moves on
			if r.Chance(7, 10) {
				acts = append(acts, c17WAct{K: 0, Do: "syncLock"})
				for _, ky := range keys {
					if r.Chance(9, 10) {
						acts = append(acts, c17WAct{K: 0, Do: "syncPkg", Kind: ky.kind, Name: ky.name})
					}
				}
			}
			if r.Chance(1, 2) {
				a := genAct(0)
				for a.Do == "err" {
					a = genAct(0)
				}
				acts = append(acts, a)
			}
		}
		if !r.Chance(9, 20) {
			for i, cnt := 0, r.Range(1, 3); i < cnt; i++ {
				acts = append(acts, genActs(r.Intn(9))...)
			}
		}
		s.Steps = append(s.Steps, acts)
	}
	c17WEmit(c, s, "rnd")
}

// c17WorldUpdateWindow: upgrades enabled, an installed dependency shared by two or three parents
// whose constraints differ, and somebody else changing that package between the reconciler's
// List and its Update (the cache catching up right away, or not): the Update is answered
// Conflict; whatever lands later has to be right for the package as it is THEN.
func c17WorldUpdateWindow(c *Ctx) {
	r := c.Rng
	s := c17WScn{Upg: true, Down: r.Bool(), Registry: Pick(r, []string{"", "xpkg.io"})}
	for _, id := range c17WIds {
		s.Kinds = append(s.Kinds, [2]string{id, "Provider"})
	}
	perm := r.Perm(4)
	dep := c17WIds[perm[0]]
	_, label, _ := c17WParse(dep, s.Registry)
	repo, _, _ := c17WParse(dep, s.Registry)
	installed := c17WPlain(r)
	pkgs := []c17Pkg{{Name: "p0", Source: dep, Version: installed}}
	for i, np := 1, r.Range(2, 3); i <= np; i++ {
		pkgs = append(pkgs, c17Pkg{Name: fmt.Sprintf("p%d", i), Source: c17WIds[perm[i]], Version: "1.0.0",
			Deps: []c17Dep{{Pkg: dep, Con: Pick(r, []string{">=" + c17WPlain(r), ">" + c17WPlain(r), fmt.Sprintf(">=%d.%d.0", r.Intn(3), r.Intn(3)), fmt.Sprintf("<%d.%d.0", r.Range(1, 3), r.Intn(3)), "*"})}}})
	}
	var lp []c17Pkg
	for _, i := range r.Perm(len(pkgs)) {
		lp = append(lp, pkgs[i])
	}
	fin := r.Chance(3, 4)
	s.Lock = &c17WLock{Pkgs: lp, Fin: fin, Resolved: Pick(r, []string{"", "True", "False"})}
	s.CLockFresh = true
	s.Pkgs = []c17WObj{{Kind: "Provider", Name: label, Image: ptrTo(dep + ":" + installed)}}
	s.CPkgs = []c17WObj{{Kind: "Provider", Name: label, Fresh: true}}
	tags := c17WTagList(r)
	if r.Bool() {
		tags = append(tags, installed)
	}
	s.Tags = []c17RepoTags{{Repo: repo, Tags: tags}}
	off := 0
	if !fin {
		off = 1
	}
	k := off + r.Range(2, 4)
	other := c17WPlain(r)
	if r.Chance(1, 8) {
		other = "latest"
	}
	acts := []c17WAct{{K: k, Do: "setPkg", Kind: "Provider", Name: label, Image: ptrTo(dep + ":" + other)}}
	if r.Chance(1, 6) { // deleted and re-created: another object under the same name
		acts = []c17WAct{{K: k, Do: "delPkg", Kind: "Provider", Name: label}, {K: k, Do: "setPkg", Kind: "Provider", Name: label, Image: ptrTo(Pick(r, []string{dep, "registry.example.org/" + label}) + ":" + other)}}
	}
	if r.Chance(3, 4) {
		acts = append(acts, c17WAct{K: k + r.Intn(2), Do: "syncPkg", Kind: "Provider", Name: label})
	}
	if r.Chance(1, 8) {
		acts = append(acts, c17WAct{K: r.Intn(7), Do: "err", Class: Pick(r, c17ErrClasses)})
	}
	s.Steps = [][]c17WAct{acts}
	if r.Chance(1, 3) {
		s.Steps = append(s.Steps, []c17WAct{{K: 0, Do: "syncPkg", Kind: "Provider", Name: label}, {K: 0, Do: "syncLock"}})
	}
	c17WEmit(c, s, "rnd/window")
}

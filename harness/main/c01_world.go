//go:build verif

package main

// C01's own wiring of the XR world: the REAL reconciler and composers exactly as
// xwWorld.newReconciler builds them, except that the composer's name generator is the REAL
// internal/names nameGenerator (availability loop unchanged, built on the cached client) whose
// source of random suffixes is scripted (names.VerifNewNameGenerator): the scenario can make the
// generator draw candidates that are already taken, so that the retry loop of
// nameGenerator.GenerateName (<= maxTries probes, errGenerateName after that) is exercised and
// compared with the model's probeName. Every candidate drawn is recorded with the desired
// resource it was drawn for; that record replaces the round's hints.gen (which xwRunRound infers
// from the call log and which cannot tell a retried probe from a probe for another resource).

import (
	"context"
	"errors"
	"fmt"
	"sort"

	"google.golang.org/protobuf/types/known/structpb"
	metav1 "k8s.io/apimachinery/pkg/apis/meta/v1"
	"k8s.io/apimachinery/pkg/apis/meta/v1/unstructured"
	"k8s.io/apimachinery/pkg/runtime"
	"k8s.io/apimachinery/pkg/runtime/schema"
	k8snames "k8s.io/apiserver/pkg/storage/names"
	"sigs.k8s.io/controller-runtime/pkg/client"
	"sigs.k8s.io/controller-runtime/pkg/client/apiutil"

	"github.com/crossplane/crossplane-runtime/pkg/resource"
	ucomposite "github.com/crossplane/crossplane-runtime/pkg/resource/unstructured/composite"

	fnv1 "github.com/crossplane/crossplane/apis/apiextensions/fn/proto/v1"
	v1 "github.com/crossplane/crossplane/apis/apiextensions/v1"
	"github.com/crossplane/crossplane/internal/controller/apiextensions/composite"
	"github.com/crossplane/crossplane/internal/names"
)

// c01Scn is an XR-world scenario plus the C01-only generator dimension "taken candidates".
type c01Scn struct {
	xwScn
	// Collide[i][j]: in round i, the j-th name generation first draws this many candidates that
	// are names of existing objects of the resource's kind which the cache shows (absent = 0).
	// The model does not read it: it is told every candidate through hints.gen.
	Collide [][]int `json:"collide,omitempty"`
	// Stale[i] (P&T mode): the FIRST read of the XR in round i (Reconciler.Reconcile's r.client.Get,
	// the cached client) is served by a lagging informer cache: the reconciler sees the XR as it
	// was when round i-1 started; every later read and all writes see the API server. Set only
	// when that version differs from the current one in metadata.finalizers or spec.resourceRefs
	// (a version that differs in status only is not modelled: the model's resourceVersion counts
	// spec/metadata changes). The model reads it: Drv/C01.lean runs reconcileStaleT.
	Stale []bool `json:"stale,omitempty"`
	// StaleSel (generator only): rounds for which a lagging read is requested.
	StaleSel []bool `json:"-"`
	// NS[i][rname] (function mode): the metadata.namespace the function emits for desired resource
	// rname in round i ("" / absent = none: cluster scoped). Namespaced composed resources appear in
	// the observation, the references, the call trace, the cache misses and hints.gen under the
	// QUALIFIED name "<name>@<namespace>": the model's names are opaque strings, so a composed
	// resource's identity (namespace, name) is one model name, and "a desired resource that matches
	// an observed one inherits its name" (renderFn / renderFnT) is inheritance of namespace AND name,
	// as in FunctionComposer.Compose (cd.SetNamespace(observed); cd.SetName(observed)). The model is
	// not told the namespaces; it is told the qualified candidates the generator drew.
	NS []map[string]string `json:"ns,omitempty"`
	// Conn (function mode, monitor-only family "direct"): desired resource names whose composed
	// resource carries spec.writeConnectionSecretToRef {name: "conn-"+rname, namespace: "secrets"}:
	// ObserveComposedResources then issues one more read per such existing resource (the Get of the
	// connection secret inside FetchConnection), on which a fault can land. ConnHave: the names
	// whose secret exists (the others answer NotFound, which FetchConnection tolerates).
	Conn     []string `json:"conn,omitempty"`
	ConnHave []string `json:"connHave,omitempty"`
	// Direct: monitor-only scenario - the model has no step for the secret Get, so nothing is
	// compared (Drv/C01.lean answers {}); the property's clauses are evaluated on the real store
	// after every call (C01:leak, C01:duplicate, C01:name-changed) and at the end (C01:not-quiescent).
	Direct bool `json:"direct,omitempty"`
}

func c01Qual(ns, name string) string {
	if ns == "" {
		return name
	}
	// the namespace FOLLOWS the name: UpdateResourceRefs sorts the references by
	// apiVersion+kind+name (the namespace is not part of its key), the model by kind ++ name
	return name + "@" + ns
}

// c01View is xwWorld.view with namespace-qualified names.
func c01View(w *xwWorld) ([]xwRef, []xwObj) {
	xr := ucomposite.New()
	xr.SetUnstructuredContent(w.St.Peek(xwXRGVK.GroupKind(), "", xwXRName).Object)
	refs := []xwRef{}
	for _, r := range xr.GetResourceReferences() {
		gv, _ := schema.ParseGroupVersion(r.APIVersion)
		refs = append(refs, xwRef{Kind: xwModelKind(gv.Group, r.Kind), Name: c01Qual(r.Namespace, r.Name)})
	}
	sort.Slice(refs, func(i, j int) bool { return refs[i].Kind+"/"+refs[i].Name < refs[j].Kind+"/"+refs[j].Name })
	objs := []xwObj{}
	owner := xwFieldOwner(w.XRUID)
	for _, k := range xwKinds {
		for _, u := range w.St.OfKind(xwKindGVK(k).GroupKind()) {
			o := xwObj{Kind: k, Name: c01Qual(u.GetNamespace(), u.GetName()), Annot: u.GetAnnotations()[xwAnnot], Ctrl: "none"}
			if c := metav1.GetControllerOf(u); c != nil {
				if string(c.UID) == w.XRUID {
					o.Ctrl = "xr"
				} else {
					o.Ctrl = "other"
				}
			}
			o.Fin = len(u.GetFinalizers()) > 0
			o.Deleting = u.GetDeletionTimestamp() != nil
			c, _, _ := unstructured.NestedInt64(u.Object, "spec", "content")
			o.Content = int(c)
			for _, mf := range u.GetManagedFields() {
				if mf.Manager == owner {
					o.SSA = true
				}
			}
			objs = append(objs, o)
		}
	}
	sort.Slice(objs, func(i, j int) bool { return objs[i].Kind+"/"+objs[i].Name < objs[j].Kind+"/"+objs[j].Name })
	return refs, objs
}

// c01CheckInstantNS: NoLeak and at-most-one-per-name on the real store with the full identity
// (kind, namespace, name) of composed resources; called after every API call in scenarios with
// namespaced resources (xwWorld.checkInstant compares kind and name only).
func c01CheckInstantNS(w *xwWorld) {
	refs, objs := c01View(w)
	in := map[string]bool{}
	for _, r := range refs {
		in[r.Kind+"/"+r.Name] = true
	}
	per := map[string][]string{}
	for _, o := range objs {
		if o.Ctrl != "xr" || o.Deleting {
			continue
		}
		if !in[o.Kind+"/"+o.Name] {
			w.mon("C01:leak", fmt.Sprintf("live composed resource %s/%s controlled by the XR is not in spec.resourceRefs", o.Kind, o.Name))
		}
		if o.Annot != "" {
			per[o.Annot] = append(per[o.Annot], o.Name)
		}
	}
	for n, names := range per {
		if len(names) > 1 {
			sort.Strings(names)
			w.mon("C01:duplicate", fmt.Sprintf("desired resource name %q has %d live composed resources: %v", n, len(names), names))
		}
	}
}

// c01QualifyRound rewrites the observation of a round with namespace-qualified names: the call
// trace (from the store's log; a name-availability probe, which carries no namespace in the code -
// client.ObjectKey{Name: name} - is shown under the namespace of the resource the candidate was
// drawn for, as the model's probe is), the references and the objects.
func c01QualifyRound(w *xwWorld, nm *c01Namer, ns map[string]string, o *xwRoundObs) {
	candNS := map[string]string{}
	for _, p := range nm.rec {
		candNS[p[1]] = ns[p[0]]
	}
	calls := []string{}
	for _, c := range w.St.Log {
		pgk := schema.ParseGroupKind(c.GK)
		gk := xwModelKind(pgk.Group, pgk.Kind)
		name := c01Qual(c.NS, c.Name)
		if c.NS == "" && c.Verb == "get" && gk != xwXRGVK.Kind {
			if n, ok := candNS[c.Name]; ok {
				name = c01Qual(n, c.Name)
			}
		}
		e := fmt.Sprintf("%s %s/%s", c.Verb, gk, name)
		if c.Sub != "" {
			e += "/" + c.Sub
		}
		if c.PatchType != "" {
			e += " " + c.PatchType
		}
		e += " " + c.Outcome + ">" + c.Err
		calls = append(calls, e)
	}
	o.Calls = calls
	o.Refs, o.Objs = c01View(w)
}

// c01Cache is the cached client of C01's reconciler: xwCache (cache misses of composed resources)
// plus the lagging first read of the XR.
type c01Cache struct {
	*xwCache
	nm *c01Namer
}

func (c *c01Cache) Get(ctx context.Context, key client.ObjectKey, obj client.Object, opts ...client.GetOption) error {
	if c.nm.staleXR == nil {
		return c.xwCache.Get(ctx, key, obj, opts...)
	}
	gvk, err := apiutil.GVKForObject(obj, c.Store.Scheme())
	ru, isU := obj.(runtime.Unstructured)
	if err != nil || !isU || gvk.GroupKind() != xwXRGVK.GroupKind() {
		return c.xwCache.Get(ctx, key, obj, opts...)
	}
	n0 := len(c.Store.Log)
	err = c.xwCache.Get(ctx, key, obj, opts...)
	if err != nil || len(c.Store.Log) == n0 {
		return err // injected fault, or the process is dead
	}
	// the read is issued (counted, logged), but the informer has not caught up yet
	stale := c.nm.staleXR
	c.nm.staleXR = nil
	ru.SetUnstructuredContent(runtime.DeepCopyJSON(stale.Object))
	return nil
}

// c01Namer wraps the real name generator of the composer.
type c01Namer struct {
	w     *xwWorld
	inner names.NameGenerator // the real nameGenerator over the cached client, scripted suffix source

	plan     []int // this round's taken-candidate counts, per generation
	genIdx   int
	left     int // taken candidates still to draw in the current generation
	tryIdx   int
	curRName string
	curKind  string
	rec      [][2]string // (resource name, candidate) in the order drawn, this round
	taken    int         // taken candidates drawn this round
	// the outdated version of the XR the next read of the XR returns (nil = reads are fresh)
	staleXR *unstructured.Unstructured
	// metadata.namespace the function emits per desired resource name in the current round
	ns map[string]string
	// desired resource names emitted with a connection secret reference
	conn map[string]bool
}

func (n *c01Namer) startRound(plan []int) {
	n.plan, n.genIdx, n.left, n.tryIdx, n.rec, n.taken = plan, 0, 0, 0, [][2]string{}, 0
}

// GenerateName is what the composer calls (names.NameGenerator of crossplane).
func (n *c01Namer) GenerateName(ctx context.Context, cd resource.Object) error {
	if cd.GetName() != "" || cd.GetGenerateName() == "" {
		return n.inner.GenerateName(ctx, cd) // "don't rename"
	}
	gvk := cd.GetObjectKind().GroupVersionKind()
	n.curRName, n.curKind = cd.GetAnnotations()[xwAnnot], xwModelKind(gvk.Group, gvk.Kind)
	n.left, n.tryIdx = 0, 0
	if n.genIdx < len(n.plan) {
		n.left = n.plan[n.genIdx]
	}
	n.genIdx++
	err := n.inner.GenerateName(ctx, cd)
	if err == nil && cd.GetName() != "" {
		*n.w.gen = append(*n.w.gen, [2]string{n.curRName, cd.GetName()})
		*n.w.genKind = append(*n.w.genKind, n.curKind)
		// direct monitor (independent of the model): the name the generator hands to the composer
		// is not the name of an object of that kind which the cache shows right now
		if !n.w.St.Crashed() {
			_, objs, _ := n.w.view()
			for _, o := range objs {
				if o.Kind == n.curKind && o.Name == cd.GetName() && !n.w.miss[xwMissKey(xwKindGVK(o.Kind).GroupKind(), o.Name)] {
					n.w.mon("C01:generated-name-taken", fmt.Sprintf("the name generator returned %s/%s for %q although the cache shows an object with that name", o.Kind, o.Name, n.curRName))
				}
			}
		}
	}
	if n.tryIdx > c01NameTries {
		n.w.mon("C01:name-probes-exceed-bound", fmt.Sprintf("%d candidates drawn for one name (bound %d)", n.tryIdx, c01NameTries))
	}
	return err
}

// c01NameTries mirrors Xp.C01.maxTries (tied to the source by skeleton_generate_name).
const c01NameTries = 10

// candidate is the scripted k8s name generator (the `namer` of the real nameGenerator).
func (n *c01Namer) candidate(base string) string {
	name := ""
	if n.left > 0 {
		// names of existing objects of this kind that the cache shows
		_, objs, _ := n.w.view()
		taken := []string{}
		for _, o := range objs {
			if o.Kind == n.curKind && !n.w.miss[xwMissKey(xwKindGVK(o.Kind).GroupKind(), o.Name)] {
				taken = append(taken, o.Name)
			}
		}
		sort.Strings(taken)
		if len(taken) > 0 {
			name = taken[n.tryIdx%len(taken)]
			n.left--
			n.taken++
		}
	}
	if name == "" {
		name = k8snames.SimpleNameGenerator.GenerateName(base)
	}
	n.tryIdx++
	n.rec = append(n.rec, [2]string{n.curRName, name})
	return name
}

// c01NewReconciler mirrors xwWorld.newReconciler (same clients, same stubs) with the scripted
// name generator.
func c01NewReconciler(w *xwWorld, mode string, nm *c01Namer) *composite.Reconciler {
	st := w.St
	cached := &c01Cache{xwCache: &xwCache{Store: st, w: w}, nm: nm}
	runner := composite.FunctionRunnerFn(func(_ context.Context, _ string, _ *fnv1.RunFunctionRequest) (*fnv1.RunFunctionResponse, error) {
		rd := w.cur
		if rd.FnErr == "error" {
			return nil, errors.New("function failed")
		}
		rsp := &fnv1.RunFunctionResponse{Desired: &fnv1.State{Resources: map[string]*fnv1.Resource{}}}
		for _, d := range rd.Desired {
			m := map[string]any{"apiVersion": xwAPIVersion(d.Kind, rd.Ver), "kind": xwKindGVK(d.Kind).Kind, "spec": map[string]any{"content": d.Content}}
			if n := nm.ns[d.RName]; n != "" {
				m["metadata"] = map[string]any{"namespace": n}
			}
			if nm.conn[d.RName] {
				m["spec"] = map[string]any{"content": d.Content, "writeConnectionSecretToRef": map[string]any{"name": "conn-" + d.RName, "namespace": "secrets"}}
			}
			s, _ := structpb.NewStruct(m)
			rdy := fnv1.Ready_READY_FALSE
			if d.Ready {
				rdy = fnv1.Ready_READY_TRUE
			}
			rsp.Desired.Resources[d.RName] = &fnv1.Resource{Resource: s, Ready: rdy}
		}
		if rd.FnErr == "fatal" {
			rsp.Results = []*fnv1.Result{{Severity: fnv1.Severity_SEVERITY_FATAL, Message: "fatal"}}
		}
		return rsp, nil
	})
	nm.w = w
	// the generator is built on the CACHED client, as NewFunctionComposer / NewPTComposer do
	nm.inner = names.VerifNewNameGenerator(cached, nm.candidate)
	wrap := func(names.NameGenerator) names.NameGenerator { return nm }
	var composer composite.Composer
	if mode == "fn" {
		fc := composite.NewFunctionComposer(cached, st, runner)
		composite.VerifWrapFnNameGenerator(fc, wrap)
		composer = fc
	} else {
		pc := composite.NewPTComposer(cached, st)
		composite.VerifWrapPTNameGenerator(pc, wrap)
		composer = pc
	}
	return composite.NewReconciler(cached, st, resource.CompositeKind(xwXRGVK),
		composite.WithComposer(composer),
		composite.WithCompositionSelector(composite.CompositionSelectorFn(func(context.Context, resource.Composite) error { return nil })),
		composite.WithCompositionRevisionFetcher(composite.CompositionRevisionFetcherFn(func(context.Context, resource.Composite) (*v1.CompositionRevision, error) { return w.curRev, nil })),
		composite.WithCompositionRevisionValidator(composite.CompositionRevisionValidatorFn(func(*v1.CompositionRevision) error { return nil })),
		composite.WithConfigurator(composite.ConfiguratorFn(func(context.Context, resource.Composite, *v1.CompositionRevision) error { return nil })),
	)
}

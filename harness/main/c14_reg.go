//go:build verif

package main

// C14, the registry side: the REAL xpkg.K8sFetcher (Head with its HEAD -> GET fallback) against an
// in-process OCI registry (go-containerregistry's pkg/registry behind an http.RoundTripper; no
// socket). The registry holds, per package source, either a single-platform image or a
// multi-platform image INDEX, and can be told to refuse HEAD requests for manifests (404 / 405 /
// 500: registries that do not implement HEAD), or to be down altogether. "The image digest" of the
// property is the digest of the manifest the tag points at - for an index the digest of the index,
// whichever way it is asked for. A reconcile step with `reg` set is run by a reconciler built on
// that real fetcher; `head` of the step (what the model and the monitors take as the registry's
// answer) is the digest the registry holds for the package's source.

import (
	"context"
	"fmt"
	"io"
	"log"
	"net/http"
	"net/http/httptest"
	"strings"

	"github.com/google/go-containerregistry/pkg/name"
	"github.com/google/go-containerregistry/pkg/registry"
	ggcr "github.com/google/go-containerregistry/pkg/v1"
	"github.com/google/go-containerregistry/pkg/v1/empty"
	"github.com/google/go-containerregistry/pkg/v1/mutate"
	"github.com/google/go-containerregistry/pkg/v1/remote"
	"github.com/google/go-containerregistry/pkg/v1/static"
	ggcrtypes "github.com/google/go-containerregistry/pkg/v1/types"
	"k8s.io/client-go/kubernetes"
	"k8s.io/client-go/rest"

	"github.com/crossplane/crossplane/internal/xpkg"
)

// c14RegModes: how the registry treats a HEAD for a manifest ("down": every request fails 503).
var c14RegModes = []string{"ok", "head404", "head405", "head500", "down"}

// c14Reg is the in-process registry.
type c14Reg struct {
	h    http.Handler
	mode string
	log  []string // "METHOD path -> status"
}

func newC14Reg() *c14Reg {
	return &c14Reg{h: registry.New(registry.Logger(log.New(io.Discard, "", 0))), mode: "ok"}
}

func (g *c14Reg) RoundTrip(req *http.Request) (*http.Response, error) {
	rec := httptest.NewRecorder()
	if req.Body == nil {
		req.Body = http.NoBody // a server-side handler always sees a body
	}
	isManifest := strings.Contains(req.URL.Path, "/manifests/")
	switch {
	case g.mode == "down":
		rec.WriteHeader(http.StatusServiceUnavailable)
	case req.Method == http.MethodHead && isManifest && g.mode == "head404":
		rec.WriteHeader(http.StatusNotFound)
	case req.Method == http.MethodHead && isManifest && g.mode == "head405":
		rec.WriteHeader(http.StatusMethodNotAllowed)
	case req.Method == http.MethodHead && isManifest && g.mode == "head500":
		rec.WriteHeader(http.StatusInternalServerError)
	default:
		g.h.ServeHTTP(rec, req)
	}
	resp := rec.Result()
	resp.Request = req
	g.log = append(g.log, fmt.Sprintf("%s %s -> %d", req.Method, req.URL.Path, resp.StatusCode))
	return resp, nil
}

// c14K8sNotFound answers every Kubernetes API request with 404 NotFound: the fetcher's keychain
// (k8schain) looks up the service account and pull secrets and carries on without them.
type c14K8sNotFound struct{}

func (c14K8sNotFound) RoundTrip(req *http.Request) (*http.Response, error) {
	rec := httptest.NewRecorder()
	rec.Header().Set("Content-Type", "application/json")
	rec.WriteHeader(http.StatusNotFound)
	_, _ = rec.WriteString(`{"kind":"Status","apiVersion":"v1","metadata":{},"status":"Failure","message":"not found","reason":"NotFound","details":{},"code":404}`)
	resp := rec.Result()
	resp.Request = req
	return resp, nil
}

// c14RealFetcher builds the real K8sFetcher over the in-process registry.
func c14RealFetcher(g *c14Reg) (xpkg.Fetcher, error) {
	cs, err := kubernetes.NewForConfig(&rest.Config{Host: "http://c14-kube.invalid", Transport: c14K8sNotFound{}})
	if err != nil {
		return nil, err
	}
	return xpkg.NewK8sFetcher(cs, xpkg.VerifC14WithTransport(g), xpkg.WithNamespace("crossplane-system"), xpkg.WithServiceAccount("crossplane"))
}

// c14Artefact builds, deterministically, the artefact named a: "image:<content>" = a single-platform
// image whose only layer holds <content>; "index:<content>" = an image index with a linux/amd64 and a
// linux/arm64 child image. It returns the artefact and the digest of ITS manifest.
func c14Artefact(a string) (img ggcr.Image, idx ggcr.ImageIndex, hex string, err error) {
	kind, content, _ := strings.Cut(a, ":")
	mk := func(tag string) (ggcr.Image, error) {
		return mutate.AppendLayers(empty.Image, static.NewLayer([]byte("c14 "+content+" "+tag), ggcrtypes.DockerLayer))
	}
	switch kind {
	case "image":
		if img, err = mk("single"); err != nil {
			return
		}
		var h ggcr.Hash
		h, err = img.Digest()
		hex = h.Hex
	case "index":
		var amd, arm ggcr.Image
		if amd, err = mk("amd64"); err != nil {
			return
		}
		if arm, err = mk("arm64"); err != nil {
			return
		}
		idx = mutate.AppendManifests(empty.Index,
			mutate.IndexAddendum{Add: amd, Descriptor: ggcr.Descriptor{Platform: &ggcr.Platform{OS: "linux", Architecture: "amd64"}}},
			mutate.IndexAddendum{Add: arm, Descriptor: ggcr.Descriptor{Platform: &ggcr.Platform{OS: "linux", Architecture: "arm64"}}})
		var h ggcr.Hash
		h, err = idx.Digest()
		hex = h.Hex
	default:
		err = fmt.Errorf("c14: unknown artefact %q", a)
	}
	return
}

// c14ArtefactHex: the digest the registry holds for artefact a ("" on a malformed name).
func c14ArtefactHex(a string) string {
	_, _, hex, err := c14Artefact(a)
	if err != nil {
		return ""
	}
	return hex
}

// push stores artefact a under the reference of `source` (the registry serving normally).
func (g *c14Reg) push(source, a string) error {
	ref, err := name.ParseReference(source, name.WithDefaultRegistry(xpkg.DefaultRegistry))
	if err != nil {
		return err
	}
	img, idx, _, err := c14Artefact(a)
	if err != nil {
		return err
	}
	was := g.mode
	g.mode = "ok"
	defer func() { g.mode = was }()
	if idx != nil {
		return remote.WriteIndex(ref, idx, remote.WithTransport(g))
	}
	return remote.Write(ref, img, remote.WithTransport(g))
}

// c14RegStep parses the `reg` field of a reconcile step: "<artefact>|<mode>".
func c14RegStep(s string) (artefact, mode string) {
	artefact, mode, _ = strings.Cut(s, "|")
	if mode == "" {
		mode = "ok"
	}
	return
}

// c14RegHead: what the model / the monitors take as the registry's answer for such a step.
func c14RegHead(s string) string {
	a, mode := c14RegStep(s)
	if mode == "down" {
		return "err:503"
	}
	return c14ArtefactHex(a)
}

// c14ProbeHead asks the real fetcher for the descriptor of `source` and compares it with the digest the
// registry holds (direct monitor: the digest must not depend on whether HEAD is served).
func c14ProbeHead(f xpkg.Fetcher, source, want string) (got string, err error) {
	ref, perr := name.ParseReference(source, name.WithDefaultRegistry(xpkg.DefaultRegistry))
	if perr != nil {
		return "", perr
	}
	d, herr := f.Head(context.Background(), ref)
	if herr != nil {
		return "", herr
	}
	if d == nil {
		return "nil", nil
	}
	return d.Digest.Hex, nil
}

// c14GenRealReg produces the shape "the same image, asked for in different ways": a package whose source
// holds a single-platform image or a multi-platform image INDEX in the in-process registry, reconciled by
// the reconciler on the REAL K8sFetcher 2-5 times while the registry serves HEAD, refuses it (404 / 405 /
// 500: the fetcher falls back to GET) or is down; sometimes the tag moves to another artefact, or the source
// is edited to another tag holding the SAME artefact (same digest = same revision), under API faults.
func c14GenRealReg(r *Rng) c14Scn {
	pn := Pick(r, c14Names[:3])
	uid := "u-" + pn[:1]
	s := c14Scn{Kind: Pick(r, []string{"Provider", "Configuration", "Function"}), Revs: []c14Rev{}, Steps: []c14Step{}}
	srcs := r.Perm(len(c14ValidSources))
	src := c14ValidSources[srcs[0]]
	arts := []string{"image:a", "index:a", "index:b", "image:b", "index:c"}
	art := Pick(r, arts[:3])
	s.Pkg = c14Pkg{Name: pn, UID: uid, Spec: c14Spec{Source: src, Limit: c14GenLimit(r), Policy: Pick(r, []string{"", "", "Automatic", "Manual"}),
		Pull: Pick(r, []string{"", "", "Always", "IfNotPresent"}), Labels: c14GenLabels(r)}}
	// optionally an older revision, Active
	if r.Chance(1, 2) {
		s.Revs = append(s.Revs, c14Rev{Name: xpkgFriendly(pn, c14Digests[1]), Parent: pn, Number: 1, State: "Active", Ctrl: uid, Image: c14Sources[1], Labels: []c14KV{}, Fin: r.Bool()})
	}
	// optionally the package is already installed at this artefact (resolved through a served HEAD earlier)
	if r.Chance(1, 3) {
		n := xpkgFriendly(pn, c14ArtefactHex(art))
		st := "Inactive"
		if len(s.Revs) == 0 {
			st = "Active"
		}
		s.Revs = append(s.Revs, c14Rev{Name: n, Parent: pn, Number: 2, State: st, Ctrl: uid, Image: src, Labels: []c14KV{}, Fin: true})
		s.Pkg.CurRev, s.Pkg.CurID = n, src
	}
	cur := s.Pkg.Spec
	rec := func(mode string, faults []c14Fault) {
		reg := art + "|" + mode
		s.Steps = append(s.Steps, c14Step{Op: "reconcile", Reg: reg, Head: c14RegHead(reg), Faults: faults})
	}
	rec(Pick(r, []string{"ok", "ok", "head404", "head405"}), nil)
	n := r.Range(1, 4)
	for i := 0; i < n; i++ {
		switch r.Intn(8) {
		case 0: // the tag moves to another artefact
			art = Pick(r, arts)
		case 1: // another tag, SAME artefact
			ns := cur
			ns.Source = c14ValidSources[srcs[1+r.Intn(2)]]
			cur = ns
			s.Steps = append(s.Steps, c14Step{Op: "edit", Spec: &ns})
		case 2:
			s.Steps = append(s.Steps, c14Step{Op: "finalize"})
		}
		var faults []c14Fault
		if r.Chance(1, 4) {
			faults = c14GenFaults(r, "quick")
		}
		rec(Pick(r, []string{"ok", "head404", "head404", "head405", "head500", "down"}), faults)
	}
	return s
}

//go:build verif

package main

// C05 over the shared XR world (xrworld.go: the REAL composers behind the REAL reconciler, fault
// plans, informer-cache misses, API-server rejections): the same rounds C01 runs, with the
// property's clauses evaluated directly on the stored XR after every round.

import (
	"fmt"
	"strings"

	ucomposite "github.com/crossplane/crossplane-runtime/pkg/resource/unstructured/composite"
)

type c05WCond struct{ Status, Reason, Message string }

func c05WorldConds(w *xwWorld) map[string]c05WCond {
	m := map[string]c05WCond{}
	u := w.St.Peek(xwXRGVK.GroupKind(), "", xwXRName)
	if u == nil {
		return m
	}
	xr := ucomposite.New()
	xr.SetUnstructuredContent(u.Object)
	for _, c := range xr.GetConditions() {
		m[string(c.Type)] = c05WCond{Status: string(c.Status), Reason: string(c.Reason), Message: c.Message}
	}
	return m
}

// c05RunWorld is c01Run's round loop (same scenario, same observation, hence the same model) plus
// the C05 monitors.
func c05RunWorld(s *xwScn) (c01Obs, []Mon) {
	w := xwNewWorld(*s)
	obs := c01Obs{}
	created := []xwRef{}
	for i := range s.Rounds {
		rd := &s.Rounds[i]
		if rd.Miss == nil && len(rd.MissSel) > 0 {
			rd.Miss = w.pickMiss(rd.MissSel, created)
		}
		rd.MissSel = nil
		_, objs0, _ := w.view()
		had := map[string]bool{}
		for _, o := range objs0 {
			had[o.Kind+"/"+o.Name] = true
		}
		before := c05WorldConds(w)
		ro := w.xwRunRound(s.Mode, rd, nil)
		obs.Rounds = append(obs.Rounds, ro)
		created = created[:0]
		_, objs1, _ := w.view()
		for _, o := range objs1 {
			if !had[o.Kind+"/"+o.Name] {
				created = append(created, xwRef{Kind: o.Kind, Name: o.Name})
			}
		}
		after := c05WorldConds(w)

		// every desired composed resource is ready: the function / the readiness checks say so and,
		// for P&T, its apply was not rejected
		unready := ""
		rejected := ""
		for _, d := range rd.Desired {
			if !d.Ready || (s.Mode == "pt" && d.Content == xwInvalidContent) {
				unready = d.RName
			}
			if d.Content == xwInvalidContent {
				rejected = d.RName
			}
		}
		// the success path ran to its status update: everything synced, or the status names the
		// resources that did not ("Invalid resources: ...", set by updateXRConditions only)
		computed := ro.Result == "success"
		if n := len(ro.Calls); n > 0 && ro.Calls[n-1] == "update XThing/xr/status ok>" && strings.HasPrefix(after["Synced"].Message, "Invalid resources") {
			computed = true
		}
		turnedReady := after["Ready"].Status == "True" && before["Ready"].Status != "True"
		turnedSynced := after["Synced"].Status == "True" && before["Synced"].Status != "True"
		if (computed || turnedReady) && after["Ready"].Status == "True" && unready != "" {
			w.mon("C05:ready-despite-unready-resource", fmt.Sprintf("round %d (%s): the XR is Ready=True although desired resource %q is not ready", i, s.Mode, unready))
		}
		if turnedReady && rd.FnErr != "" {
			w.mon("C05:ready-set-on-error", fmt.Sprintf("round %d: the pipeline failed (%s) but the XR turned Ready=True", i, rd.FnErr))
		}
		if turnedSynced && (rd.FnErr != "" || rejected != "") {
			w.mon("C05:synced-set-on-error", fmt.Sprintf("round %d: the XR turned Synced=True although the pipeline failed (%q) or the apply of %q was rejected", i, rd.FnErr, rejected))
		}
		if turnedSynced && ro.Result != "success" && ro.Result != "crashed" {
			w.mon("C05:synced-set-on-error", fmt.Sprintf("round %d: the XR turned Synced=True in a reconcile that ended %q", i, ro.Result))
		}
	}
	return obs, w.mons
}

//go:build verif

package main

// C09 regenerated facts (tie "a"): the ordered call skeletons of every Go function the C09
// model mirrors, extracted with go/ast from the CURRENT tree (VERIF_REPO, default /repo) on
// every check run, the concrete types of the claim reconciler's default connection
// propagator / unpublisher (reflection on what claim.NewReconciler really builds) and the
// string constants the model carries. lean/Xp/Props/C09.lean states that the skeletons declared
// next to the model's definitions (lean/Xp/Model/C09Skel.lean) equal these lists.

import (
	"fmt"
	"path/filepath"
	"reflect"
	goruntime "runtime"

	corev1 "k8s.io/api/core/v1"
	"k8s.io/apimachinery/pkg/runtime"
	"k8s.io/apimachinery/pkg/runtime/schema"

	"github.com/crossplane/crossplane-runtime/pkg/resource"

	"github.com/crossplane/crossplane/internal/controller/apiextensions/claim"
	"github.com/crossplane/crossplane/internal/controller/apiextensions/composite"
)

const (
	c09FileAPI      = "internal/controller/apiextensions/composite/api.go"
	c09FileConn     = "internal/controller/apiextensions/composite/connection.go"
	c09FilePT       = "internal/controller/apiextensions/composite/composition_pt.go"
	c09FileFn       = "internal/controller/apiextensions/composite/composition_functions.go"
	c09FileXRRec    = "internal/controller/apiextensions/composite/reconciler.go"
	c09FileClaim    = "internal/controller/apiextensions/claim/connection.go"
	c09FileClaimRec = "internal/controller/apiextensions/claim/reconciler.go"
	c09FileDef      = "internal/controller/apiextensions/definition/reconciler.go"
)

func c09Verbs(vs ...string) map[string]bool {
	m := map[string]bool{}
	for _, v := range vs {
		m[v] = true
	}
	return m
}

// c09ClaimDefaultType: the concrete type behind an interface field of the crClaim / crComposite
// struct of the reconciler claim.NewReconciler returns with NO options (unexported fields, read
// by reflection; "unknown" when the layout changed).
func c09ClaimDefaultType(group, field string) string {
	gvk := schema.GroupVersionKind{Group: "example.org", Version: "v1", Kind: "Thing"}
	xgvk := schema.GroupVersionKind{Group: "example.org", Version: "v1", Kind: "XThing"}
	rec := claim.NewReconciler(NewStore(runtime.NewScheme()), resource.CompositeClaimKind(gvk), resource.CompositeKind(xgvk))
	v := reflect.ValueOf(rec)
	if v.Kind() != reflect.Ptr || v.Elem().Kind() != reflect.Struct {
		return "unknown"
	}
	f := v.Elem().FieldByName(group)
	if !f.IsValid() || f.Kind() != reflect.Struct {
		return "unknown"
	}
	u := f.FieldByName(field)
	if !u.IsValid() || u.Kind() != reflect.Interface || u.IsNil() {
		return "unknown"
	}
	return u.Elem().Type().String()
}

// c09DepFile: the file a function of a dependency was COMPILED from (the module-cache copy linked
// into this binary), as a path relative to the repo root (SkelOf joins it with SkelRepo()).
func c09DepFile(fn any) string {
	f := goruntime.FuncForPC(reflect.ValueOf(fn).Pointer())
	if f == nil {
		return "unknown"
	}
	file, _ := f.FileLine(f.Entry())
	rel, err := filepath.Rel(SkelRepo(), file)
	if err != nil {
		return "unknown"
	}
	return rel
}

func init() {
	RegisterDump("C09Skel", func() string {
		ret := func(vs ...string) SkelOpts {
			return SkelOpts{Verbs: c09Verbs(vs...), DropRecv: true, Returns: true}
		}
		s := ""
		// --- the XR's publisher (composite/api.go)
		s += SkelDef("c09SkelNewPublisher", c09FileAPI, "", "NewAPIFilteredSecretPublisher",
			SkelOpts{Verbs: c09Verbs("NewAPIPatchingApplicator", "NewAPIUpdatingApplicator")})
		s += SkelDef("c09SkelPublish", c09FileAPI, "APIFilteredSecretPublisher", "PublishConnection",
			ret("GetWriteConnectionSecretToReference", "ConnectionSecretFor", "Apply", "ConnectionSecretMustBeControllableBy",
				"GetUID", "AllowUpdateIf", "Equal", "IsNotAllowed", "Get", "Create", "Update", "Patch", "Delete"))
		s += SkelDef("c09SkelUnpublish", c09FileAPI, "APIFilteredSecretPublisher", "UnpublishConnection",
			ret("Get", "Create", "Update", "Patch", "Delete", "Apply", "DeleteAllOf"))
		// --- the claim's propagator and unpublisher (claim/connection.go)
		s += SkelDef("c09SkelNewPropagator", c09FileClaim, "", "NewAPIConnectionPropagator",
			SkelOpts{Verbs: c09Verbs("NewAPIPatchingApplicator", "NewAPIUpdatingApplicator")})
		s += SkelDef("c09SkelPropagate", c09FileClaim, "APIConnectionPropagator", "PropagateConnection",
			SkelOpts{Verbs: c09Verbs("GetWriteConnectionSecretToReference", "Get", "GetControllerOf", "GetUID", "LocalConnectionSecretFor",
				"Apply", "ConnectionSecretMustBeControllableBy", "AllowUpdateIf", "Equal", "EquateEmpty", "IsNotAllowed",
				"GetConnectionDetailsLastPublishedTime", "Before", "After", "Create", "Update", "Patch", "Delete"),
				DropRecv: true, Returns: true, Match: func(string) bool { return false },
				Idents: map[string]bool{"propagatedSincePublished": true}})
		s += SkelDef("c09SkelClaimNopUnpublish", c09FileClaim, "NopConnectionUnpublisher", "UnpublishConnection",
			ret("Get", "Create", "Update", "Patch", "Delete", "Apply", "DeleteAllOf"))
		// --- fetching and extracting (composite/connection.go)
		s += SkelDef("c09SkelFetchChain", c09FileConn, "ConnectionDetailsFetcherChain", "FetchConnection", ret("FetchConnection"))
		s += SkelDef("c09SkelFetchSecret", c09FileConn, "SecretConnectionDetailsFetcher", "FetchConnection",
			ret("GetWriteConnectionSecretToReference", "Get", "IgnoreNotFound", "List"))
		eo := ret("Errorf")
		eo.Idents = map[string]bool{"fromFieldPath": true}
		s += SkelDef("c09SkelExtract", c09FileConn, "", "ExtractConnectionDetails", eo)
		s += SkelDef("c09SkelFromFieldPath", c09FileConn, "", "fromFieldPath", ret("ToUnstructured", "Pave", "GetString", "GetValue", "Marshal"))
		co := SkelOpts{Verbs: c09Verbs(), Idents: map[string]bool{"connectionDetailType": true}, Returns: true}
		s += SkelDef("c09SkelExtractConfigs", c09FileConn, "", "ExtractConfigsFromComposedTemplate", co)
		s += SkelDef("c09SkelDetailType", c09FileConn, "", "connectionDetailType", SkelOpts{Verbs: c09Verbs("ConnectionDetailType"), Idents: map[string]bool{"ConnectionDetailType": true}, Returns: true})
		// --- where the composers read connection details
		flow := SkelOpts{Verbs: c09Verbs("FetchConnection", "ExtractConnection", "Apply", "MustBeControllableBy", "GetControllerOf"),
			Idents: map[string]bool{"ExtractConfigsFromComposedTemplate": true}, DropRecv: true}
		s += SkelDef("c09SkelPTCompose", c09FilePT, "PTComposer", "Compose", flow)
		fo := flow
		fo.Verbs = c09Verbs("Get", "FetchConnection", "GetControllerOf", "GetUID")
		s += SkelDef("c09SkelFnObserve", c09FileFn, "ExistingComposedResourceObserver", "ObserveComposedResources", fo)
		s += SkelDef("c09SkelFnCompose", c09FileFn, "FunctionComposer", "Compose",
			SkelOpts{Verbs: c09Verbs("ObserveComposedResources", "FetchConnection", "RunFunction", "ExtractConnection"), Idents: map[string]bool{"AsState": true}, DropRecv: true})
		// --- crossplane-runtime applicators the two writers are built on (module source this binary was compiled from)
		api := c09DepFile(resource.NewAPIPatchingApplicator)
		ao := SkelOpts{Verbs: c09Verbs("Get", "Create", "Update", "Patch", "Delete", "IsNotFound", "SetResourceVersion"), DropRecv: true}
		s += SkelDef("c09SkelPatchingApply", api, "APIPatchingApplicator", "Apply", ao)
		s += SkelDef("c09SkelUpdatingApply", api, "APIUpdatingApplicator", "Apply", ao)
		s += SkelDef("c09SkelMustBeControllable", c09DepFile(resource.ConnectionSecretMustBeControllableBy), "", "ConnectionSecretMustBeControllableBy",
			SkelOpts{Verbs: c09Verbs("GetControllerOf"), Returns: true})
		// --- the reconcilers around them
		s += SkelDef("c09SkelXRReconcile", c09FileXRRec, "Reconciler", "Reconcile",
			SkelOpts{Verbs: c09Verbs("Compose", "PublishConnection", "UnpublishConnection", "SetConnectionDetailsLastPublishedTime"), DropRecv: true})
		s += SkelDef("c09SkelClaimReconcile", c09FileClaimRec, "Reconciler", "Reconcile",
			SkelOpts{Verbs: c09Verbs("UnpublishConnection", "PropagateConnection", "SetConnectionDetailsLastPublishedTime", "IsConditionTrue", "RemoveFinalizer"), DropRecv: true})
		// --- production wiring (definition/reconciler.go): which publishers / fetchers, under which feature flag
		s += SkelDef("c09SkelWiring", c09FileDef, "Reconciler", "CompositeReconcilerOptions",
			SkelOpts{Verbs: c09Verbs("WithConnectionPublishers", "NewAPIFilteredSecretPublisher", "NewSecretStoreConnectionPublisher",
				"GetConnectionSecretKeys", "NewSecretConnectionDetailsFetcher", "NewDetailsManager", "Enabled",
				"WithComposedConnectionDetailsFetcher", "WithCompositeConnectionDetailsFetcher", "NewExistingComposedResourceObserver",
				"NewSecretStoreConnectionDetailsConfigurator"), DropRecv: true})
		// --- defaults of the claim reconciler, as built
		s += fmt.Sprintf("/-- concrete type of the claim reconciler's default ConnectionUnpublisher -/\ndef c09ClaimDefaultUnpublisher : String := %s\n", leanStr(c09ClaimDefaultType("claim", "ConnectionUnpublisher")))
		s += fmt.Sprintf("/-- concrete type of the claim reconciler's default ConnectionPropagator -/\ndef c09ClaimDefaultPropagator : String := %s\n", leanStr(c09ClaimDefaultType("composite", "ConnectionPropagator")))
		// --- constants
		s += fmt.Sprintf("/-- resource.SecretTypeConnection -/\ndef c09SecretTypeConnection : String := %s\n", leanStr(string(resource.SecretTypeConnection)))
		s += fmt.Sprintf("/-- corev1.SecretTypeOpaque -/\ndef c09SecretTypeOpaque : String := %s\n", leanStr(string(corev1.SecretTypeOpaque)))
		s += fmt.Sprintf("/-- the ConnectionDetailType constants: FromConnectionSecretKey, FromFieldPath, FromValue -/\ndef c09DetailTypes : List String := %s\n",
			leanStrList([]string{string(composite.ConnectionDetailTypeFromConnectionSecretKey), string(composite.ConnectionDetailTypeFromFieldPath), string(composite.ConnectionDetailTypeFromValue)}))
		return s
	})
}

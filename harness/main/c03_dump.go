//go:build verif

package main

// C03 regenerated facts: the ordered call skeletons of the Go functions the C03 model
// (lean/Xp/Model/C03.lean, and the parts of lean/Xp/Model/C01.lean / C04.lean that C03's
// theorems are about) mirrors, extracted with go/ast from the CURRENT source tree on every
// check run. lean/Xp/Props/C03.lean states that the skeletons the model declares equal these
// lists (`skeleton_*`, by `decide`): inserting, removing or reordering one of these calls, or
// an early `return`, in one of these functions breaks an obligation before any scenario runs.
//
// SkelOf (skel.go) lists selector calls (x.Get, meta.RemoveLabels ...). The functions of
// package composite also call plain in-package functions (AssociateByOrder, AsStruct,
// UpdateResourceRefs ...) that matter to the model, so this file has a walker that also
// records calls whose target is a bare identifier.

import (
	"fmt"
	"go/ast"
	"go/parser"
	"go/token"
	"path/filepath"
	"strings"

	"github.com/crossplane/crossplane/internal/controller/apiextensions/composite"
)

const (
	c03FileFn  = "internal/controller/apiextensions/composite/composition_functions.go"
	c03FilePT  = "internal/controller/apiextensions/composite/composition_pt.go"
	c03FileExt = "internal/controller/apiextensions/composite/extra_resources.go"
)

// c03Skel lists, in source order, the calls of recvType.fn whose final selector (or bare
// identifier) is in `names`; with returns, every `return` statement is recorded as "return".
// The receiver identifier is stripped ("g.cached.Get" -> "cached.Get").
func c03Skel(relFile, recvType, fn string, names map[string]bool, returns bool) ([]string, error) {
	fset := token.NewFileSet()
	f, err := parser.ParseFile(fset, filepath.Join(SkelRepo(), relFile), nil, 0)
	if err != nil {
		return nil, err
	}
	for _, d := range f.Decls {
		fd, ok := d.(*ast.FuncDecl)
		if !ok || fd.Name.Name != fn || fd.Body == nil {
			continue
		}
		root := ""
		if recvType == "" {
			if fd.Recv != nil {
				continue
			}
		} else {
			if fd.Recv == nil || len(fd.Recv.List) != 1 {
				continue
			}
			rt := fd.Recv.List[0].Type
			if st, ok := rt.(*ast.StarExpr); ok {
				rt = st.X
			}
			if id, ok := rt.(*ast.Ident); !ok || id.Name != recvType {
				continue
			}
			if len(fd.Recv.List[0].Names) == 1 {
				root = fd.Recv.List[0].Names[0].Name
			}
		}
		out := []string{}
		ast.Inspect(fd.Body, func(n ast.Node) bool {
			switch t := n.(type) {
			case *ast.ReturnStmt:
				if returns {
					out = append(out, "return")
				}
			case *ast.CallExpr:
				switch fun := t.Fun.(type) {
				case *ast.Ident:
					if names[fun.Name] {
						out = append(out, fun.Name)
					}
				case *ast.SelectorExpr:
					if !names[fun.Sel.Name] {
						return true
					}
					ch, ok := skelChain(t.Fun)
					if !ok {
						return true
					}
					if root != "" && strings.HasPrefix(ch, root+".") {
						ch = ch[len(root)+1:]
					}
					out = append(out, ch)
				}
			}
			return true
		})
		return out, nil
	}
	return nil, fmt.Errorf("function %s.%s not found in %s", recvType, fn, relFile)
}

func c03SkelDef(leanName, relFile, recvType, fn string, returns bool, names ...string) string {
	set := map[string]bool{}
	for _, n := range names {
		set[n] = true
	}
	sk, err := c03Skel(relFile, recvType, fn, set, returns)
	if err != nil {
		sk = []string{"EXTRACTION FAILED: " + err.Error()}
	}
	return fmt.Sprintf("/-- call skeleton of %s.%s (%s), source order, regenerated from the current tree -/\ndef %s : List String := %s\n", recvType, fn, relFile, leanName, leanStrList(sk))
}

func init() {
	RegisterDump("C03Skel", func() string {
		var sb strings.Builder
		// the loop of FetchingFunctionRunner.RunFunction, with its exits
		sb.WriteString(c03SkelDef("c03SkelRunFunction", c03FileExt, "FetchingFunctionRunner", "RunFunction", true,
			"RunFunction", "GetResults", "GetSeverity", "GetRequirements", "DeepEqual", "Equal", "GetExtraResources", "Fetch", "GetContext", "Errorf", "Wrapf"))
		// ExistingExtraResourcesFetcher.Fetch
		sb.WriteString(c03SkelDef("c03SkelFetch", c03FileExt, "ExistingExtraResourcesFetcher", "Fetch", true,
			"GetMatch", "GetMatchName", "GetNamespace", "Get", "List", "IsNotFound", "AsStruct", "MatchingLabels", "InNamespace", "GetLabels", "New"))
		// the function composer's collector
		sb.WriteString(c03SkelDef("c03SkelGcFn", c03FileFn, "DeletingComposedResourceGarbageCollector", "GarbageCollectComposedResources", true,
			"GetControllerOf", "GetUID", "RemoveLabels", "Get", "Update", "Patch", "Delete", "DeleteAllOf", "Create", "IgnoreNotFound", "Ignore"))
		// the P&T associator (observe + collect in one loop)
		sb.WriteString(c03SkelDef("c03SkelAssociate", c03FilePT, "GarbageCollectingAssociator", "AssociateTemplates", true,
			"AssociateByOrder", "GetResourceReferences", "Get", "List", "IsNotFound", "GetCompositionResourceName", "GetControllerOf", "GetUID",
			"RemoveLabels", "Update", "Patch", "Delete", "DeleteAllOf", "Create", "IgnoreNotFound", "Ignore"))
		// the observer of the function composer
		sb.WriteString(c03SkelDef("c03SkelObserve", c03FileFn, "ExistingComposedResourceObserver", "ObserveComposedResources", true,
			"GetResourceReferences", "Get", "List", "IsNotFound", "GetControllerOf", "GetUID", "GetCompositionResourceName", "FetchConnection"))
		// FunctionComposer.Compose: everything that reads or writes the API server, or that
		// the pipeline / rendering / collection / reference bookkeeping goes through
		sb.WriteString(c03SkelDef("c03SkelComposeFn", c03FileFn, "FunctionComposer", "Compose", false,
			"ObserveComposedResources", "FetchConnection", "AsState", "Get", "List", "RunFunction", "FromStruct",
			"RenderComposedResourceMetadata", "GenerateName", "GarbageCollectComposedResources", "UpdateResourceRefs",
			"Patch", "Update", "Create", "Delete", "Upgrade", "IsInvalid", "removeSystemConditions"))
		sb.WriteString(fmt.Sprintf("/-- composite.MaxRequirementsIterations -/\ndef c03MaxRequirementsIterations : Nat := %d\n", composite.MaxRequirementsIterations))
		return sb.String()
	})
}

//go:build verif

package main

// C10 "cseq" scenarios: ONE PTComposer, built once per scenario the way the definition
// controller builds it (NewPTComposer(cached, uncached, ...)), is driven through a SEQUENCE of
// reconciles of different composite resources against different composition revisions (same
// template names, other bases / patches / patch sets / order), over ONE simulated API server whose
// state persists from step to step. Around the Apply of every composed resource the world
// interferes:
//
//   view     what the informer cache serves for the existing resource: fresh, a miss (NotFound:
//            the associator falls back to the uncached client, the applicator tries to create) or
//            an older version;
//   getErr   the applicator's Get fails with an error of one of c10Classes;
//   interf   a third party (another controller, a user, the garbage collector) deletes / edits /
//            creates the resource after the composite's references were persisted ("update":
//            before the applicator's Get) or between the applicator's Get and its write ("write");
//            the consequences NotFound on the patch / AlreadyExists on the create are the API
//            server's own answers;
//   fault    the write is answered with an error of one of c10Classes (NotFound, AlreadyExists,
//            Conflict, Invalid, Forbidden, server timeout, 429, a Temporary() transport error,
//            context deadline, 500, 503);
//   upd / xrEdit / xrApply   the same for the two writes of the composite resource itself.
//
// The model stays per call: for every step the harness hands it the XR as read, the templates as
// authored plus the patch sets, the association (computed by the harness's own reading of the XR's
// references), what the applicator's Get returns (`got`) and what the API server holds at the
// moment of the write (`live`) - all decided by the scenario's plan before the real call, never
// read off the code under test. State carried from one call to the next by the long-lived
// composer shows up as a difference.
//
// Monitors on the real run (no model):
//   sent-differs-from-rendered   every object sent for a composed resource (created object / merge
//       patch body) is the one the real unit functions give for (XR, this template with its patch
//       sets inlined, the resource as the applicator read it): RenderFromJSON, Apply patch by
//       patch, RenderComposedResourceMetadata, the name oracle, mergeReplace per merge option;
//   compose-depends-on-history   the step is also run by a FRESH composer on a copy of the API
//       server taken before the step, under the same plan: the two observations must be equal;
//   unrendered-applied / half-rendered-applied / rendered-not-applied / reference-dropped /
//   present-source-skipped / source-modified / write-to-unknown-resource / panic, as in the
//   single-call scenarios, on every step.

import (
	"bytes"
	"context"
	"encoding/json"
	"errors"
	"fmt"
	"reflect"
	"sort"
	"strings"

	kerrors "k8s.io/apimachinery/pkg/api/errors"
	"k8s.io/apimachinery/pkg/apis/meta/v1/unstructured"
	"k8s.io/apimachinery/pkg/runtime"
	"k8s.io/apimachinery/pkg/runtime/schema"
	"k8s.io/apimachinery/pkg/types"
	"sigs.k8s.io/controller-runtime/pkg/client"

	"github.com/crossplane/crossplane-runtime/pkg/resource"
	ucomposed "github.com/crossplane/crossplane-runtime/pkg/resource/unstructured/composed"
	ucomposite "github.com/crossplane/crossplane-runtime/pkg/resource/unstructured/composite"

	v1 "github.com/crossplane/crossplane/apis/apiextensions/v1"
	"github.com/crossplane/crossplane/internal/controller/apiextensions/composite"
	"github.com/crossplane/crossplane/internal/names"
)

// ---------------------------------------------------------------- scenario types

type c10PatchSet struct {
	Name    string     `json:"name"`
	Patches []c10Patch `json:"patches"`
}

// c10Got is what the applicator's Get answers.
type c10Got struct {
	K   string `json:"k"` // notFound | found | err
	V   any    `json:"v"`
	Cls string `json:"cls"`
}

type c10WTpl struct {
	Name    *string    `json:"name"`
	BaseSrc string     `json:"baseSrc"`
	Base    any        `json:"base"`
	Patches []c10Patch `json:"patches"` // as authored: may refer to patch sets
	NameGen string     `json:"nameGen"` // the name the generator hands out, or "fail"
	NameErr string     `json:"nameErr"` // the class of the generator's error (nameGen = fail)
	// ---- the world around the Apply of this template's resource (inputs)
	View       string `json:"view"`       // "" (fresh) | miss | stale
	GetErr     string `json:"getErr"`     // class of the error answering the applicator's Get
	Fault      string `json:"fault"`      // class of the error answering the write
	Interf     string `json:"interf"`     // "" | delete | edit | create | createForeign
	InterfAt   string `json:"interfAt"`   // update | write
	InterfSpec any    `json:"interfSpec"` // the spec the third party writes
	// ---- filled by the harness from the API server's state and the plan
	RefKind       string     `json:"refKind"`
	RefAPIVersion string     `json:"refApiVersion"`
	RefName       string     `json:"refName"`
	Inl           []c10Patch `json:"inl"`    // the patches with the patch sets inlined, oracle tables filled
	Got           c10Got     `json:"got"`    // what the applicator's Get returns
	Live          any        `json:"live"`   // what the API server holds when the write arrives (null: nothing)
	Status        any        `json:"status"` // its status (read by the to-XR patches after the apply)
}

type c10Seed struct {
	Name   string `json:"name"`
	Tpl    string `json:"tpl"` // composition-resource-name annotation ("" = none)
	Spec   any    `json:"spec"`
	Status any    `json:"status"`
}

type c10WXR struct {
	Name  string    `json:"name"`
	Seeds []c10Seed `json:"seeds"`
}

type c10Step struct {
	XRName    string        `json:"xrName"`
	Spec      any           `json:"spec"`   // the composite's spec as its user left it before this reconcile
	Labels    any           `json:"labels"` // its labels
	XR        any           `json:"xr"`     // filled by the harness: the composite as handed to Compose
	Rev       string        `json:"rev"`
	PatchSets []c10PatchSet `json:"patchSets"`
	Tpls      []c10WTpl     `json:"tpls"`
	Upd       string        `json:"upd"`     // class of the error answering the update that persists the references
	XREdit    bool          `json:"xrEdit"`  // a third party edits the composite between the read and that update (409)
	XRApply   string        `json:"xrApply"` // class of the error answering the final patch of the composite
	InlineErr bool          `json:"inlineErr"`
}

type c10SeqScn struct {
	XRs   []c10WXR  `json:"xrs"`
	Steps []c10Step `json:"steps"`
}

// ---------------------------------------------------------------- API error classes

var c10Classes = []string{"notFound", "alreadyExists", "conflict", "invalid", "forbidden", "timeout", "tooMany", "temporary", "deadline", "internal", "unavailable"}

type c10TransportErr struct{ op string }

func (e c10TransportErr) Error() string   { return e.op + ": connection reset by peer" }
func (e c10TransportErr) Timeout() bool   { return false }
func (e c10TransportErr) Temporary() bool { return true }

func c10ErrOf(cls, verb, name string) error {
	gr := schema.GroupResource{Group: "example.org", Resource: "things"}
	switch cls {
	case "notFound":
		return kerrors.NewNotFound(gr, name)
	case "alreadyExists":
		return kerrors.NewAlreadyExists(gr, name)
	case "conflict":
		return kerrors.NewConflict(gr, name, errors.New("the object has been modified; please apply your changes to the latest version and try again"))
	case "invalid":
		return kerrors.NewInvalid(schema.GroupKind{Group: "example.org", Kind: "Thing"}, name, nil)
	case "forbidden":
		return kerrors.NewForbidden(gr, name, errors.New("user cannot "+verb+" resource"))
	case "timeout":
		return kerrors.NewServerTimeout(gr, verb, 1)
	case "tooMany":
		return kerrors.NewTooManyRequests("too many requests", 1)
	case "temporary":
		return c10TransportErr{op: verb + " https://10.96.0.1:443/apis/example.org/v1/things/" + name}
	case "deadline":
		return fmt.Errorf("%s %q: %w", verb, "https://10.96.0.1:443/apis/example.org/v1/things/"+name, context.DeadlineExceeded)
	case "unavailable":
		return kerrors.NewServiceUnavailable("the server is currently unable to handle the request")
	}
	return kerrors.NewInternalError(errors.New("injected server error"))
}

// ---------------------------------------------------------------- the world: one per composer

// c10StepPlan is the world of one reconcile, decided before the real call.
type c10StepPlan struct {
	xrName    string
	nameIdx   map[string]int            // composed resource name -> template index
	tplIdx    map[string]int            // template name -> template index
	names     []string                  // per template: the generator's answer ("" / "fail" = error)
	nameErr   []string                  // per template: class of the generator's error
	view      map[string]string         // composed resource name -> miss | stale
	staleObj  map[string]map[string]any // the version a stale cache serves
	getErr    map[string]string         // composed resource name -> class (applicator's Get)
	fault     map[string]string         // composed resource name -> class (write)
	upd       string
	xrEdit    bool
	xrApply   string
	atUpdate  []func()
	atWrite   map[string]func()
	applying  bool // the references have been persisted: the apply loop runs
	nameCalls int

	writes   []c10Write
	bodies   []any
	bodiesOf map[string][]any
	stored   []any
	storedOf map[string][]c10Stored
}

// c10Stored: what the API server holds after a write it accepted.
type c10Stored struct {
	verb string
	spec any
}

type c10World struct {
	st   *Store
	plan *c10StepPlan
}

func (w *c10World) generateName(cd resource.Object) error {
	p := w.plan
	k := p.nameCalls
	p.nameCalls++
	if cd.GetName() != "" || cd.GetGenerateName() == "" {
		return nil
	}
	if k >= len(p.names) || p.names[k] == "fail" || p.names[k] == "" {
		if k < len(p.nameErr) && p.nameErr[k] != "" {
			return c10ErrOf(p.nameErr[k], "get", cd.GetGenerateName())
		}
		return errors.New("cannot generate a name")
	}
	cd.SetName(p.names[k])
	return nil
}

// c10WClient is the client the long-lived composer holds: `cached` for the informer-backed one.
type c10WClient struct {
	*Store
	w      *c10World
	cached bool
}

func (c *c10WClient) Get(ctx context.Context, key client.ObjectKey, obj client.Object, opts ...client.GetOption) error {
	p := c.w.plan
	if p != nil && c.cached && obj.GetObjectKind().GroupVersionKind().Kind != "XThing" {
		n := key.Name
		if p.applying {
			if cls := p.getErr[n]; cls != "" {
				return c10ErrOf(cls, "get", n)
			}
		}
		switch p.view[n] {
		case "miss":
			return kerrors.NewNotFound(schema.GroupResource{Group: "example.org", Resource: "things"}, n)
		case "stale":
			if u, ok := obj.(runtime.Unstructured); ok && p.staleObj[n] != nil {
				u.SetUnstructuredContent(c10CopyMap(p.staleObj[n]))
				return nil
			}
		}
	}
	return c.Store.Get(ctx, key, obj, opts...)
}

func (c *c10WClient) target(kind, name string, obj client.Object) string {
	if kind == "XThing" {
		return "xr"
	}
	if i, ok := c.w.plan.nameIdx[name]; ok {
		return fmt.Sprint(i)
	}
	// a resource under a name the plan does not know (one the API server made up from
	// generateName, say): the template it was rendered from is the one its annotation names
	if n := obj.GetAnnotations()["crossplane.io/composition-resource-name"]; n != "" {
		if i, ok := c.w.plan.tplIdx[n]; ok {
			return fmt.Sprint(i)
		}
	}
	return "?" + name
}

// pre records a write attempt, lets the third party act and injects the planned answer.
func (c *c10WClient) pre(verb string, obj client.Object, body any) (string, error) {
	p := c.w.plan
	kind, name := obj.GetObjectKind().GroupVersionKind().Kind, obj.GetName()
	t := c.target(kind, name, obj)
	p.writes = append(p.writes, c10Write{Verb: verb, Target: t})
	if kind == "XThing" {
		switch verb {
		case "update":
			if p.xrEdit {
				p.xrEdit = false
				c.Store.Mutate(schema.GroupKind{Group: "example.org", Kind: "XThing"}, "", name, func(u *unstructured.Unstructured) {
					a := u.GetAnnotations()
					if a == nil {
						a = map[string]string{}
					}
					a["example.org/touched"] = a["example.org/touched"] + "x"
					u.SetAnnotations(a)
				})
			}
			if p.upd != "" {
				return t, c10ErrOf(p.upd, verb, name)
			}
		case "patch":
			if p.xrApply != "" {
				return t, c10ErrOf(p.xrApply, verb, name)
			}
		}
		return t, nil
	}
	if body != nil {
		p.bodies = append(p.bodies, body)
		p.bodiesOf[t] = append(p.bodiesOf[t], body)
	}
	if f := p.atWrite[name]; f != nil {
		delete(p.atWrite, name)
		f()
	}
	if cls := p.fault[name]; cls != "" {
		return t, c10ErrOf(cls, verb, name)
	}
	return t, nil
}

// post: the API server accepted the write.
func (c *c10WClient) post(t string, verb string, obj client.Object) {
	p := c.w.plan
	if t == "xr" {
		if verb == "update" {
			p.applying = true
			for _, f := range p.atUpdate {
				f()
			}
			p.atUpdate = nil
		}
		return
	}
	delete(p.view, obj.GetName())
	var spec any
	if u := c.Store.Peek(obj.GetObjectKind().GroupVersionKind().GroupKind(), "", obj.GetName()); u != nil {
		spec = c10Enc(c10MaskNumbers(c10CopyMap(u.Object)["spec"]))
	}
	p.stored = append(p.stored, spec)
	p.storedOf[t] = append(p.storedOf[t], c10Stored{verb: verb, spec: spec})
}

func (c *c10WClient) Create(ctx context.Context, obj client.Object, opts ...client.CreateOption) error {
	var body any
	if u, ok := obj.(runtime.Unstructured); ok {
		body = c10JSONBody(u.UnstructuredContent())
	}
	t, err := c.pre("create", obj, body)
	if err != nil {
		return err
	}
	if err := c.Store.Create(ctx, obj, opts...); err != nil {
		return err
	}
	c.post(t, "create", obj)
	return nil
}

func (c *c10WClient) Update(ctx context.Context, obj client.Object, opts ...client.UpdateOption) error {
	var body any
	if u, ok := obj.(runtime.Unstructured); ok && obj.GetObjectKind().GroupVersionKind().Kind != "XThing" {
		body = c10JSONBody(u.UnstructuredContent())
	}
	t, err := c.pre("update", obj, body)
	if err != nil {
		return err
	}
	if err := c.Store.Update(ctx, obj, opts...); err != nil {
		return err
	}
	c.post(t, "update", obj)
	return nil
}

func (c *c10WClient) Patch(ctx context.Context, obj client.Object, pt client.Patch, opts ...client.PatchOption) error {
	var body any
	if data, err := pt.Data(obj); err == nil {
		body = c10BytesBody(data)
	}
	t, err := c.pre("patch", obj, body)
	if err != nil {
		return err
	}
	if err := c.Store.Patch(ctx, obj, pt, opts...); err != nil {
		return err
	}
	c.post(t, "patch", obj)
	return nil
}

func (c *c10WClient) Delete(ctx context.Context, obj client.Object, opts ...client.DeleteOption) error {
	if _, err := c.pre("delete", obj, nil); err != nil {
		return err
	}
	return c.Store.Delete(ctx, obj, opts...)
}

// c10BytesBody decodes a JSON body into the scenario encoding (integers and floats kept apart).
func c10BytesBody(data []byte) any {
	d := json.NewDecoder(bytes.NewReader(data))
	d.UseNumber()
	var v any
	if d.Decode(&v) != nil {
		return nil
	}
	return c10Enc(c10Dec(v))
}

// c10JSONBody is an in-memory object as it looks on the wire.
func c10JSONBody(m map[string]any) any {
	b, err := json.Marshal(m)
	if err != nil {
		return nil
	}
	return c10BytesBody(b)
}

// c10SeqEnv: one API server, one world, one long-lived composer.
type c10SeqEnv struct {
	st   *Store
	w    *c10World
	comp *composite.PTComposer
}

func c10NewSeqEnv(st *Store) *c10SeqEnv {
	w := &c10World{st: st}
	cached := &c10WClient{Store: st, w: w, cached: true}
	uncached := &c10WClient{Store: st, w: w}
	namer := names.NameGeneratorFn(func(_ context.Context, cd resource.Object) error { return w.generateName(cd) })
	// the way the definition controller builds the composer of an XRD's controller
	// (definition/reconciler.go: NewPTComposer(engine.GetCached(), engine.GetUncached(), ...))
	comp := composite.NewPTComposer(cached, uncached, composite.WithComposedNameGenerator(namer))
	return &c10SeqEnv{st: st, w: w, comp: comp}
}

var c10XThingGK = schema.GroupKind{Group: "example.org", Kind: "XThing"}

// ---------------------------------------------------------------- preparing a step

func c10SpecOf(v any) map[string]any {
	m, _ := c10Dec(v).(map[string]any)
	if m == nil {
		return map[string]any{}
	}
	return c10CopyMap(m)
}

// c10PutXR brings the composite resource into the state its user left it in before this
// reconcile: spec and labels of the step, identity and references as the API server has them.
func c10PutXR(st *Store, s *c10Step, seeds []c10Seed) {
	spec := c10SpecOf(s.Spec)
	labels, _ := c10Dec(s.Labels).(map[string]any)
	if cur := st.Peek(c10XThingGK, "", s.XRName); cur != nil {
		st.Mutate(c10XThingGK, "", s.XRName, func(u *unstructured.Unstructured) {
			old, _ := u.Object["spec"].(map[string]any)
			if old != nil {
				if refs, ok := old["resourceRefs"]; ok {
					spec["resourceRefs"] = refs
				}
			}
			u.Object["spec"] = spec
			md := mdOf(u.Object)
			if labels != nil {
				md["labels"] = c10CopyMap(labels)
			} else {
				delete(md, "labels")
			}
		})
		return
	}
	refs := []any{}
	for _, sd := range seeds {
		refs = append(refs, map[string]any{"apiVersion": "example.org/v1", "kind": "Thing", "name": sd.Name})
	}
	if len(refs) > 0 {
		spec["resourceRefs"] = refs
	}
	md := map[string]any{"name": s.XRName, "uid": "uid-" + s.XRName}
	if labels != nil {
		md["labels"] = c10CopyMap(labels)
	}
	st.Seed(&unstructured.Unstructured{Object: map[string]any{"apiVersion": "example.org/v1", "kind": "XThing", "metadata": md, "spec": spec}})
	for _, sd := range seeds {
		anno := map[string]any{}
		if sd.Tpl != "" {
			anno["crossplane.io/composition-resource-name"] = sd.Tpl
		}
		o := map[string]any{
			"apiVersion": "example.org/v1", "kind": "Thing",
			"metadata": map[string]any{
				"name": sd.Name, "annotations": anno,
				"labels":          map[string]any{"crossplane.io/composite": s.XRName},
				"ownerReferences": []any{map[string]any{"apiVersion": "example.org/v1", "kind": "XThing", "name": s.XRName, "uid": "uid-" + s.XRName, "controller": true, "blockOwnerDeletion": true}},
			},
			"spec": c10SpecOf(sd.Spec),
		}
		if stt := c10Dec(sd.Status); stt != nil {
			o["status"] = stt
		}
		st.Seed(&unstructured.Unstructured{Object: o})
	}
}

type c10Ref struct{ apiVersion, kind, name string }

// c10AssociateRefs is the harness's own reading of "which existing resource belongs to which
// template" (the documented behaviour of the template associator): templates that are all named
// are matched through the composition-resource-name annotation of the referenced resources that
// still exist; otherwise - an anonymous template, or a referenced resource without the
// annotation - by position. gc: a referenced resource matches no template (never generated).
func c10AssociateRefs(st *Store, xr map[string]any, tpls []c10WTpl) (out []c10Ref, gc bool) {
	out = make([]c10Ref, len(tpls))
	var refs []c10Ref
	if sp, ok := xr["spec"].(map[string]any); ok {
		if l, ok := sp["resourceRefs"].([]any); ok {
			for _, e := range l {
				m, _ := e.(map[string]any)
				refs = append(refs, c10Ref{apiVersion: strOf(m, "apiVersion"), kind: strOf(m, "kind"), name: strOf(m, "name")})
			}
		}
	}
	byOrder := func() []c10Ref {
		o := make([]c10Ref, len(tpls))
		for i := range tpls {
			if i < len(refs) {
				o[i] = refs[i]
			}
		}
		return o
	}
	idx := map[string]int{}
	for i, t := range tpls {
		if t.Name == nil {
			return byOrder(), false
		}
		idx[*t.Name] = i
	}
	for _, r := range refs {
		if r.name == "" {
			continue
		}
		u := st.Peek(schema.GroupKind{Group: "example.org", Kind: r.kind}, "", r.name)
		if u == nil {
			continue
		}
		n := u.GetAnnotations()["crossplane.io/composition-resource-name"]
		if n == "" {
			return byOrder(), false
		}
		if i, ok := idx[n]; ok {
			out[i] = r
			continue
		}
		gc = true
	}
	return out, gc
}

// c10InlineOwn is the harness's own reading of patch-set inlining: a patch of type PatchSet is
// replaced, in place, by the patches of the patch set with exactly that name (the last one of
// that name); a patch set must not contain PatchSet patches; a missing or unknown name is an error.
func c10InlineOwn(pss []c10PatchSet, tpls []c10WTpl) ([][]c10Patch, bool) {
	byName := map[string][]c10Patch{}
	for _, ps := range pss {
		for _, p := range ps.Patches {
			if p.Type == "PatchSet" {
				return nil, false
			}
		}
		byName[ps.Name] = ps.Patches
	}
	out := make([][]c10Patch, len(tpls))
	for i, t := range tpls {
		for _, p := range t.Patches {
			if p.Type != "PatchSet" {
				out[i] = append(out[i], c10ClonePatch(p))
				continue
			}
			if p.Set == nil {
				return nil, false
			}
			ps, ok := byName[*p.Set]
			if !ok {
				return nil, false
			}
			for _, q := range ps {
				out[i] = append(out[i], c10ClonePatch(q))
			}
		}
	}
	return out, true
}

func c10ClonePatch(p c10Patch) c10Patch {
	var q c10Patch
	b, _ := json.Marshal(p)
	d := json.NewDecoder(bytes.NewReader(b))
	d.UseNumber()
	_ = d.Decode(&q)
	return q
}

// c10StepPrep is what the harness derives for one step before the real call.
type c10StepPrep struct {
	xrC     map[string]any
	cs      *c10ComposeScn // the inlined templates in the shape of the single-call scenarios
	rnd     []*c10TplRender
	refBody []any // per template: the reference body (nil: nothing may be sent)
	mons    []Mon
	hist    map[string][]map[string]any
}

func c10GK(kind string) schema.GroupKind { return schema.GroupKind{Group: "example.org", Kind: kind} }

func c10ThingOf(st *Store, kind, name string) map[string]any {
	if name == "" || kind == "" {
		return nil
	}
	if u := st.Peek(c10GK(kind), "", name); u != nil {
		return u.Object
	}
	return nil
}

// c10KindOf: the kind of the template's resource - the reference's, or the base's for a new one.
func c10KindOf(t *c10WTpl) string {
	if t.RefName != "" && t.RefKind != "" {
		return t.RefKind
	}
	if b, ok := c10Dec(t.Base).(map[string]any); ok {
		if k, ok := b["kind"].(string); ok {
			return k
		}
	}
	return "Thing"
}

// c10Interfere is the third party's action on a stored resource (nil = none).
func c10Interfere(t *c10WTpl, kind, name string, live map[string]any) map[string]any {
	switch t.Interf {
	case "delete":
		return nil
	case "edit":
		if live == nil {
			return nil
		}
		n := c10CopyMap(live)
		n["spec"] = c10SpecOf(t.InterfSpec)
		return n
	case "create", "createForeign":
		if live != nil {
			return live
		}
		md := map[string]any{"name": name}
		if t.Interf == "createForeign" {
			md["ownerReferences"] = []any{map[string]any{"apiVersion": "example.org/v1", "kind": "XThing", "name": "somebody-else", "uid": "uid-somebody-else", "controller": true, "blockOwnerDeletion": true}}
		}
		return map[string]any{"apiVersion": "example.org/v1", "kind": kind, "metadata": md, "spec": c10SpecOf(t.InterfSpec)}
	}
	return live
}

// c10Act realises c10Interfere on a store.
func c10Act(st *Store, t c10WTpl, kind, name string) func() {
	return func() {
		live := c10ThingOf(st, kind, name)
		next := c10Interfere(&t, kind, name, live)
		switch {
		case next == nil && live != nil:
			st.Remove(c10GK(kind), "", name)
		case next != nil && live == nil:
			st.Seed(&unstructured.Unstructured{Object: c10CopyMap(next)})
		case next != nil:
			st.Mutate(c10GK(kind), "", name, func(u *unstructured.Unstructured) { u.Object["spec"] = c10CopyMap(next)["spec"] })
		}
	}
}

// c10PrepStep normalises the step against the API server's state and fills everything the model
// needs: association, inlined patches with oracle tables, `got` and `live` of every template.
func c10PrepStep(st *Store, s *c10Step, hist map[string][]map[string]any) *c10StepPrep {
	pr := &c10StepPrep{hist: hist}
	xr0 := ucomposite.New()
	if err := st.Get(context.Background(), types.NamespacedName{Name: s.XRName}, xrGet(xr0)); err != nil {
		pr.mons = append(pr.mons, Mon{Sig: "C10:harness", Why: "cannot read the composite resource: " + err.Error()})
		return pr
	}
	pr.xrC = c10CopyMap(xr0.Object)
	s.XR = c10Enc(pr.xrC)
	for i := range s.PatchSets {
		for j := range s.PatchSets[i].Patches {
			c10PrepPatch(&s.PatchSets[i].Patches[j])
		}
	}
	inl, ok := c10InlineOwn(s.PatchSets, s.Tpls)
	s.InlineErr = !ok
	refs, _ := c10AssociateRefs(st, pr.xrC, s.Tpls)
	cs := &c10ComposeScn{XR: s.XR}
	pr.cs = cs
	for i := range s.Tpls {
		t := &s.Tpls[i]
		for j := range t.Patches {
			c10PrepPatch(&t.Patches[j])
		}
		t.RefKind, t.RefAPIVersion, t.RefName = refs[i].kind, refs[i].apiVersion, refs[i].name
		t.Base = c10DecodeBase(t.BaseSrc)
		t.Inl = nil
		if ok {
			t.Inl = inl[i]
			if t.Inl == nil {
				t.Inl = []c10Patch{}
			}
		}
		if t.NameGen != "fail" {
			t.NameErr = ""
		}
		// ---- the world of this template's resource, in the order things happen
		name := c10Or(t.RefName, t.NameGen)
		if name == "fail" {
			name = ""
		}
		kind := c10KindOf(t)
		live0 := c10ThingOf(st, kind, name)
		if t.RefName == "" {
			// nothing to miss or to lag behind; a third party can only create the name first
			t.View = ""
			if t.Interf != "create" && t.Interf != "createForeign" {
				t.Interf = ""
			}
		} else if t.Interf == "create" || t.Interf == "createForeign" {
			t.Interf = ""
		}
		if t.Interf == "" || name == "" {
			t.Interf, t.InterfAt, t.InterfSpec = "", "", nil
		} else {
			if t.InterfAt != "write" {
				t.InterfAt = "update"
			}
			t.InterfSpec = c10Enc(c10SpecOf(t.InterfSpec))
		}
		live1 := live0
		if t.InterfAt == "update" {
			live1 = c10Interfere(t, kind, name, live0)
		}
		if t.GetErr == "notFound" {
			// a NotFound answer is what a cache miss is
			t.GetErr, t.View = "", "miss"
			if t.RefName == "" {
				t.View = ""
			}
		}
		var stale map[string]any
		if t.View == "stale" {
			// an older version: one the cache held at the end of an earlier step, or the one from
			// before the third party's edit. (Only versions that carry the same template-name
			// annotation: association is not what this check is about.)
			sameTpl := func(o map[string]any) bool {
				return live1 != nil && reflect.DeepEqual(mdOf(c10CopyMap(o))["annotations"], mdOf(c10CopyMap(live1))["annotations"])
			}
			h := hist[name]
			for j := len(h) - 1; j >= 0 && stale == nil; j-- {
				if sameTpl(h[j]) && !reflect.DeepEqual(h[j]["spec"], live1["spec"]) {
					stale = h[j]
				}
			}
			if stale == nil && t.InterfAt == "update" && t.Interf == "edit" && live0 != nil && sameTpl(live0) {
				stale = live0
			}
			if stale == nil {
				t.View = ""
			}
		}
		if t.View == "miss" && live1 == nil {
			t.View = ""
		}
		switch {
		case name == "":
			t.Got = c10Got{K: "notFound"}
		case t.GetErr != "":
			t.Got = c10Got{K: "err", Cls: t.GetErr}
		case t.View == "miss" || live1 == nil:
			t.Got = c10Got{K: "notFound"}
		case t.View == "stale":
			t.Got = c10Got{K: "found", V: c10Enc(stale)}
		default:
			t.Got = c10Got{K: "found", V: c10Enc(live1)}
		}
		live2 := live1
		if t.InterfAt == "write" {
			live2 = c10Interfere(t, kind, name, live1)
		}
		t.Live, t.Status = nil, nil
		if live2 != nil {
			t.Live = c10Enc(live2)
			if stt, has := live2["status"]; has && stt != nil {
				t.Status = c10Enc(stt)
			}
		}
		// ---- the template in the shape of the single-call scenarios: reference rendering, oracles
		ct := c10Tpl{Name: t.Name, BaseSrc: t.BaseSrc, Base: t.Base, Patches: t.Inl, RefKind: t.RefKind, RefAPIVersion: t.RefAPIVersion,
			RefName: t.RefName, NameGen: t.NameGen, Status: t.Status}
		cs.Tpls = append(cs.Tpls, ct)
	}
	pr.rnd = make([]*c10TplRender, len(s.Tpls))
	pr.refBody = make([]any, len(s.Tpls))
	if !ok {
		return pr
	}
	for i := range s.Tpls {
		t := &s.Tpls[i]
		pr.rnd[i] = c10RenderAlone(cs, i, pr.xrC, &pr.mons)
		t.Inl = cs.Tpls[i].Patches
		r := pr.rnd[i]
		if r.parseErr || r.unrendered {
			continue
		}
		if t.Got.K == "found" {
			cur, _ := c10Dec(t.Got.V).(map[string]any)
			if d, fine := c10FillApplyOracles(&cs.Tpls[i], cur, r.obj); fine {
				pr.refBody[i] = c10JSONBody(d.Object)
			}
			t.Inl = cs.Tpls[i].Patches
		} else if t.Got.K == "notFound" {
			pr.refBody[i] = c10JSONBody(r.obj.Object)
		}
	}
	return pr
}

// c10BuildPlan turns the step into the world of one real call over the given API server.
func c10BuildPlan(st *Store, s *c10Step) *c10StepPlan {
	p := &c10StepPlan{xrName: s.XRName, nameIdx: map[string]int{}, tplIdx: map[string]int{}, view: map[string]string{}, staleObj: map[string]map[string]any{},
		getErr: map[string]string{}, fault: map[string]string{}, atWrite: map[string]func(){}, bodiesOf: map[string][]any{}, storedOf: map[string][]c10Stored{},
		upd: s.Upd, xrEdit: s.XREdit, xrApply: s.XRApply}
	for i, t := range s.Tpls {
		p.names = append(p.names, t.NameGen)
		p.nameErr = append(p.nameErr, t.NameErr)
		if t.Name != nil {
			p.tplIdx[*t.Name] = i
		}
		name := c10Or(t.RefName, t.NameGen)
		if name == "fail" || name == "" {
			continue
		}
		p.nameIdx[name] = i
		if t.View != "" {
			p.view[name] = t.View
			if t.View == "stale" {
				p.staleObj[name], _ = c10Dec(t.Got.V).(map[string]any)
			}
		}
		if t.GetErr != "" {
			p.getErr[name] = t.GetErr
		}
		if t.Fault != "" {
			p.fault[name] = t.Fault
		}
		switch t.InterfAt {
		case "update":
			p.atUpdate = append(p.atUpdate, c10Act(st, t, c10KindOf(&t), name))
		case "write":
			p.atWrite[name] = c10Act(st, t, c10KindOf(&t), name)
		}
	}
	return p
}

func c10SeqErrClass(err error) string {
	if err == nil {
		return ""
	}
	msg := err.Error()
	switch {
	case strings.Contains(msg, "cannot inline Composition patch sets"):
		return "inline"
	case strings.Contains(msg, "cannot associate composed resources with Composition resource templates"):
		return "associate"
	}
	return c10ComposeErrClass(err)
}

// c10StepOut is what one real Compose of a step did.
type c10StepOut struct {
	revMutated string
	obs        map[string]any
	plan       *c10StepPlan
	xr         *ucomposite.Unstructured
	ec         string
	pn         string
}

// c10RunStepOn runs the real Compose of the (prepared) step with the composer of `env`.
func c10RunStepOn(env *c10SeqEnv, s *c10Step) *c10StepOut {
	plan := c10BuildPlan(env.st, s)
	env.w.plan = plan
	out := &c10StepOut{plan: plan}
	xr := ucomposite.New()
	if err := env.st.Get(context.Background(), types.NamespacedName{Name: s.XRName}, xrGet(xr)); err != nil {
		out.ec = "other:cannot read the composite resource"
		out.obs = map[string]any{"err": out.ec}
		return out
	}
	out.xr = xr
	rev := &v1.CompositionRevision{}
	rev.SetName(s.Rev)
	for _, ps := range s.PatchSets {
		rps := v1.PatchSet{Name: ps.Name}
		for _, p := range ps.Patches {
			rps.Patches = append(rps.Patches, c10RealPatch(p))
		}
		rev.Spec.PatchSets = append(rev.Spec.PatchSets, rps)
	}
	for _, t := range s.Tpls {
		ct := v1.ComposedTemplate{Name: t.Name, Base: runtime.RawExtension{Raw: []byte(t.BaseSrc)}}
		for _, p := range t.Patches {
			ct.Patches = append(ct.Patches, c10RealPatch(p))
		}
		rev.Spec.Resources = append(rev.Spec.Resources, ct)
	}
	rev = c10WireRevision(rev)
	snap := c10SnapshotRevision(rev)
	var res composite.CompositionResult
	var cerr error
	out.pn = Guard(func() {
		res, cerr = env.comp.Compose(context.Background(), xr, composite.CompositionRequest{Revision: rev})
	})
	out.revMutated = c10RevisionMutated(snap, rev)
	out.ec = c10SeqErrClass(cerr)
	if out.pn != "" {
		out.ec = "panic"
	}
	synced := []any{}
	if out.ec == "" {
		for _, c := range res.Composed {
			synced = append(synced, c.Synced)
		}
	}
	writes := []any{}
	for _, w := range plan.writes {
		writes = append(writes, map[string]any{"verb": w.Verb, "target": w.Target})
	}
	if plan.bodies == nil {
		plan.bodies = []any{}
	}
	if plan.stored == nil {
		plan.stored = []any{}
	}
	refs := []any{}
	if out.ec != "parseBase" && out.ec != "inline" && out.ec != "associate" {
		for _, r := range xr.GetResourceReferences() {
			refs = append(refs, map[string]any{"kind": r.Kind, "name": r.Name})
		}
	}
	out.obs = map[string]any{"err": out.ec, "writes": writes, "bodies": plan.bodies, "stored": plan.stored, "refs": refs, "synced": synced}
	return out
}

// c10UserPart: the part of the composite that only its user writes (to-XR patches of the
// scenarios go to status, the composer itself writes spec.resourceRefs).
func c10UserPart(xr map[string]any) map[string]any {
	out := map[string]any{}
	if sp, ok := xr["spec"].(map[string]any); ok {
		sp = c10CopyMap(sp)
		delete(sp, "resourceRefs")
		out["spec"] = sp
	}
	if md, ok := xr["metadata"].(map[string]any); ok {
		out["name"], out["labels"], out["annotations"], out["uid"] = md["name"], md["labels"], md["annotations"], md["uid"]
	}
	return out
}

// c10StepMonitors evaluates the property on the real run of one step.
func c10StepMonitors(k int, s *c10Step, pr *c10StepPrep, run *c10StepOut) []Mon {
	var mons []Mon
	at := fmt.Sprintf("step %d: ", k)
	if run.pn != "" {
		mons = append(mons, Mon{Sig: "C10:panic", Why: at + "Compose panicked: " + c10Short(run.pn)})
		return mons
	}
	if strings.HasPrefix(run.ec, "other:") {
		mons = append(mons, Mon{Sig: "C10:unclassified-error", Why: at + run.ec})
	}
	if run.revMutated != "" {
		mons = append(mons, Mon{Sig: "C10:revision-mutated", Why: at + "Compose wrote to the CompositionRevision it was handed: " + run.revMutated})
	}
	if run.xr != nil && !reflect.DeepEqual(c10UserPart(run.xr.Object), c10UserPart(pr.xrC)) {
		mons = append(mons, Mon{Sig: "C10:source-modified", Why: at + "the spec or the metadata of the composite resource was modified by Compose"})
	}
	if s.InlineErr {
		return mons
	}
	parseOK := true
	for i := range s.Tpls {
		if pr.rnd[i].parseErr {
			parseOK = false
		}
	}
	if !parseOK {
		return mons
	}
	wrote := map[string]bool{}
	for _, w := range run.plan.writes {
		wrote[w.Target] = true
		if strings.HasPrefix(w.Target, "?") {
			mons = append(mons, Mon{Sig: "C10:write-to-unknown-resource", Why: at + "a write was addressed to " + w.Target})
		}
	}
	for i, t := range s.Tpls {
		ti := fmt.Sprint(i)
		if pr.rnd[i].unrendered && wrote[ti] {
			mons = append(mons, Mon{Sig: "C10:unrendered-applied", Why: at + "template " + ti + " failed to render but a write was addressed to its resource"})
		}
		if pr.rnd[i].halfRendered && wrote[ti] {
			mons = append(mons, Mon{Sig: "C10:half-rendered-applied", Why: at + "a from-XR patch of template " + ti + " (not an optional patch with a missing source) did not take effect, yet its resource was created or updated"})
		}
		// (a resource whose read by the applicator is answered with an error cannot be written; the
		// only class the reconcile survives is Invalid, and the resource is then reported unsynced)
		if !pr.rnd[i].unrendered && run.ec == "" && !wrote[ti] && t.Got.K != "err" {
			mons = append(mons, Mon{Sig: "C10:rendered-not-applied", Why: at + "template " + ti + " rendered and the reconcile succeeded but its resource was not written"})
		}
		if t.RefName != "" && run.ec != "parseBase" && run.ec != "associate" && run.xr != nil {
			got := run.xr.GetResourceReferences()
			if i >= len(got) || got[i].Name != t.RefName {
				mons = append(mons, Mon{Sig: "C10:reference-dropped", Why: at + "the reference to the existing resource of template " + ti + " was not kept"})
			}
		}
		// purity: whatever is sent for this template is what its own rendering and its own merge
		// options give for the resource as the applicator read it
		for _, b := range run.plan.bodiesOf[ti] {
			if pr.refBody[i] == nil {
				if !pr.rnd[i].unrendered {
					mons = append(mons, Mon{Sig: "C10:sent-differs-from-rendered", Why: at + "template " + ti + ": something was sent although the applicator's read failed or a merge option of the template fails: " + c10Short(mustJSON(b))})
				}
				continue
			}
			if !reflect.DeepEqual(b, pr.refBody[i]) {
				mons = append(mons, Mon{Sig: "C10:sent-differs-from-rendered", Why: at + "template " + ti + ": what was sent differs from the template rendered on its own for this composite and merged with the resource as read: " + c10Short(mustJSON(b)) + " vs " + c10Short(mustJSON(pr.refBody[i]))})
			}
		}
		// ... and what the API server holds afterwards is that object: created as it is if nothing
		// was there, otherwise merged (RFC 7386) into what the server held when the write arrived
		for _, sw := range run.plan.storedOf[ti] {
			ref, _ := c10Dec(pr.refBody[i]).(map[string]any)
			if ref == nil {
				continue
			}
			want := c10CopyMap(ref)
			if live, _ := c10Dec(t.Live).(map[string]any); live != nil {
				want = mergePatch(c10CopyMap(live), c10CopyMap(ref))
			}
			if ws := c10Enc(c10MaskNumbers(want["spec"])); !reflect.DeepEqual(sw.spec, ws) {
				mons = append(mons, Mon{Sig: "C10:stored-differs-from-rendered", Why: at + "template " + ti + ": after the accepted " + sw.verb + " the API server holds " + c10Short(mustJSON(sw.spec)) + ", the rendered template merged into the existing resource is " + c10Short(mustJSON(ws))})
			}
		}
	}
	return mons
}

func c10RunSeq(s *c10Scn) (any, []Mon, string) {
	sq := s.Seq
	st := NewStore(runtime.NewScheme())
	env := c10NewSeqEnv(st)
	var mons []Mon
	steps := []any{}
	res, envs := map[string]bool{}, map[string]bool{}
	hist := map[string][]map[string]any{}
	seeds := map[string][]c10Seed{}
	for _, x := range sq.XRs {
		seeds[x.Name] = x.Seeds
	}
	xrsSeen := map[string]bool{}
	for k := range sq.Steps {
		step := &sq.Steps[k]
		first := !xrsSeen[step.XRName]
		xrsSeen[step.XRName] = true
		c10PutXR(st, step, seeds[step.XRName])
		if first {
			for _, sd := range seeds[step.XRName] {
				if o := c10ThingOf(st, "Thing", sd.Name); o != nil {
					hist[sd.Name] = append(hist[sd.Name], o)
				}
			}
		}
		pr := c10PrepStep(st, step, hist)
		mons = append(mons, pr.mons...)
		if pr.xrC == nil {
			return map[string]any{}, mons, "trivial/harness-error"
		}
		// the same step by a composer that has no past, on a copy of the API server
		fresh := c10RunStepOn(c10NewSeqEnv(st.Clone()), step)
		run := c10RunStepOn(env, step)
		steps = append(steps, run.obs)
		mons = append(mons, c10StepMonitors(k, step, pr, run)...)
		if !reflect.DeepEqual(run.obs, fresh.obs) {
			mons = append(mons, Mon{Sig: "C10:compose-depends-on-history", Why: fmt.Sprintf("step %d: the long-lived composer and a fresh one differ on the same composite, revision and API server state: %s vs %s", k, c10Short(mustJSON(run.obs)), c10Short(mustJSON(fresh.obs)))})
		}
		// what the informer cache may still hold later on
		for _, o := range append(st.OfKind(c10ThingGK), st.OfKind(c10GK("Other"))...) {
			n := o.GetName()
			if h := hist[n]; len(h) == 0 || !reflect.DeepEqual(h[len(h)-1]["spec"], o.Object["spec"]) {
				hist[n] = append(hist[n], o.Object)
			}
		}
		res[c10Or(run.ec, "ok")] = true
		for _, t := range step.Tpls {
			if t.View != "" {
				envs["view"] = true
			}
			if t.Interf != "" {
				envs["interf"] = true
			}
			if t.GetErr != "" || t.Fault != "" {
				envs["class"] = true
			}
		}
		if len(step.PatchSets) > 0 {
			envs["sets"] = true
		}
	}
	join := func(m map[string]bool) string {
		l := make([]string, 0, len(m))
		for t := range m {
			l = append(l, t)
		}
		sort.Strings(l)
		return strings.Join(l, "+")
	}
	return map[string]any{"steps": steps}, mons, fmt.Sprintf("cseq/xrs=%d/%s/env=%s", len(xrsSeen), join(res), c10Or(join(envs), "quiet"))
}

var _ = ucomposed.New

//go:build verif

package main

// C15: the REAL xpkg.TeeReadCloser (internal/xpkg/reader.go) against the model
// Xp.C15.Tee.read (lean/Xp/Model/C15Tee.lean), scenario kind "tee": a scripted source (one
// read result per Read: some bytes and ok / eof / srcErr), a writer that fails once it holds
// `cap` bytes, and a consumer that keeps reading whatever it is told (as bufio.ReadLine under
// the YAML reader does when it holds a partial line). Direct monitors: an error is reported
// by every later Read (no clean EOF after a failed write: D18), and the consumer is handed
// exactly the bytes the writer accepted.

import (
	"errors"
	"fmt"
	"io"

	"github.com/crossplane/crossplane/internal/xpkg"
)

type c15TeeEv struct {
	Data []int  `json:"data"`
	Res  string `json:"res"` // ok | eof | srcErr
}

type c15TeeScn struct {
	Events []c15TeeEv `json:"events"`
	Cap    int        `json:"cap"`   // -1: the writer never fails
	Reads  int        `json:"reads"` // number of Read calls the consumer makes
}

type c15TeeObs struct {
	Reads [][2]any `json:"reads"` // per Read: number of bytes, ok | eof | srcErr | writeErr
	Seen  []int    `json:"seen"`  // every byte the consumer was handed
	Out   []int    `json:"out"`   // every byte the writer accepted
}

type c15ScriptReader struct {
	evs []c15TeeEv
	i   int
}

func (r *c15ScriptReader) Read(p []byte) (int, error) {
	if r.i >= len(r.evs) {
		return 0, io.EOF
	}
	ev := r.evs[r.i]
	r.i++
	n := 0
	for _, b := range ev.Data {
		p[n] = byte(b)
		n++
	}
	switch ev.Res {
	case "eof":
		return n, io.EOF
	case "srcErr":
		return n, errC15Src
	}
	return n, nil
}
func (r *c15ScriptReader) Close() error { return nil }

type c15CapWriter struct {
	cap int
	buf []byte
}

func (w *c15CapWriter) Write(p []byte) (int, error) {
	if w.cap >= 0 && len(w.buf)+len(p) > w.cap {
		k := w.cap - len(w.buf)
		if k < 0 {
			k = 0
		}
		w.buf = append(w.buf, p[:k]...)
		return k, errC15Fs
	}
	w.buf = append(w.buf, p...)
	return len(p), nil
}
func (w *c15CapWriter) Close() error { return nil }

func c15GenTee(r *Rng) c15Scn {
	t := &c15TeeScn{Cap: -1, Reads: r.Range(1, 8)}
	n := r.Range(0, 5)
	total := 0
	for i := 0; i < n; i++ {
		ev := c15TeeEv{Data: []int{}, Res: "ok"}
		for j, m := 0, Pick(r, []int{0, 1, 3, 8, 20}); j < m; j++ {
			ev.Data = append(ev.Data, (i*37+j*7+r.Intn(3))%251)
		}
		total += len(ev.Data)
		switch {
		case i == n-1 && r.Chance(2, 3):
			ev.Res = "eof" // bytes together with EOF
		case r.Chance(1, 8):
			ev.Res = "srcErr"
		case r.Chance(1, 10):
			ev.Res = "eof" // an early EOF followed by more script (a reader used past EOF)
		}
		t.Events = append(t.Events, ev)
	}
	if t.Events == nil {
		t.Events = []c15TeeEv{}
	}
	if r.Chance(3, 5) {
		t.Cap = r.Intn(total + 2)
	}
	return c15Scn{Kind: "tee", Revs: []c15Rev{}, Cfgs: []c15Cfg{}, Steps: []c15Step{}, Tee: t}
}

func c15RunTee(scn *c15Scn) (c15TeeObs, []Mon, string) {
	t := scn.Tee
	src := &c15ScriptReader{evs: t.Events}
	w := &c15CapWriter{cap: t.Cap}
	rc := xpkg.TeeReadCloser(src, w)
	obs := c15TeeObs{Reads: [][2]any{}, Seen: []int{}, Out: []int{}}
	var mons []Mon
	var first error
	cls := "clean"
	buf := make([]byte, 64)
	for i := 0; i < t.Reads; i++ {
		n, err := rc.Read(buf)
		res := "ok"
		switch {
		case err == nil:
		case errors.Is(err, io.EOF):
			res = "eof"
		case errors.Is(err, errC15Src):
			res = "srcErr"
		case errors.Is(err, errC15Fs):
			res = "writeErr"
		default:
			res = "other:" + err.Error()
		}
		obs.Reads = append(obs.Reads, [2]any{n, res})
		for _, b := range buf[:n] {
			obs.Seen = append(obs.Seen, int(b))
		}
		if first != nil && (n != 0 || err != first) {
			mons = append(mons, Mon{Sig: "C15:tee-error-not-sticky", Why: fmt.Sprintf("Read %d returned (%d, %v) after an earlier Read had returned the error %v: the consumer can carry on (to a clean EOF) although bytes were lost", i, n, err, first)})
		}
		if first == nil && err != nil && !errors.Is(err, io.EOF) {
			first = err
			cls = res
			if i < t.Reads-1 {
				cls += "+reads-on"
			}
		}
	}
	_ = rc.Close()
	for _, b := range w.buf {
		obs.Out = append(obs.Out, int(b))
	}
	if fmt.Sprint(obs.Seen) != fmt.Sprint(obs.Out) {
		mons = append(mons, Mon{Sig: "C15:tee-seen-differs-from-written", Why: fmt.Sprintf("the consumer was handed %v, the writer accepted %v", obs.Seen, obs.Out)})
	}
	return obs, mons, "test:tee/" + cls
}

//go:build verif

package main

// C18: the RBAC manager grants a provider no permission beyond what is allowed.
//
// Scenario kinds (all run REAL code of /repo over simstore):
//
//	validate   roles.ClusterRoleBackedValidator.ValidatePermissionRequests (Expand, the
//	           rule tree, Rule.path) against an allow-list ClusterRole; the rejected list
//	           is the observation. Monitor: every granular Kubernetes sub-rule of the
//	           requests (kubectl's BreakdownRule) that was NOT rejected must be covered by
//	           the allow list, by a transcription of Kubernetes' ruleCovers and by the
//	           authorizer's RuleAllows over a finite attribute universe.
//	reconcile  roles.Reconciler.Reconcile (real NewReconciler, APIUpdatingApplicator,
//	           ClusterRoleBackedValidator / VerySecureValidator, OrgDiffer,
//	           RenderClusterRoles, DefinedResources).
//	xrd        definition.Reconciler.Reconcile / definition.RenderClusterRoles.
//	binding    binding.Reconciler.Reconcile.
//
// A reconcile / xrd / binding scenario is a SEQUENCE of rounds driven through ONE long-lived
// reconciler (and one long-lived validator), as Setup builds them once per process; they are
// rebuilt only after a crash. Each round reconciles its own target (different revisions / XRDs
// follow each other), is preceded by edits of other writers, and runs in a world (c18_world.go)
// with other writers acting between any two of its API calls, an informer cache that lags or
// misses on reads, and error classes injected per call. The model is run per round (per call).
//
// The generators and the independent monitors live in c18_gen.go / c18_mon.go.

import (
	"context"
	"fmt"
	"sort"
	"strings"

	"github.com/google/go-containerregistry/pkg/name"
	appsv1 "k8s.io/api/apps/v1"
	corev1 "k8s.io/api/core/v1"
	rbacv1 "k8s.io/api/rbac/v1"
	kextv1 "k8s.io/apiextensions-apiserver/pkg/apis/apiextensions/v1"
	metav1 "k8s.io/apimachinery/pkg/apis/meta/v1"
	"k8s.io/apimachinery/pkg/apis/meta/v1/unstructured"
	"k8s.io/apimachinery/pkg/runtime"
	"k8s.io/apimachinery/pkg/runtime/schema"
	"k8s.io/apimachinery/pkg/types"
	"sigs.k8s.io/controller-runtime/pkg/client"
	ctrlmanager "sigs.k8s.io/controller-runtime/pkg/manager"
	"sigs.k8s.io/controller-runtime/pkg/reconcile"

	xpv1 "github.com/crossplane/crossplane-runtime/apis/common/v1"

	extv1 "github.com/crossplane/crossplane/apis/apiextensions/v1"
	pkgv1 "github.com/crossplane/crossplane/apis/pkg/v1"
	"github.com/crossplane/crossplane/internal/controller/rbac/definition"
	"github.com/crossplane/crossplane/internal/controller/rbac/provider/binding"
	"github.com/crossplane/crossplane/internal/controller/rbac/provider/roles"
)

// ---------------------------------------------------------------- scenario

// c18PRule is an rbacv1.PolicyRule (nil and empty lists are identified).
type c18PRule struct {
	V []string `json:"v"` // verbs
	G []string `json:"g"` // apiGroups
	R []string `json:"r"` // resources
	N []string `json:"n"` // resourceNames
	U []string `json:"u"` // nonResourceURLs
}

// c18Rule is a roles.Rule (the granular rule of the rule tree).
type c18Rule struct {
	G string `json:"g"`
	R string `json:"r"`
	N string `json:"n"`
	U string `json:"u"`
	V string `json:"v"`
}

type c18Ref struct {
	APIVersion string `json:"apiVersion"`
	Kind       string `json:"kind"`
	Name       string `json:"name"`
}

// c18Org is what go-containerregistry makes of spec.package (an oracle for the model).
type c18Org struct {
	Reg  string `json:"reg"`  // ref.Context().RegistryStr()
	Repo string `json:"repo"` // ref.Context().RepositoryStr(); the model computes the organisation (firstSeg)
	Org  string `json:"org"`  // first path element of Repo: used for the class name only, the model does not read it
}

type c18PR struct {
	Name     string     `json:"name"`
	UID      string     `json:"uid"`
	Paused   bool       `json:"paused"`
	Deleted  bool       `json:"deleted"`
	Inactive bool       `json:"inactive,omitempty"` // spec.desiredState Inactive (the reconcilers of the unchanged tree do not read it)
	Family   string     `json:"family"`
	Pkg      string     `json:"pkg"`
	Org      *c18Org    `json:"org"` // null = unparsable reference
	Refs     []c18Ref   `json:"refs"`
	Requests []c18PRule `json:"requests"`
}

type c18KV [2]string

type c18Role struct {
	Name   string     `json:"name"`
	Labels []c18KV    `json:"labels"` // sorted by key
	Rules  []c18PRule `json:"rules"`
	Ctrl   string     `json:"ctrl"` // uid of the controller owner reference, "" = none
}

type c18XRD struct {
	Name    string `json:"name"`
	UID     string `json:"uid"`
	Deleted bool   `json:"deleted"`
	Group   string `json:"group"`
	Plural  string `json:"plural"`
	Claim   string `json:"claim"`    // claim plural
	HasClaim bool  `json:"hasClaim"` // spec.claimNames != nil
}

type c18Deploy struct {
	NS     string   `json:"ns"`
	Name   string   `json:"name"`
	SA     string   `json:"sa"`
	Owners []string `json:"owners"` // owner reference UIDs
}

type c18Subject struct {
	NS   string `json:"ns"`
	Name string `json:"name"`
}

type c18Binding struct {
	Name     string       `json:"name"`
	RoleRef  string       `json:"roleRef"` // name of the referenced ClusterRole
	Subjects []c18Subject `json:"subjects"`
	Ctrl     string       `json:"ctrl"`
}

// c18Edit is one action of another writer (an administrator, another controller or replica,
// the garbage collector): set = create or replace (new resourceVersion), del = remove.
type c18Edit struct {
	Op      string      `json:"op"` // setRole delRole setPR delPR setXRD delXRD setDeploy delDeploy setBinding delBinding
	Name    string      `json:"name,omitempty"`
	NS      string      `json:"ns,omitempty"`
	Role    *c18Role    `json:"role,omitempty"`
	PR      *c18PR      `json:"pr,omitempty"`
	XRD     *c18XRD     `json:"xrd,omitempty"`
	Deploy  *c18Deploy  `json:"deploy,omitempty"`
	Binding *c18Binding `json:"binding,omitempty"`
	// setRole / setBinding of an existing object: deleted and re-created (new UID) instead of
	// edited in place (same UID, new resourceVersion)
	Recreate bool `json:"recreate,omitempty"`
}

// c18Ev is what happens at API call K of a round.
type c18Ev struct {
	K int `json:"k"`
	// "" | fail | conflict | crashBefore | crashAfter (fault plan) |
	// notFound | alreadyExists | conflictErr | forbidden | invalid | timeout | deadline (error class; not applied)
	O     string    `json:"o"`
	Edits []c18Edit `json:"edits"` // other writers, right before the call
	View  string    `json:"view"`  // a read is answered from: "" the store | "old" the store at round start | "old0" at scenario start
	Miss  []string  `json:"miss"`  // objects the informer cache has not seen (absent from the answer of a read)
}

type c18Round struct {
	Target string    `json:"target"`
	Pre    []c18Edit `json:"pre"` // other writers between the previous reconcile and this one
	Evs    []c18Ev   `json:"evs"`
}

// c18VStep is an earlier validation by the same long-lived validator: the allow-list role had
// this content (or was gone) and these requests were validated.
type c18VStep struct {
	Allow    []c18PRule `json:"allow"`
	Requests []c18PRule `json:"requests"`
	Gone     bool       `json:"gone"`     // the allow-list role did not exist
	Recreate bool       `json:"recreate"` // the role was deleted and re-created (new UID) rather than edited in place
}

type c18Scn struct {
	Kind string `json:"kind"`
	// validate + reconcile
	Allow    []c18PRule `json:"allow"`
	Requests []c18PRule `json:"requests"` // validate only
	// reconcile / xrd / binding
	Validator string       `json:"validator"` // "none" (VerySecureValidator) | "role" | "missing"
	PRs       []c18PR      `json:"prs"`       // sorted by name
	XRDs      []c18XRD     `json:"xrds"`
	Deploys   []c18Deploy  `json:"deploys"` // sorted by ns/name
	Target    string       `json:"target"`   // the revision / XRD the class is named after
	Roles     []c18Role    `json:"roles"`    // pre-existing ClusterRoles
	Bindings  []c18Binding `json:"bindings"` // pre-existing ClusterRoleBindings
	Rounds    []c18Round   `json:"rounds"`   // reconciles through ONE long-lived reconciler
	// validate: the validator is a long-lived object (built once at Setup): before the
	// validation proper it has already served these validations (RBAC objects have no
	// generation; only the resourceVersion moves when the role is edited in place)
	Pre []c18VStep `json:"pre"`
	// validate: "" | "done" = the context is already done (deadline exceeded / cancelled) when the
	// validator is called; Expand checks it on every granular rule
	Ctx string `json:"ctx"`
	// tree: raw rule-tree operations
	Paths   [][]string `json:"paths"`   // node.Allow(p) in this order
	Queries [][]string `json:"queries"` // node.Allowed(q)
}

type c18Obs struct {
	Rejected []c18Rule    `json:"rejected"`
	Cov      []bool       `json:"cov"` // validate: per granular sub-rule (BreakdownRule order), Kubernetes ruleCovers
	VErr     bool         `json:"verr"`
	Results  []string     `json:"results"` // per round: ok | requeue | err | crashed
	Writes   [][]string   `json:"writes"`  // per round: applied writes "create:<name>" / "update:<name>"
	Roles    []c18Role    `json:"roles"`   // final ClusterRoles, sorted by name
	Bindings []c18Binding `json:"bindings"`
	Allowed  []bool       `json:"allowed"` // tree: node.Allowed per query
	PreRej   [][]c18Rule  `json:"preRej"`  // validate: rejected list of each earlier validation
	PreErr   []bool       `json:"preErr"`
}

const (
	c18AllowName       = "allow"
	c18DefaultRegistry = "xpkg.upbound.io"
)

// ---------------------------------------------------------------- conversions

func c18NN(xs []string) []string {
	if xs == nil {
		return []string{}
	}
	return xs
}

func c18NilIfEmpty(xs []string) []string {
	if len(xs) == 0 {
		return nil
	}
	return append([]string{}, xs...)
}

func (p c18PRule) k8s() rbacv1.PolicyRule {
	return rbacv1.PolicyRule{Verbs: c18NilIfEmpty(p.V), APIGroups: c18NilIfEmpty(p.G), Resources: c18NilIfEmpty(p.R), ResourceNames: c18NilIfEmpty(p.N), NonResourceURLs: c18NilIfEmpty(p.U)}
}

func c18FromK8s(r rbacv1.PolicyRule) c18PRule {
	cp := func(xs []string) []string { return append([]string{}, xs...) }
	return c18PRule{V: cp(r.Verbs), G: cp(r.APIGroups), R: cp(r.Resources), N: cp(r.ResourceNames), U: cp(r.NonResourceURLs)}
}

func c18K8sRules(ps []c18PRule) []rbacv1.PolicyRule {
	out := make([]rbacv1.PolicyRule, 0, len(ps))
	for _, p := range ps {
		out = append(out, p.k8s())
	}
	return out
}

func c18FromK8sRules(rs []rbacv1.PolicyRule) []c18PRule {
	out := make([]c18PRule, 0, len(rs))
	for _, r := range rs {
		out = append(out, c18FromK8s(r))
	}
	return out
}

func c18FromRule(r roles.Rule) c18Rule {
	return c18Rule{G: r.APIGroup, R: r.Resource, N: r.ResourceName, U: r.NonResourceURL, V: r.Verb}
}

func c18Scheme() *runtime.Scheme {
	s := runtime.NewScheme()
	_ = rbacv1.AddToScheme(s)
	_ = appsv1.AddToScheme(s)
	_ = corev1.AddToScheme(s)
	_ = pkgv1.AddToScheme(s)
	_ = extv1.AddToScheme(s)
	return s
}

var (
	c18RoleGK    = schema.GroupKind{Group: rbacv1.GroupName, Kind: "ClusterRole"}
	c18BindingGK = schema.GroupKind{Group: rbacv1.GroupName, Kind: "ClusterRoleBinding"}
)

// c18Mgr is the minimal ctrl.Manager NewReconciler needs (only GetClient is called).
type c18Mgr struct {
	ctrlmanager.Manager
	c client.Client
}

func (m c18Mgr) GetClient() client.Client { return m.c }

// c18ParseOrg is the oracle handed to the model: registry and first repository path
// segment as go-containerregistry parses the reference (nil = unparsable).
func c18ParseOrg(pkg string) *c18Org {
	ref, err := name.ParseReference(pkg, name.WithDefaultRegistry(c18DefaultRegistry))
	if err != nil {
		return nil
	}
	c := ref.Context()
	return &c18Org{Reg: c.RegistryStr(), Repo: c.RepositoryStr(), Org: strings.Split(c.RepositoryStr(), "/")[0]}
}

// c18CtrlRef is the controller reference meta.AsController(meta.TypedReferenceTo(owner, gvk))
// yields for the scenario object with that UID (an unknown UID gets a made-up owner).
func c18CtrlRef(s c18Scn, uid string) []metav1.OwnerReference {
	if uid == "" {
		return nil
	}
	t := true
	ref := metav1.OwnerReference{APIVersion: "pkg.crossplane.io/v1", Kind: "ProviderRevision", Name: "owner-" + uid, UID: types.UID(uid), Controller: &t, BlockOwnerDeletion: &t}
	for _, p := range s.PRs {
		if p.UID == uid {
			ref.Name = p.Name
		}
	}
	for _, x := range s.XRDs {
		if x.UID == uid {
			ref.APIVersion, ref.Kind, ref.Name = "apiextensions.crossplane.io/v1", "CompositeResourceDefinition", x.Name
		}
	}
	return []metav1.OwnerReference{ref}
}

func c18RoleObj(s c18Scn, r c18Role) *rbacv1.ClusterRole {
	cr := &rbacv1.ClusterRole{ObjectMeta: metav1.ObjectMeta{Name: r.Name, OwnerReferences: c18CtrlRef(s, r.Ctrl)}, Rules: c18K8sRules(r.Rules)}
	if len(r.Labels) > 0 {
		cr.Labels = map[string]string{}
		for _, kv := range r.Labels {
			cr.Labels[kv[0]] = kv[1]
		}
	}
	return cr
}

func c18SeedRole(st *Store, s c18Scn, r c18Role) { st.Seed(c18RoleObj(s, r)) }

var c18Epoch = metav1.Unix(1700000000, 0)

func c18TypedRef(r c18Ref) xpv1.TypedReference {
	return xpv1.TypedReference{APIVersion: r.APIVersion, Kind: r.Kind, Name: r.Name}
}

func c18XRDObj(x c18XRD) *extv1.CompositeResourceDefinition {
	d := &extv1.CompositeResourceDefinition{ObjectMeta: metav1.ObjectMeta{Name: x.Name, UID: types.UID(x.UID)}}
	d.Spec.Group = x.Group
	d.Spec.Names.Plural = x.Plural
	d.Spec.Names.Kind = "X"
	if x.HasClaim {
		d.Spec.ClaimNames = &kextv1.CustomResourceDefinitionNames{Plural: x.Claim, Kind: "C"}
	}
	if x.Deleted {
		now := c18Epoch
		d.DeletionTimestamp = &now
		d.Finalizers = []string{"verif/keep"}
	}
	return d
}

// c18DeployObj: the owner references are those a real cluster shows: kind ProviderRevision,
// the NAME of the revision the UID belongs to; "<uid>-old" is an earlier incarnation of the
// revision with that uid (same name, another UID); an unknown UID is some other revision.
func c18DeployObj(s c18Scn, d c18Deploy) *appsv1.Deployment {
	dep := &appsv1.Deployment{ObjectMeta: metav1.ObjectMeta{Namespace: d.NS, Name: d.Name}}
	for _, u := range d.Owners {
		n := "other-revision"
		for _, p := range s.PRs {
			if p.UID == u || p.UID+"-old" == u {
				n = p.Name
			}
		}
		dep.OwnerReferences = append(dep.OwnerReferences, metav1.OwnerReference{APIVersion: "pkg.crossplane.io/v1", Kind: "ProviderRevision", Name: n, UID: types.UID(u)})
	}
	dep.Spec.Template.Spec.ServiceAccountName = d.SA
	return dep
}

func c18BindingObj(s c18Scn, b c18Binding) *rbacv1.ClusterRoleBinding {
	crb := &rbacv1.ClusterRoleBinding{ObjectMeta: metav1.ObjectMeta{Name: b.Name, OwnerReferences: c18CtrlRef(s, b.Ctrl)},
		RoleRef: rbacv1.RoleRef{APIGroup: rbacv1.GroupName, Kind: "ClusterRole", Name: b.RoleRef}}
	for _, sj := range b.Subjects {
		crb.Subjects = append(crb.Subjects, rbacv1.Subject{Kind: rbacv1.ServiceAccountKind, Namespace: sj.NS, Name: sj.Name})
	}
	return crb
}

func c18Store(s c18Scn) *Store {
	st := NewStore(c18Scheme())
	st.Namespaced[c18DeployGK] = true
	if s.Validator == "role" || s.Kind == "validate" {
		c18SeedRole(st, s, c18Role{Name: c18AllowName, Rules: s.Allow})
	}
	for _, p := range s.PRs {
		st.Seed(c18PRObj(p))
	}
	for _, x := range s.XRDs {
		st.Seed(c18XRDObj(x))
	}
	for _, d := range s.Deploys {
		st.Seed(c18DeployObj(s, d))
	}
	for _, r := range s.Roles {
		c18SeedRole(st, s, r)
	}
	for _, b := range s.Bindings {
		st.Seed(c18BindingObj(s, b))
	}
	return st
}

// ---------------------------------------------------------------- running the real code

func c18Ctrl(refs []metav1.OwnerReference) string {
	for _, r := range refs {
		if r.Controller != nil && *r.Controller {
			return string(r.UID)
		}
	}
	return ""
}

func c18FinalRoles(st *Store) []c18Role {
	out := []c18Role{}
	for _, u := range st.OfKind(c18RoleGK) {
		cr := &rbacv1.ClusterRole{}
		if err := runtime.DefaultUnstructuredConverter.FromUnstructured(u.Object, cr); err != nil {
			continue
		}
		if cr.Name == c18AllowName {
			continue
		}
		r := c18Role{Name: cr.Name, Labels: []c18KV{}, Rules: c18FromK8sRules(cr.Rules), Ctrl: c18Ctrl(cr.OwnerReferences)}
		for k, v := range cr.Labels {
			r.Labels = append(r.Labels, c18KV{k, v})
		}
		sort.Slice(r.Labels, func(i, j int) bool { return r.Labels[i][0] < r.Labels[j][0] })
		out = append(out, r)
	}
	sort.Slice(out, func(i, j int) bool { return out[i].Name < out[j].Name })
	return out
}

func c18FinalBindings(st *Store) []c18Binding {
	out := []c18Binding{}
	for _, u := range st.OfKind(c18BindingGK) {
		b := &rbacv1.ClusterRoleBinding{}
		if err := runtime.DefaultUnstructuredConverter.FromUnstructured(u.Object, b); err != nil {
			continue
		}
		ob := c18Binding{Name: b.Name, RoleRef: b.RoleRef.Name, Subjects: []c18Subject{}, Ctrl: c18Ctrl(b.OwnerReferences)}
		if b.RoleRef.Kind != "ClusterRole" || b.RoleRef.APIGroup != rbacv1.GroupName {
			ob.RoleRef = b.RoleRef.APIGroup + "/" + b.RoleRef.Kind + "/" + b.RoleRef.Name
		}
		for _, sj := range b.Subjects {
			n := sj.Name
			if sj.Kind != rbacv1.ServiceAccountKind {
				n = sj.Kind + ":" + n
			}
			ob.Subjects = append(ob.Subjects, c18Subject{NS: sj.Namespace, Name: n})
		}
		out = append(out, ob)
	}
	sort.Slice(out, func(i, j int) bool { return out[i].Name < out[j].Name })
	return out
}

func c18ValidateWith(v *roles.ClusterRoleBackedValidator, mode string, reqs []rbacv1.PolicyRule) (rej []roles.Rule, err error, panicked string) {
	return c18ValidateCtx(context.Background(), v, mode, reqs)
}

func c18ValidateCtx(ctx context.Context, v *roles.ClusterRoleBackedValidator, mode string, reqs []rbacv1.PolicyRule) (rej []roles.Rule, err error, panicked string) {
	panicked = Guard(func() {
		if mode == "none" {
			rej, err = roles.VerySecureValidator(ctx, reqs...)
			return
		}
		rej, err = v.ValidatePermissionRequests(ctx, reqs...)
	})
	return
}

// c18FreshVerdict is what a FRESH validator of the tree under test says about `reqs` against the
// allow-list content `allow` (nil = there is no allow-list role): nothing carried over from
// earlier calls.
func c18FreshVerdict(mode string, allow *[]c18PRule, reqs []c18PRule) (rejected int, failed bool) {
	st := NewStore(c18Scheme())
	if allow != nil {
		c18SeedRole(st, c18Scn{}, c18Role{Name: c18AllowName, Rules: *allow})
	}
	rej, err, p := c18ValidateWith(roles.NewClusterRoleBackedValidator(st, c18AllowName), mode, c18K8sRules(reqs))
	return len(rej), err != nil || p != ""
}

// c18SetAllow brings the allow-list role of a validate scenario to the content of a step.
func c18SetAllow(st *Store, rules []c18PRule, gone, recreate bool) {
	if gone {
		st.Remove(c18RoleGK, "", c18AllowName)
		return
	}
	if recreate || st.Peek(c18RoleGK, "", c18AllowName) == nil {
		st.Remove(c18RoleGK, "", c18AllowName)
		c18SeedRole(st, c18Scn{}, c18Role{Name: c18AllowName, Rules: rules}) // a new object: new UID
		return
	}
	st.Mutate(c18RoleGK, "", c18AllowName, func(u *unstructured.Unstructured) { // edited in place
		cr := &rbacv1.ClusterRole{}
		_ = runtime.DefaultUnstructuredConverter.FromUnstructured(u.Object, cr)
		cr.Rules = c18K8sRules(rules)
		m, _ := runtime.DefaultUnstructuredConverter.ToUnstructured(cr)
		u.Object = m
	})
}

// c18Controllers are the long-lived objects of the RBAC manager process.
func c18Controllers(cl client.Client, s c18Scn) reconcile.Reconciler {
	switch s.Kind {
	case "xrd":
		return definition.NewReconciler(c18Mgr{c: cl})
	case "binding":
		return binding.NewReconciler(c18Mgr{c: cl})
	}
	opts := []roles.ReconcilerOption{roles.WithOrgDiffer(roles.OrgDiffer{DefaultRegistry: c18DefaultRegistry})}
	if s.Validator != "none" {
		opts = append(opts, roles.WithPermissionRequestsValidator(roles.NewClusterRoleBackedValidator(cl, c18AllowName)))
	}
	return roles.NewReconciler(c18Mgr{c: cl}, opts...)
}

func c18Run(s c18Scn) (c18Obs, []Mon) {
	obs := c18Obs{Allowed: []bool{}, Rejected: []c18Rule{}, Cov: []bool{}, Results: []string{}, Writes: [][]string{}, Roles: []c18Role{}, Bindings: []c18Binding{},
		PreRej: [][]c18Rule{}, PreErr: []bool{}}
	var mons []Mon
	st := c18Store(s)

	if s.Kind == "tree" {
		if p := Guard(func() {
			t := roles.VerifNewTree()
			for _, q := range s.Paths {
				t.Allow(q)
			}
			for _, q := range s.Queries {
				obs.Allowed = append(obs.Allowed, t.Allowed(q))
			}
		}); p != "" {
			mons = append(mons, Mon{Sig: "C18:panic", Why: p})
		}
		mons = append(mons, c18MonTree(s, obs)...)
		return obs, mons
	}

	if s.Kind == "validate" {
		// ONE validator serves the earlier validations and the one the scenario is about
		val := roles.NewClusterRoleBackedValidator(st, c18AllowName)
		for _, step := range s.Pre {
			c18SetAllow(st, step.Allow, step.Gone, step.Recreate)
			rej, err, p := c18ValidateWith(val, "role", c18K8sRules(step.Requests))
			if p != "" {
				mons = append(mons, Mon{Sig: "C18:panic", Why: p})
			}
			rs := []c18Rule{}
			for _, r := range rej {
				rs = append(rs, c18FromRule(r))
			}
			obs.PreRej = append(obs.PreRej, rs)
			obs.PreErr = append(obs.PreErr, err != nil)
			allow := step.Allow
			if step.Gone { // no allow-list role: nothing can be covered, whatever the validator remembers
				allow = nil
			}
			mons = append(mons, c18MonValidate(c18Scn{Kind: "validate", Allow: allow, Requests: step.Requests}, rej, err)...)
		}
		c18SetAllow(st, s.Allow, false, false)
		ctx := context.Background()
		if s.Ctx == "done" {
			c, cancel := context.WithCancel(ctx)
			cancel()
			ctx = c
		}
		mode := "role"
		if s.Validator == "none" {
			mode = "none"
		}
		rej, err, p := c18ValidateCtx(ctx, val, mode, c18K8sRules(s.Requests))
		if p != "" {
			mons = append(mons, Mon{Sig: "C18:panic", Why: p})
		}
		obs.VErr = err != nil
		for _, r := range rej {
			obs.Rejected = append(obs.Rejected, c18FromRule(r))
		}
		for _, q := range s.Requests {
			for _, sub := range c18Breakdown(q.k8s()) {
				obs.Cov = append(obs.Cov, c18Covered(c18K8sRules(s.Allow), sub))
			}
		}
		ms := s
		if s.Validator == "none" {
			ms.Allow = nil // no allow-list: nothing is covered
		}
		mons = append(mons, c18MonValidate(ms, rej, err)...)
		if err == nil && p == "" && s.Ctx != "done" {
			mons = append(mons, c18MonIndependent(mode, s.Allow, s.Requests, rej)...)
		}
		return obs, mons
	}

	// what a fresh validator says about the target's requests on the initial store (class and
	// correspondence only; the monitors judge each write by what its reconcile was served)
	if s.Kind == "reconcile" {
		if t := c18Target(s); t != nil {
			var rejected []roles.Rule
			var verr error
			rejected, verr, _ = c18ValidateWith(roles.NewClusterRoleBackedValidator(st.Clone(), c18AllowName), s.Validator, c18K8sRules(t.Requests))
			for _, r := range rejected {
				obs.Rejected = append(obs.Rejected, c18FromRule(r))
			}
			obs.VErr = verr != nil
		}
	}

	w := &c18World{st: st, snap0: st.Clone()}
	cl := &c18Client{Store: st, w: w}
	rec := c18Controllers(cl, s)
	for i, rd := range s.Rounds {
		if st.Crashed() { // the process died: a new one starts, with new long-lived objects
			st.Revive()
			rec = c18Controllers(cl, s)
		}
		st.Plan, st.Before = nil, nil
		for _, e := range rd.Pre {
			c18ApplyEdit(st, &s, e)
		}
		w.snapR, w.base, w.evs, w.rec = st.Clone(), st.Calls, map[int]c18Ev{}, &c18RoundRec{Target: rd.Target}
		for _, e := range rd.Evs {
			w.evs[e.K] = e
		}
		w.install(&s)
		var res reconcile.Result
		var err error
		if p := Guard(func() {
			res, err = rec.Reconcile(context.Background(), reconcile.Request{NamespacedName: types.NamespacedName{Name: rd.Target}})
		}); p != "" {
			mons = append(mons, Mon{Sig: "C18:panic", Why: p})
		}
		st.Plan, st.Before = nil, nil
		switch {
		case st.Crashed():
			obs.Results = append(obs.Results, "crashed")
		case err != nil:
			obs.Results = append(obs.Results, "err")
		case res.Requeue:
			obs.Results = append(obs.Results, "requeue")
		default:
			obs.Results = append(obs.Results, "ok")
		}
		ws := []string{}
		for _, wr := range w.rec.Writes {
			ws = append(ws, wr.Verb+":"+wr.Name)
		}
		obs.Writes = append(obs.Writes, ws)
		var rm []Mon
		switch s.Kind {
		case "reconcile":
			rm = c18MonRoundReconcile(s, w.rec)
		case "xrd":
			rm = c18MonRoundXRD(s, w.rec)
		case "binding":
			rm = c18MonRoundBinding(s, w.rec)
		}
		for _, m := range rm {
			m.Why = fmt.Sprintf("round %d (target %s): %s", i, rd.Target, m.Why)
			mons = append(mons, m)
		}
	}
	st.Revive()
	obs.Roles = c18FinalRoles(st)
	obs.Bindings = c18FinalBindings(st)
	return obs, c18DedupMons(mons)
}

func c18DedupMons(ms []Mon) []Mon {
	seen := map[string]bool{}
	var out []Mon
	for _, m := range ms {
		if !seen[m.Sig] {
			seen[m.Sig] = true
			out = append(out, m)
		}
	}
	return out
}

// ---------------------------------------------------------------- registration

func c18Cls(s c18Scn, obs c18Obs) string {
	switch s.Kind {
	case "tree":
		yes := 0
		for _, a := range obs.Allowed {
			if a {
				yes++
			}
		}
		switch {
		case len(obs.Allowed) == 0:
			return "trivial/tree/no-query"
		case yes == 0:
			return "tree/none-allowed"
		case yes == len(obs.Allowed):
			return "tree/all-allowed"
		}
		return "tree/some-allowed"
	case "validate":
		special := ""
		hasURL, hasRes := false, false
		for _, a := range s.Allow {
			for _, n := range a.N {
				if n == "*" {
					special = "/allow-star-name"
				}
			}
			for _, u := range a.U {
				if u == "" {
					special = "/empty-url"
				}
			}
		}
		nsub := 0
		for _, q := range s.Requests {
			for _, n := range q.N {
				if strings.Contains(n, "/") && special == "" {
					special = "/slash-in-name"
				}
			}
			for _, r := range q.R {
				if strings.Contains(r, "/") && special == "" {
					special = "/subresource"
				}
			}
			for _, u := range q.U {
				if u == "" {
					special = "/empty-url"
				}
			}
			for _, sub := range c18Breakdown(q.k8s()) {
				nsub++
				if len(sub.NonResourceURLs) > 0 {
					hasURL = true
				} else {
					hasRes = true
				}
			}
		}
		if nsub == 0 {
			return "trivial/validate/no-granular-request"
		}
		kind := "resource-requests"
		if hasURL && hasRes {
			kind = "resource+url-requests"
		} else if hasURL {
			kind = "url-requests"
		}
		verdict := "all-granted"
		if len(obs.Rejected) > 0 {
			verdict = "some-rejected"
			if len(obs.Rejected) == c18ExpandLen(s.Requests) {
				verdict = "all-rejected"
			}
		}
		if len(s.Allow) == 0 {
			verdict = "empty-allow-list"
		}
		if obs.VErr {
			verdict = "validator-error"
		}
		return "validate/" + kind + "/" + verdict + special
	case "reconcile":
		t := c18Target(s)
		if t == nil {
			return "reconcile/revision-missing"
		}
		if t.Paused {
			return "reconcile/paused"
		}
		if t.Deleted {
			return "reconcile/deleted"
		}
		rej := "granted"
		if obs.VErr {
			rej = "validator-error"
		} else if len(obs.Rejected) > 0 {
			rej = "rejected"
		} else if len(t.Requests) == 0 {
			rej = "no-requests"
		}
		fam := "none"
		if t.Family != "" {
			same, cross := false, false
			for _, m := range s.PRs {
				if m.UID == t.UID || m.Family != t.Family {
					continue
				}
				if t.Org != nil && m.Org != nil && t.Org.Reg == m.Org.Reg && t.Org.Org == m.Org.Org {
					same = true
				} else {
					cross = true
				}
			}
			switch {
			case same && cross:
				fam = "same+other-org-members"
			case same:
				fam = "same-org-members"
			case cross:
				fam = "other-org-members"
			default:
				fam = "alone"
			}
		}
		return fmt.Sprintf("reconcile/validator=%s/%s/family=%s/%s", s.Validator, rej, fam, c18Flags(s))
	case "xrd":
		if len(s.XRDs) == 0 || s.XRDs[0].Name != s.Target {
			return "xrd/missing"
		}
		if s.XRDs[0].Deleted {
			return "xrd/deleted/" + c18Flags(s)
		}
		return fmt.Sprintf("xrd/claim=%t/n=%d/%s", s.XRDs[0].HasClaim, len(s.XRDs), c18Flags(s))
	case "binding":
		t := c18Target(s)
		if t == nil || t.Paused || t.Deleted {
			return "binding/inactive-revision"
		}
		nsub := 0
		for _, b := range obs.Bindings {
			if strings.HasPrefix(b.Name, "crossplane:provider:") {
				nsub += len(b.Subjects)
			}
		}
		switch {
		case nsub == 0:
			return "binding/no-subjects/" + c18Flags(s)
		case nsub == 1:
			return "binding/one-subject/" + c18Flags(s)
		}
		return "binding/many-subjects/" + c18Flags(s)
	}
	return "trivial/unknown-kind"
}

// c18Flags names the dimensions a scenario exercises beyond a single undisturbed reconcile.
func c18Flags(s c18Scn) string {
	targets := map[string]bool{}
	interf, between, cache, class, fault := false, false, false, false, false
	for i, rd := range s.Rounds {
		targets[rd.Target] = true
		if len(rd.Pre) > 0 && i > 0 {
			between = true
		}
		for _, e := range rd.Evs {
			if len(e.Edits) > 0 {
				interf = true
			}
			if e.View != "" || len(e.Miss) > 0 {
				cache = true
			}
			if c18IsClass(e.O) {
				class = true
			} else if e.O != "" {
				fault = true
			}
		}
	}
	var fs []string
	if len(s.Rounds) > 1 {
		fs = append(fs, "rounds")
	}
	if len(targets) > 1 {
		fs = append(fs, "targets")
	}
	if between {
		fs = append(fs, "edited-between")
	}
	if interf {
		fs = append(fs, "other-writer")
	}
	if cache {
		fs = append(fs, "cache")
	}
	if class {
		fs = append(fs, "errclass")
	}
	if fault {
		fs = append(fs, "fault")
	}
	if len(fs) == 0 {
		return "plain"
	}
	return strings.Join(fs, "+")
}

func c18ExpandLen(ps []c18PRule) int {
	n := 0
	for _, p := range ps {
		names := len(p.N)
		if names == 0 {
			names = 1
		}
		n += len(p.U)*len(p.V) + len(p.G)*len(p.R)*names*len(p.V)
	}
	return n
}

func c18Normalize(s *c18Scn) {
	nn := func(ps []c18PRule) []c18PRule {
		out := make([]c18PRule, 0, len(ps))
		for _, p := range ps {
			out = append(out, c18PRule{V: c18NN(p.V), G: c18NN(p.G), R: c18NN(p.R), N: c18NN(p.N), U: c18NN(p.U)})
		}
		return out
	}
	s.Allow = nn(s.Allow)
	s.Requests = nn(s.Requests)
	if s.PRs == nil {
		s.PRs = []c18PR{}
	}
	for i := range s.PRs {
		s.PRs[i].Requests = nn(s.PRs[i].Requests)
		if s.PRs[i].Refs == nil {
			s.PRs[i].Refs = []c18Ref{}
		}
		s.PRs[i].Org = c18ParseOrg(s.PRs[i].Pkg)
	}
	sort.SliceStable(s.PRs, func(i, j int) bool { return s.PRs[i].Name < s.PRs[j].Name })
	if s.XRDs == nil {
		s.XRDs = []c18XRD{}
	}
	if s.Deploys == nil {
		s.Deploys = []c18Deploy{}
	}
	for i := range s.Deploys {
		s.Deploys[i].Owners = c18NN(s.Deploys[i].Owners)
	}
	sort.SliceStable(s.Deploys, func(i, j int) bool {
		return s.Deploys[i].NS+"/"+s.Deploys[i].Name < s.Deploys[j].NS+"/"+s.Deploys[j].Name
	})
	if s.Roles == nil {
		s.Roles = []c18Role{}
	}
	for i := range s.Roles {
		s.Roles[i].Rules = nn(s.Roles[i].Rules)
		if s.Roles[i].Labels == nil {
			s.Roles[i].Labels = []c18KV{}
		}
		sort.Slice(s.Roles[i].Labels, func(a, b int) bool { return s.Roles[i].Labels[a][0] < s.Roles[i].Labels[b][0] })
	}
	if s.Bindings == nil {
		s.Bindings = []c18Binding{}
	}
	for i := range s.Bindings {
		if s.Bindings[i].Subjects == nil {
			s.Bindings[i].Subjects = []c18Subject{}
		}
	}
	if s.Rounds == nil {
		s.Rounds = []c18Round{}
	}
	if s.Pre == nil {
		s.Pre = []c18VStep{}
	}
	for i := range s.Pre {
		s.Pre[i].Allow = nn(s.Pre[i].Allow)
		s.Pre[i].Requests = nn(s.Pre[i].Requests)
	}
	normEdits := func(es []c18Edit) []c18Edit {
		if es == nil {
			return []c18Edit{}
		}
		for i := range es {
			if r := es[i].Role; r != nil {
				r.Rules = nn(r.Rules)
				if r.Labels == nil {
					r.Labels = []c18KV{}
				}
				sort.Slice(r.Labels, func(a, b int) bool { return r.Labels[a][0] < r.Labels[b][0] })
			}
			if p := es[i].PR; p != nil {
				p.Requests = nn(p.Requests)
				if p.Refs == nil {
					p.Refs = []c18Ref{}
				}
				p.Org = c18ParseOrg(p.Pkg)
			}
			if d := es[i].Deploy; d != nil {
				d.Owners = c18NN(d.Owners)
			}
			if b := es[i].Binding; b != nil && b.Subjects == nil {
				b.Subjects = []c18Subject{}
			}
		}
		return es
	}
	for i := range s.Rounds {
		s.Rounds[i].Pre = normEdits(s.Rounds[i].Pre)
		if s.Rounds[i].Evs == nil {
			s.Rounds[i].Evs = []c18Ev{}
		}
		for j := range s.Rounds[i].Evs {
			s.Rounds[i].Evs[j].Edits = normEdits(s.Rounds[i].Evs[j].Edits)
			s.Rounds[i].Evs[j].Miss = c18NN(s.Rounds[i].Evs[j].Miss)
		}
	}
	if s.Paths == nil {
		s.Paths = [][]string{}
	}
	if s.Queries == nil {
		s.Queries = [][]string{}
	}
	for i := range s.Paths {
		s.Paths[i] = c18NN(s.Paths[i])
	}
	for i := range s.Queries {
		s.Queries[i] = c18NN(s.Queries[i])
	}
}

func c18Emit(c *Ctx, s c18Scn, cls string) {
	c18Normalize(&s)
	obs, mons := c18Run(s)
	if cls == "" {
		cls = c18Cls(s, obs)
	}
	c.Emit(s, obs, mons, cls)
}

func init() {
	Register("C18", func(c *Ctx) {
		for _, raw := range c.Corpus {
			var s c18Scn
			if err := jsonUnmarshalStrict(raw, &s); err == nil && s.Kind != "" {
				c18Emit(c, s, "")
			}
		}
		// exhaustive small scope: thorough tier, first shard only (shard j gets seed S*1000+j)
		if c.Tier == "thorough" && c.Seed%1000 == 0 {
			c18Exhaustive(func(s c18Scn) { c18Emit(c, s, "") })
		}
		for i := 0; i < c.N; i++ {
			c18Emit(c, c18Gen(c.Rng), "")
		}
	})
	RegisterDump("Rbac", c18Dump)
}

//go:build verif

package main

// C05, family "del": the deletion branch of the REAL composite Reconciler.Reconcile (long-lived),
// driven through 1..3 reconciles of ONE XR that carries a deletion timestamp: with or without the
// composite finalizer, held by another finalizer or not, every reconcile paused / failing at the
// first Get / at UnpublishConnection / at RemoveFinalizer's Update with any error class / losing
// its final status update. An XR being deleted must never be reported Ready=True, and is Synced=True
// only when the deletion went through.

import (
	"context"
	"fmt"

	corev1 "k8s.io/api/core/v1"
	metav1 "k8s.io/apimachinery/pkg/apis/meta/v1"
	"k8s.io/apimachinery/pkg/apis/meta/v1/unstructured"
	"k8s.io/apimachinery/pkg/runtime"
	"k8s.io/apimachinery/pkg/types"
	"sigs.k8s.io/controller-runtime/pkg/reconcile"

	xpv1 "github.com/crossplane/crossplane-runtime/apis/common/v1"
	"github.com/crossplane/crossplane-runtime/pkg/reconciler/managed"
	"github.com/crossplane/crossplane-runtime/pkg/resource"
	ucomposite "github.com/crossplane/crossplane-runtime/pkg/resource/unstructured/composite"

	v1 "github.com/crossplane/crossplane/apis/apiextensions/v1"
	"github.com/crossplane/crossplane/internal/controller/apiextensions/composite"
)

type c05DelStep struct {
	Get    string `json:"get"` // class of the error answering the first Get ("" = it succeeds)
	Paused bool   `json:"paused"`
	Phase  string `json:"phase"` // "" | unpublish | removeFinalizer
	Err    string `json:"err"`
	Wrap   bool   `json:"wrap"`
	Lost   string `json:"lost"` // class of the error answering the final status update
}

type c05DelScn struct {
	Kind  string       `json:"kind"` // "del"
	Old   []c05Cond    `json:"old"`
	Fin   bool         `json:"fin"`  // the XR carries the composite finalizer
	Held  bool         `json:"held"` // ... and another one
	Steps []c05DelStep `json:"steps"`
}

type c05DelStepObs struct {
	Conds      []c05OCond `json:"conds"`
	ClaimTypes []string   `json:"claimTypes"`
	Wrote      bool       `json:"wrote"`
	Gone       bool       `json:"gone"`
}

type c05DelObs struct {
	Steps []c05DelStepObs `json:"steps"`
}

func c05GenDel(r *Rng) c05DelScn {
	s := c05DelScn{Kind: "del", Old: c05GenConds(r, 5, []string{"Old", "Available", "Creating", "ReconcileSuccess"}), Fin: r.Chance(4, 5), Held: r.Bool()}
	if !s.Fin {
		s.Held = true // an object without finalizers does not outlive its deletion
	}
	if r.Chance(1, 2) {
		// typically the XR was ready and synced when its deletion was requested
		s.Old = append([]c05Cond{{Type: "Ready", Status: "True", Reason: "Available"}, {Type: "Synced", Status: "True", Reason: "ReconcileSuccess"}}, c05DropSystem(s.Old)...)
	}
	for i, n := 0, r.Range(1, 3); i < n; i++ {
		st := c05DelStep{}
		switch r.Intn(12) {
		case 0:
			st.Paused = true
		case 1:
			st.Get = Pick(r, c05ErrClasses)
		case 2, 3, 4, 5, 6:
			st.Phase = Pick(r, []string{"unpublish", "removeFinalizer", "removeFinalizer"})
			st.Err = Pick(r, c05ErrClasses)
			st.Wrap = r.Bool()
		}
		if r.Chance(1, 10) {
			st.Lost = Pick(r, c05ErrClasses)
		}
		s.Steps = append(s.Steps, st)
	}
	return s
}

func c05DropSystem(cs []c05Cond) []c05Cond {
	out := []c05Cond{}
	for _, c := range cs {
		if c.Type != "Ready" && c.Type != "Synced" {
			out = append(out, c)
		}
	}
	return out
}

func c05RunDel(s c05DelScn) (c05DelObs, []Mon) {
	st := NewStore(runtime.NewScheme())
	cl := &c05Client{Store: st, StrictRV: true}
	gk := c05XRGVK.GroupKind()
	const name = "xr"
	xr := ucomposite.New(ucomposite.WithGroupVersionKind(c05XRGVK))
	xr.SetName(name)
	xr.SetCompositionReference(&corev1.ObjectReference{Name: "comp"})
	fins := []string{}
	if s.Fin {
		fins = append(fins, c05Finalizer)
	}
	if s.Held {
		fins = append(fins, "example.org/hold")
	}
	xr.SetFinalizers(fins)
	for _, c := range s.Old {
		xr.SetConditions(xpv1.Condition{Type: xpv1.ConditionType(c.Type), Status: corev1.ConditionStatus(c.Status), Reason: xpv1.ConditionReason(c.Reason), LastTransitionTime: metav1.Unix(1, 0)})
	}
	st.Seed(xr)
	// the deletion request
	_ = st.Delete(context.Background(), xr.DeepCopy())

	var cur *c05DelStep
	phaseErr := func(p string) error {
		if cur != nil && cur.Phase == p {
			return c05MkErr(cur.Err, cur.Wrap)
		}
		return nil
	}
	composed := false
	rec := composite.NewReconciler(cl, cl, resource.CompositeKind(c05XRGVK),
		composite.WithComposer(composite.ComposerFn(func(context.Context, *ucomposite.Unstructured, composite.CompositionRequest) (composite.CompositionResult, error) {
			composed = true
			return composite.CompositionResult{}, nil
		})),
		composite.WithCompositionSelector(composite.CompositionSelectorFn(func(context.Context, resource.Composite) error { return nil })),
		composite.WithCompositionRevisionFetcher(composite.CompositionRevisionFetcherFn(func(context.Context, resource.Composite) (*v1.CompositionRevision, error) {
			return &v1.CompositionRevision{}, nil
		})),
		composite.WithCompositionRevisionValidator(composite.CompositionRevisionValidatorFn(func(*v1.CompositionRevision) error { return nil })),
		composite.WithConfigurator(composite.ConfiguratorFn(func(context.Context, resource.Composite, *v1.CompositionRevision) error { return nil })),
		composite.WithConnectionPublishers(managed.ConnectionPublisherFns{
			PublishConnectionFn: func(context.Context, resource.ConnectionSecretOwner, managed.ConnectionDetails) (bool, error) {
				return false, nil
			},
			UnpublishConnectionFn: func(context.Context, resource.ConnectionSecretOwner, managed.ConnectionDetails) error {
				return phaseErr("unpublish")
			},
		}),
	)

	obs := c05DelObs{Steps: []c05DelStepObs{}}
	var mons []Mon
	seen := map[string]bool{}
	mon := func(sig, why string) {
		if !seen[sig] {
			seen[sig] = true
			mons = append(mons, Mon{Sig: sig, Why: why})
		}
	}
	for i := range s.Steps {
		step := &s.Steps[i]
		if st.Peek(gk, "", name) != nil {
			st.Mutate(gk, "", name, func(u *unstructured.Unstructured) {
				a := u.GetAnnotations()
				if a == nil {
					a = map[string]string{}
				}
				if step.Paused {
					a["crossplane.io/paused"] = "true"
				} else {
					delete(a, "crossplane.io/paused")
				}
				if len(a) == 0 {
					a = nil
				}
				u.SetAnnotations(a)
			})
		}
		before, _, _ := c05XRState(st, name)
		existed := st.Peek(gk, "", name) != nil
		finBefore := false
		if u := st.Peek(gk, "", name); u != nil {
			for _, f := range u.GetFinalizers() {
				finBefore = finBefore || f == c05Finalizer
			}
		}
		cur = step
		st.Log = nil
		finUpdateFailed := false
		cl.Inject = func(c c05Call) error {
			if c.Kind != c05XRGVK.Kind {
				return nil
			}
			switch {
			case c.Verb == "get" && step.Get != "":
				return c05MkErr(step.Get, step.Wrap)
			case c.Verb == "update" && c.Sub == "" && step.Phase == "removeFinalizer":
				finUpdateFailed = true
				return c05MkErr(step.Err, step.Wrap)
			case c.Verb == "update" && c.Sub == "status" && step.Lost != "":
				return c05MkErr(step.Lost, step.Wrap)
			}
			return nil
		}
		if p := Guard(func() {
			_, _ = rec.Reconcile(context.Background(), reconcile.Request{NamespacedName: types.NamespacedName{Name: name}})
		}); p != "" {
			mon("C05:panic", p)
		}
		cl.Inject = nil
		after, list, ct := c05XRState(st, name)
		so := c05DelStepObs{Conds: list, ClaimTypes: ct, Gone: st.Peek(gk, "", name) == nil}
		for _, l := range st.Log {
			if l.Verb == "update" && l.Sub == "status" && l.Applied {
				so.Wrote = true
			}
		}
		obs.Steps = append(obs.Steps, so)

		// ---- direct monitors (model-free)
		if composed {
			mon("C05:composed-while-deleting", fmt.Sprintf("step %d: Compose was called for an XR that carries a deletion timestamp", i))
		}
		if !existed || so.Gone {
			continue
		}
		// exactly the recorded finding and nothing else: THIS reconcile removed the composite finalizer
		// (it was there, nothing failed), another finalizer keeps the object, the status update took
		// effect - and the stored Ready condition is the one the XR had before instead of Deleting
		// (RemoveFinalizer's Update replaced the XR held in memory, the Deleting condition with it)
		lostDeleting := finBefore && !step.Paused && step.Get == "" && step.Phase == "" && so.Wrote && after["Ready"] == before["Ready"]
		sigReady := "C05:ready-true-while-deleting"
		if lostDeleting {
			sigReady = "C05:deleting-condition-lost-on-finalizer-removal"
		}
		if step.Paused && after["Ready"] != before["Ready"] {
			mon("C05:ready-set-on-error", fmt.Sprintf("step %d: a paused reconcile changed Ready from %q to %q", i, before["Ready"].Status, after["Ready"].Status))
		}
		if !step.Paused && after["Ready"].Status == "True" && (so.Wrote || before["Ready"].Status != "True") {
			mon(sigReady, fmt.Sprintf("step %d: a reconcile of an XR being deleted stored Ready=True (paused %v phase %q err %q)", i, step.Paused, step.Phase, step.Err))
		}
		if so.Wrote && !step.Paused && (after["Ready"].Status != "False" || after["Ready"].Reason != "Deleting") {
			mon(sigReady, fmt.Sprintf("step %d: the status stored for an XR being deleted does not carry Ready=False/Deleting but %q/%q", i, after["Ready"].Status, after["Ready"].Reason))
		}
		failed := step.Paused || step.Phase == "unpublish" || finUpdateFailed && step.Err != "notFound"
		if failed && after["Synced"].Status == "True" && (so.Wrote || before["Synced"].Status != "True") {
			mon("C05:synced-set-on-error", fmt.Sprintf("step %d: a deletion that did not go through (paused %v phase %q err %q) stored Synced=True", i, step.Paused, step.Phase, step.Err))
		}
		for t, c := range before {
			if t == "Ready" || t == "Synced" {
				continue
			}
			if after[t] != c {
				mon("C05:custom-condition-changed-by-deletion", fmt.Sprintf("step %d: the deletion branch changed the custom condition %q", i, t))
			}
		}
	}
	return obs, mons
}

func c05DelCls(s c05DelScn) string {
	first := "-"
	paused, lost, get := 0, 0, 0
	for _, st := range s.Steps {
		if st.Phase != "" && first == "-" {
			first = st.Phase + "=" + st.Err
		}
		if st.Paused {
			paused++
		}
		if st.Lost != "" {
			lost++
		}
		if st.Get != "" {
			get++
		}
	}
	return fmt.Sprintf("del/fin=%v/held=%v/steps=%d/paused=%d/get=%d/lost=%d/%s", s.Fin, s.Held, len(s.Steps), paused, get, lost, first)
}

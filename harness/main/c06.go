//go:build verif

package main

// C06: a claim binds exactly one XR and never hijacks another claim's XR.
//
// Drives the REAL claim.Reconciler (wired exactly like
// internal/controller/apiextensions/offered/reconciler.go does: default = the
// client-side syncer; with features.EnableBetaClaimSSA = server-side syncer +
// PatchingManagedFieldsUpgrader) over simstore, as a history of reconciles, each
// with a lagging cached read of the claim, a fault plan, and environment actions
// (XR-controller writes that never touch spec.claimRef, XR removal, claim
// deletion, claim edits) interleaved at call boundaries through the simstore
// After hook. The only replaced dependency is the source of random name
// suffixes (internal/names VerifNewNameGenerator: the real availability loop
// with scripted suffixes), so that name collisions can be generated and the
// names fed to the model as the name oracle.
//
// References are full references on both sides: the claim's spec.resourceRef is seeded (and rewritten
// by the environment) under every kind of apiVersion/kind (c06XRefTypes), XRs carry a spec.claimRef
// naming this claim, a claim with another name, the same name in another namespace, another kind /
// version / group (c06CRefVariant), and the controller incarnation of each reconcile is built for XR
// version v1 or v1alpha1 (c06Rec.XRV: the XRD's referenceable version switched, controller restarted).

import (
	"context"
	"fmt"
	"os"
	"sort"
	"strings"

	kerrors "k8s.io/apimachinery/pkg/api/errors"
	metav1 "k8s.io/apimachinery/pkg/apis/meta/v1"
	"k8s.io/apimachinery/pkg/apis/meta/v1/unstructured"
	"k8s.io/apimachinery/pkg/runtime"
	"k8s.io/apimachinery/pkg/runtime/schema"
	"k8s.io/apimachinery/pkg/types"
	"sigs.k8s.io/controller-runtime/pkg/client"
	"sigs.k8s.io/controller-runtime/pkg/client/apiutil"
	"sigs.k8s.io/controller-runtime/pkg/reconcile"

	"github.com/crossplane/crossplane-runtime/pkg/feature"
	"github.com/crossplane/crossplane-runtime/pkg/resource"

	"github.com/crossplane/crossplane/internal/controller/apiextensions/claim"
	"github.com/crossplane/crossplane/internal/features"
	"github.com/crossplane/crossplane/internal/names"
)

const (
	c06NS        = "ns"
	c06ClaimName = "c"
	c06Finalizer = "finalizer.apiextensions.crossplane.io"
	c06XRFin     = "composite.apiextensions.crossplane.io"
	c06LblName   = "crossplane.io/claim-name"
	c06LblNS     = "crossplane.io/claim-namespace"
	c06MaxLag    = 3
)

var (
	c06ClaimGVK = schema.GroupVersionKind{Group: "example.org", Version: "v1", Kind: "Thing"}
	c06XRGVK    = schema.GroupVersionKind{Group: "example.org", Version: "v1", Kind: "XThing"}
)

// ---- scenario ----

// c06Ref is a full typed reference: a claim's spec.resourceRef (reference.Composite: apiVersion =
// group/version, kind, name; NS and UID unused) or an XR's spec.claimRef (reference.Claim: apiVersion,
// kind, namespace, name; UID = the stored map also carries a uid key, which reference.Claim drops).
// Name == "" means the reference is unset.
type c06Ref struct {
	Name    string `json:"name"`
	NS      string `json:"ns"`
	Group   string `json:"group"`
	Version string `json:"version"`
	Kind    string `json:"kind"`
	UID     bool   `json:"uid"`
}

func c06APIVersion(g, v string) string {
	if g == "" {
		return v
	}
	return g + "/" + v
}

// c06XRefOf is the reference the syncers write for XR `name` when the controller runs for XR version ver.
func c06XRefOf(name, ver string) c06Ref {
	return c06Ref{Name: name, Group: c06XRGVK.Group, Version: ver, Kind: c06XRGVK.Kind}
}

// c06Self is this claim's reference (cm.GetReference()).
func c06Self() c06Ref {
	return c06Ref{Name: c06ClaimName, NS: c06NS, Group: c06ClaimGVK.Group, Version: c06ClaimGVK.Version, Kind: c06ClaimGVK.Kind}
}

// c06XRefTypes: the apiVersion/kind a claim's spec.resourceRef may carry, relative to the XR type the
// controller reconciles (example.org/<xrv> XThing). The pinned code reads only the NAME of the reference.
var c06XRefTypes = map[string][3]string{
	"v1":   {"example.org", "v1", "XThing"},       // a served version of the XR kind
	"v1a1": {"example.org", "v1alpha1", "XThing"}, // the other served version of the XR kind
	"grp":  {"other.org", "v1", "XThing"},         // another group
	"kind": {"example.org", "v1", "XOther"},       // another kind
	"none": {"", "", ""},                          // hand-written: name only
}

// c06CRefVariants: what an XR's spec.claimRef may name, relative to this claim (example.org/v1 Thing ns/c).
// cmp.Equal(cm.GetReference(), ref) compares apiVersion, kind, namespace and name: everything but
// "self" and "selfuid" is a DIFFERENT claim.
func c06CRefVariant(v string) c06Ref {
	r := c06Self()
	switch v {
	case "":
		return c06Ref{}
	case "self":
	case "selfuid":
		r.UID = true
	case "name":
		r.Name = "other"
	case "ns": // the claim with the same name in another namespace
		r.NS = "other-ns"
	case "nons": // a reference that lost its namespace
		r.NS = ""
	case "kind":
		r.Kind = "OtherThing"
	case "ver":
		r.Version = "v1alpha1"
	case "grp":
		r.Group = "other.org"
	}
	return r
}

// c06CRefClass names the variant of a claimRef (for cls and monitor messages).
func c06CRefClass(r c06Ref) string {
	me := c06Self()
	switch {
	case r.Name == "":
		return "unbound"
	case r.Name != me.Name:
		return "other-name"
	case r.NS != me.NS:
		return "other-ns"
	case r.Kind != me.Kind:
		return "other-kind"
	case r.Group != me.Group:
		return "other-group"
	case r.Version != me.Version:
		return "other-version"
	case r.UID:
		return "selfuid"
	}
	return "self"
}

type c06Claim struct {
	Ref        c06Ref `json:"ref"`        // spec.resourceRef (Name "" = unset)
	Fin        bool   `json:"fin"`        // carries the claim finalizer
	Deleting   bool   `json:"deleting"`   // deletionTimestamp set (only with Fin)
	Foreground bool   `json:"foreground"` // spec.compositeDeletePolicy = Foreground
}

type c06XR struct {
	Name     string `json:"name"`
	Ref      c06Ref `json:"ref"`      // spec.claimRef (Name "" = unset)
	Labeled  bool   `json:"labeled"`  // carries this claim's claim-name / claim-namespace labels
	Fin      bool   `json:"fin"`      // carries the XR controller's finalizer
	Deleting bool   `json:"deleting"` // deletionTimestamp set (only with Fin)
	Status   bool   `json:"status"`   // has a status
	MF       string `json:"mf"`       // managedFields: "legacy" | "ssa" | "ssabfa"  (not modelled: oracle)
}

type c06Env struct {
	ID    int    `json:"id"`    // unique within the scenario; an XR-controller write stores it as status.observed
	After int    `json:"after"` // applied right after call index `after` of the reconcile; -1 = before it starts
	Act   string `json:"act"`   // xrTouch | xrRemove | xrDelete | claimDelete | claimTouch | claimRetype
	Name  string `json:"name"`  // XR name (xr* actions)
	G     string `json:"g"`     // claimRetype: group, version, kind written into spec.resourceRef (the name stays)
	V     string `json:"v"`
	K     string `json:"k"`
}

type c06Fault struct {
	K int    `json:"k"`
	O string `json:"o"` // fail | conflict | crashBefore | crashAfter
}

// c06Read is the name oracle's sibling: what the lagging cache served for the
// claim (abstract content), recorded from the real run.
type c06Read struct {
	Found    bool   `json:"found"`
	Stale    bool   `json:"stale"` // an older version than the stored one
	Ref      string `json:"ref"`   // canonical spec.resourceRef: apiVersion|kind|name ("" = unset)
	Fin      bool   `json:"fin"`
	Deleting bool   `json:"deleting"`
}

// c06XRead: what the lagging cache served for one XR read (abstract content), recorded from the real run.
type c06XRead struct {
	Name     string `json:"name"`
	Found    bool   `json:"found"`
	Stale    bool   `json:"stale"` // an older state of that name than the stored one
	Ref      string `json:"ref"`   // canonical spec.claimRef: apiVersion|kind|namespace|name[+uid] ("" = unset)
	Labeled  bool   `json:"labeled"`
	Fin      bool   `json:"fin"`
	Deleting bool   `json:"deleting"`
	Status   bool   `json:"status"`
	Gen      int    `json:"gen"`      // status.observed
	AbsAfter int    `json:"absAfter"` // stale reads: how often the name was absent between the served state and the stored one
	DupAfter int    `json:"dupAfter"` // stale reads: how many newer, not current states of the same incarnation have the same abstract content
}

type c06Rec struct {
	XRV    string     `json:"xrv"`  // the XR version this incarnation of the controller reconciles ("" = v1)
	Lag    int        `json:"lag"`  // the cache serves the claim this many versions back (0 = fresh)
	XLag   []int      `json:"xlag"` // the cache serves the k-th XR read of the reconcile this many states back
	Faults []c06Fault `json:"faults"`
	Env    []c06Env   `json:"env"`
	// oracle, recorded from the real run
	Read   c06Read    `json:"read"`
	Up     string     `json:"up"`     // managed-fields upgrade patch: "" (none issued / not reached) | "ok" | "invalid"
	Names  []string   `json:"names"`  // name oracle: the names the generator drew during this reconcile, in order
	XReads []c06XRead `json:"xreads"` // what each XR read of this reconcile returned, in order
}

type c06Scn struct {
	Syncer string   `json:"syncer"` // "csa" | "ssa"
	Claim  c06Claim `json:"claim"`
	XRs    []c06XR  `json:"xrs"`
	Cands  []string `json:"cands"` // name oracle: the names the generator draws, in order
	Recs   []c06Rec `json:"recs"`
}

// ---- observation ----

type c06Call struct {
	Verb    string `json:"verb"` // get update patch create delete
	Obj     string `json:"obj"`  // "claim" | "xr"
	Name    string `json:"name"`
	Sub     string `json:"sub"`
	PT      string `json:"pt"`
	Outcome string `json:"outcome"`
	Err     string `json:"err"`
	Applied bool   `json:"applied"`
}

type c06OClaim struct {
	Exists   bool   `json:"exists"`
	Ref      string `json:"ref"`
	Fin      bool   `json:"fin"`
	Deleting bool   `json:"deleting"`
}

type c06OXR struct {
	Name     string `json:"name"`
	Ref      string `json:"ref"`
	Labeled  bool   `json:"labeled"`
	Fin      bool   `json:"fin"`
	Deleting bool   `json:"deleting"`
	Status   bool   `json:"status"`
}

type c06ORec struct {
	Calls []c06Call `json:"calls"`
	Res   string    `json:"res"` // ok | requeue | err | crashed
	Claim c06OClaim `json:"claim"`
	XRs   []c06OXR  `json:"xrs"`
}

type c06Obs struct {
	Recs []c06ORec `json:"recs"`
}

// ---- world ----

func c06ClaimRefMap(r c06Ref) map[string]any {
	m := map[string]any{"apiVersion": c06APIVersion(r.Group, r.Version), "kind": r.Kind, "name": r.Name}
	if r.NS != "" {
		m["namespace"] = r.NS
	}
	if r.UID {
		m["uid"] = "3f1c9a52-0000-4000-8000-000000000001"
	}
	return m
}

func c06XRefMap(r c06Ref) map[string]any {
	m := map[string]any{"name": r.Name}
	if av := c06APIVersion(r.Group, r.Version); av != "" {
		m["apiVersion"] = av
	}
	if r.Kind != "" {
		m["kind"] = r.Kind
	}
	return m
}

// c06XRefStr / c06CRefStr: canonical text of a stored reference (the model prints the same from its components).
func c06XRefStr(u *unstructured.Unstructured) string {
	m, ok, _ := unstructured.NestedMap(u.Object, "spec", "resourceRef")
	if !ok || m == nil {
		return ""
	}
	return fmt.Sprintf("%s|%s|%s", strOf(m, "apiVersion"), strOf(m, "kind"), strOf(m, "name"))
}

func c06XRefName(u *unstructured.Unstructured) string {
	if u == nil {
		return ""
	}
	n, _, _ := unstructured.NestedString(u.Object, "spec", "resourceRef", "name")
	return n
}

func c06CRefStr(u *unstructured.Unstructured) string {
	m, ok, _ := unstructured.NestedMap(u.Object, "spec", "claimRef")
	if !ok || m == nil {
		return ""
	}
	s := fmt.Sprintf("%s|%s|%s|%s", strOf(m, "apiVersion"), strOf(m, "kind"), strOf(m, "namespace"), strOf(m, "name"))
	if _, has := m["uid"]; has {
		s += "+uid"
	}
	return s
}

func c06SeedClaim(st *Store, c c06Claim) {
	u := &unstructured.Unstructured{Object: map[string]any{}}
	u.SetGroupVersionKind(c06ClaimGVK)
	u.SetNamespace(c06NS)
	u.SetName(c06ClaimName)
	spec := map[string]any{"param": "v"}
	if c.Ref.Name != "" {
		spec["resourceRef"] = c06XRefMap(c.Ref)
	}
	if c.Foreground {
		spec["compositeDeletePolicy"] = "Foreground"
	}
	u.Object["spec"] = spec
	if c.Fin {
		u.SetFinalizers([]string{c06Finalizer})
		if c.Deleting {
			t := metav1.Unix(1700000000, 0)
			u.SetDeletionTimestamp(&t)
		}
	}
	st.Seed(u)
}

func c06SeedXR(st *Store, x c06XR) {
	u := &unstructured.Unstructured{Object: map[string]any{}}
	u.SetGroupVersionKind(c06XRGVK)
	u.SetName(x.Name)
	spec := map[string]any{"param": "v"}
	if x.Ref.Name != "" {
		spec["claimRef"] = c06ClaimRefMap(x.Ref)
	}
	u.Object["spec"] = spec
	if x.Labeled {
		u.SetLabels(map[string]string{c06LblName: c06ClaimName, c06LblNS: c06NS})
	} else if x.Ref.Name != "" && (x.Ref.Name != c06ClaimName || x.Ref.NS != c06NS) {
		// the labels of the claim it is bound to (they only carry name and namespace)
		u.SetLabels(map[string]string{c06LblName: x.Ref.Name, c06LblNS: x.Ref.NS})
	}
	if x.Fin {
		u.SetFinalizers([]string{c06XRFin})
		if x.Deleting {
			t := metav1.Unix(1700000000, 0)
			u.SetDeletionTimestamp(&t)
		}
	}
	if x.Status {
		u.Object["status"] = map[string]any{"conditions": []any{map[string]any{"type": "Ready", "status": "False", "reason": "Creating", "lastTransitionTime": "2023-11-14T22:13:20Z"}}}
	}
	mf := []any{}
	switch x.MF {
	case "ssa":
		mf = append(mf, map[string]any{"manager": claim.FieldOwnerXR, "operation": "Apply"})
	case "ssabfa":
		mf = append(mf, map[string]any{"manager": claim.FieldOwnerXR, "operation": "Apply"}, map[string]any{"manager": "before-first-apply", "operation": "Update"})
	default:
		mf = append(mf, map[string]any{"manager": "crossplane", "operation": "Update"})
	}
	mdOf(u.Object)["managedFields"] = mf
	st.Seed(u)
}

// c06RefClass classifies a stored XR's spec.claimRef the way the property does: "" (none), "self"
// (apiVersion, kind, namespace and name are this claim's — what cmp.Equal on reference.Claim
// compares; a uid key is not part of it), or "other:<first differing component>".
func c06RefClass(u *unstructured.Unstructured) string {
	m, ok, _ := unstructured.NestedMap(u.Object, "spec", "claimRef")
	if !ok || m == nil {
		return ""
	}
	switch {
	case strOf(m, "name") != c06ClaimName:
		return "other:name"
	case strOf(m, "namespace") != c06NS:
		return "other:namespace"
	case strOf(m, "kind") != c06ClaimGVK.Kind:
		return "other:kind"
	case strOf(m, "apiVersion") != c06ClaimGVK.GroupVersion().String():
		return "other:apiVersion"
	}
	return "self"
}

func c06Labeled(u *unstructured.Unstructured) bool {
	l := u.GetLabels()
	return l[c06LblName] == c06ClaimName && l[c06LblNS] == c06NS
}

func c06HasFin(u *unstructured.Unstructured, f string) bool {
	for _, x := range u.GetFinalizers() {
		if x == f {
			return true
		}
	}
	return false
}

func c06AbsClaim(u *unstructured.Unstructured) c06OClaim {
	if u == nil {
		return c06OClaim{}
	}
	return c06OClaim{Exists: true, Ref: c06XRefStr(u), Fin: c06HasFin(u, c06Finalizer), Deleting: u.GetDeletionTimestamp() != nil}
}

func c06AbsXR(u *unstructured.Unstructured) c06OXR {
	_, hasStatus := u.Object["status"]
	return c06OXR{Name: u.GetName(), Ref: c06CRefStr(u), Labeled: c06Labeled(u), Fin: len(u.GetFinalizers()) > 0,
		Deleting: u.GetDeletionTimestamp() != nil, Status: hasStatus}
}

func c06XRs(st *Store) []c06OXR {
	out := []c06OXR{}
	for _, u := range st.OfKind(c06XRGVK.GroupKind()) {
		out = append(out, c06AbsXR(u))
	}
	sort.Slice(out, func(i, j int) bool { return out[i].Name < out[j].Name })
	return out
}

// c06ApplyEnv performs one environment action out of band.
func c06ApplyEnv(st *Store, e c06Env, tick *int) {
	xgk, cgk := c06XRGVK.GroupKind(), c06ClaimGVK.GroupKind()
	*tick++
	switch e.Act {
	case "xrTouch":
		// what the XR controller does: finalizer, status; never spec.claimRef
		st.Mutate(xgk, "", e.Name, func(u *unstructured.Unstructured) {
			if !c06HasFin(u, c06XRFin) {
				u.SetFinalizers(append(u.GetFinalizers(), c06XRFin))
			}
			u.Object["status"] = map[string]any{"observed": int64(e.ID), "conditions": []any{map[string]any{"type": "Ready", "status": "True", "reason": "Available", "lastTransitionTime": "2023-11-14T22:13:20Z"}}}
		})
	case "xrRemove":
		st.Remove(xgk, "", e.Name)
	case "xrDelete":
		st.Mutate(xgk, "", e.Name, func(u *unstructured.Unstructured) {
			if len(u.GetFinalizers()) > 0 && u.GetDeletionTimestamp() == nil {
				t := metav1.Unix(1700000000, 0)
				u.SetDeletionTimestamp(&t)
			}
		})
		if u := st.Peek(xgk, "", e.Name); u != nil && len(u.GetFinalizers()) == 0 {
			st.Remove(xgk, "", e.Name)
		}
	case "claimDelete":
		if u := st.Peek(cgk, c06NS, c06ClaimName); u != nil {
			if len(u.GetFinalizers()) == 0 {
				st.Remove(cgk, c06NS, c06ClaimName)
			} else {
				st.Mutate(cgk, c06NS, c06ClaimName, func(u *unstructured.Unstructured) {
					if u.GetDeletionTimestamp() == nil {
						t := metav1.Unix(1700000000, 0)
						u.SetDeletionTimestamp(&t)
					}
				})
			}
		}
	case "claimRetype":
		// somebody (a restore from a backup taken under another served version, a hand edit) rewrites
		// apiVersion/kind of spec.resourceRef; the name stays
		st.Mutate(cgk, c06NS, c06ClaimName, func(u *unstructured.Unstructured) {
			m, ok, _ := unstructured.NestedMap(u.Object, "spec", "resourceRef")
			if !ok || m == nil {
				return
			}
			av := c06APIVersion(e.G, e.V)
			if strOf(m, "apiVersion") == av && strOf(m, "kind") == e.K {
				return
			}
			_ = unstructured.SetNestedMap(u.Object, c06XRefMap(c06Ref{Name: strOf(m, "name"), Group: e.G, Version: e.V, Kind: e.K}), "spec", "resourceRef")
		})
	case "claimTouch":
		// a user edit of the claim that bumps its resourceVersion; a reserved label key is
		// never propagated to the XR (field-level sync is C07's subject)
		st.Mutate(cgk, c06NS, c06ClaimName, func(u *unstructured.Unstructured) {
			l := u.GetLabels()
			if l == nil {
				l = map[string]string{}
			}
			l["verif.k8s.io/edit"] = fmt.Sprint(*tick)
			u.SetLabels(l)
		})
	}
}

func c06Outcome(o string) Outcome {
	switch o {
	case "fail":
		return Fail
	case "conflict":
		return Conflict
	case "crashBefore":
		return CrashBefore
	case "crashAfter":
		return CrashAfter
	}
	return OK
}

// c06NewReconciler wires the claim reconciler the way offered/reconciler.go does.
// c06Cache is the controller engine's cached client: every read goes through it. Claim reads
// lag through simstore's own history (st.Lag); XR reads are served from the per-name state
// history kept here, which (unlike simstore's) also remembers that a name was absent.
type c06Cache struct {
	*Store
	xh     map[string][]*unstructured.Unstructured // states of each XR name, oldest first; nil = absent
	seeded bool
	rec    *c06Rec // current reconcile (lags in, oracle out)
}

// snapshot appends the current state of every XR name whose state changed.
func (c *c06Cache) snapshot() {
	cur := map[string]*unstructured.Unstructured{}
	for _, u := range c.Store.OfKind(c06XRGVK.GroupKind()) {
		cur[u.GetName()] = u
	}
	for n, u := range cur {
		h, ok := c.xh[n]
		if !ok && c.seeded {
			h = []*unstructured.Unstructured{nil} // the name was absent until now
		}
		if len(h) == 0 || h[len(h)-1] == nil || h[len(h)-1].GetResourceVersion() != u.GetResourceVersion() {
			h = append(h, u)
		}
		c.xh[n] = h
	}
	for n, h := range c.xh {
		if _, ok := cur[n]; !ok && len(h) > 0 && h[len(h)-1] != nil {
			c.xh[n] = append(h, nil)
		}
	}
	c.seeded = true
}

func (c *c06Cache) Get(ctx context.Context, key client.ObjectKey, obj client.Object, opts ...client.GetOption) error {
	gvk, err := apiutil.GVKForObject(obj, c.Store.Scheme())
	if err != nil || gvk.GroupKind() != c06XRGVK.GroupKind() {
		return c.Store.Get(ctx, key, obj, opts...)
	}
	n0 := len(c.Store.Log)
	before := runtime.DeepCopyJSON(obj.(runtime.Unstructured).UnstructuredContent())
	// the history as of this read: an environment action scheduled "after this call" runs inside
	// Store.Get's After hook and must not count as a state the read lags behind
	h, ok := c.xh[key.Name]
	h = h[:len(h):len(h)]
	err = c.Store.Get(ctx, key, obj, opts...)
	if len(c.Store.Log) == n0 || c.rec == nil {
		return err // the process is dead: the call never happened
	}
	occ := len(c.rec.XReads)
	rd := c06XRead{Name: key.Name}
	last := &c.Store.Log[len(c.Store.Log)-1]
	if last.Outcome != "ok" {
		c.rec.XReads = append(c.rec.XReads, rd) // injected fault: nothing was read
		return err
	}
	if !ok {
		h = []*unstructured.Unstructured{nil}
	}
	lag := 0
	if occ < len(c.rec.XLag) {
		lag = c.rec.XLag[occ]
	}
	idx := len(h) - 1 - lag
	if idx < 0 {
		idx = 0
	}
	v := h[idx]
	rd.Stale = idx != len(h)-1
	for i := idx + 1; i < len(h)-1; i++ {
		if h[i] == nil {
			rd.AbsAfter++
		}
	}
	if v != nil {
		// several older states of one incarnation may have the same abstract content (they differ in
		// resourceVersion only): tell the model which of them was served
		key := func(u *unstructured.Unstructured) string {
			gen, _, _ := unstructured.NestedInt64(u.Object, "status", "observed")
			return fmt.Sprint(c06AbsXR(u), gen)
		}
		for i := idx + 1; i < len(h)-1 && h[i] != nil; i++ {
			if key(h[i]) == key(v) {
				rd.DupAfter++
			}
		}
	}
	if rd.Stale {
		if v == nil {
			err = kerrors.NewNotFound(schema.GroupResource{Group: gvk.Group, Resource: "xthings"}, key.Name)
			obj.(runtime.Unstructured).SetUnstructuredContent(before) // a failed Get leaves the object untouched
			last.Err = "notFound"
		} else {
			m := runtime.DeepCopyJSON(v.Object)
			m["apiVersion"] = gvk.GroupVersion().String() // the server converts to the requested version
			obj.(runtime.Unstructured).SetUnstructuredContent(m)
			err = nil
			last.Err = ""
		}
	}
	if err == nil {
		u := &unstructured.Unstructured{Object: obj.(runtime.Unstructured).UnstructuredContent()}
		a := c06AbsXR(u)
		gen, _, _ := unstructured.NestedInt64(u.Object, "status", "observed")
		rd.Found, rd.Ref, rd.Labeled, rd.Fin, rd.Deleting, rd.Status, rd.Gen = true, a.Ref, a.Labeled, a.Fin, a.Deleting, a.Status, int(gen)
	}
	if os.Getenv("SIMSTORE_DEBUG") != "" {
		rvs := []string{}
		for _, x := range h {
			if x == nil {
				rvs = append(rvs, "-")
			} else {
				rvs = append(rvs, x.GetResourceVersion())
			}
		}
		fmt.Fprintf(os.Stderr, "C06 xread occ=%d name=%s lag=%d idx=%d hist=%v servedRV=%s err=%v\n", occ, key.Name, lag, idx, rvs, obj.GetResourceVersion(), err)
	}
	c.rec.XReads = append(c.rec.XReads, rd)
	return err
}

// keepVersion: the API server answers every request in the version of the request's URL (conversion),
// whatever version the object is stored at; simstore's write responses return the stored apiVersion.
func (c *c06Cache) keepVersion(obj client.Object, call func() error) error {
	gvk := obj.GetObjectKind().GroupVersionKind()
	err := call()
	if !gvk.Empty() && gvk.GroupKind() == c06XRGVK.GroupKind() {
		obj.GetObjectKind().SetGroupVersionKind(gvk)
	}
	return err
}

func (c *c06Cache) Create(ctx context.Context, obj client.Object, opts ...client.CreateOption) error {
	return c.keepVersion(obj, func() error { return c.Store.Create(ctx, obj, opts...) })
}

func (c *c06Cache) Update(ctx context.Context, obj client.Object, opts ...client.UpdateOption) error {
	return c.keepVersion(obj, func() error { return c.Store.Update(ctx, obj, opts...) })
}

func (c *c06Cache) Patch(ctx context.Context, obj client.Object, patch client.Patch, opts ...client.PatchOption) error {
	return c.keepVersion(obj, func() error { return c.Store.Patch(ctx, obj, patch, opts...) })
}

func c06NewReconciler(st client.Client, flags *feature.Flags, namer func(string) string, xrVersion string) *claim.Reconciler {
	xrGVK := c06XRGVK
	if xrVersion != "" {
		xrGVK.Version = xrVersion
	}
	ng := names.VerifNewNameGenerator(st, namer)
	o := []claim.ReconcilerOption{}
	if flags.Enabled(features.EnableBetaClaimSSA) {
		o = append(o,
			claim.WithCompositeSyncer(claim.NewServerSideCompositeSyncer(st, ng)),
			claim.WithManagedFieldsUpgrader(claim.NewPatchingManagedFieldsUpgrader(st)),
		)
	} else {
		// claim.NewReconciler's default is NewClientSideCompositeSyncer(c, names.NewNameGenerator(c));
		// same syncer, scripted suffix source.
		o = append(o, claim.WithCompositeSyncer(claim.NewClientSideCompositeSyncer(st, ng)))
	}
	return claim.NewReconciler(st, resource.CompositeClaimKind(c06ClaimGVK), resource.CompositeKind(xrGVK), o...)
}

func c06Run(s *c06Scn) (c06Obs, []Mon) {
	st := NewStore(runtime.NewScheme())
	st.KeepHistory = true
	st.Namespaced[c06ClaimGVK.GroupKind()] = true
	c06SeedClaim(st, s.Claim)
	for _, x := range s.XRs {
		c06SeedXR(st, x)
	}
	flags := &feature.Flags{}
	if s.Syncer == "ssa" {
		flags.Enable(features.EnableBetaClaimSSA)
	}
	nameIdx := 0
	var curRec *c06Rec
	namer := func(base string) string {
		var n string
		if nameIdx < len(s.Cands) {
			n = s.Cands[nameIdx]
		} else {
			n = fmt.Sprintf("%sexhausted-%d", base, nameIdx)
		}
		nameIdx++
		if curRec != nil {
			curRec.Names = append(curRec.Names, n)
		}
		return n
	}
	cache := &c06Cache{Store: st, xh: map[string][]*unstructured.Unstructured{}}
	cache.snapshot()
	// one controller incarnation per XR version: switching the XRD's referenceable version restarts it
	recons := map[string]*claim.Reconciler{}
	reconFor := func(ver string) *claim.Reconciler {
		if ver == "" {
			ver = c06XRGVK.Version
		}
		if recons[ver] == nil {
			recons[ver] = c06NewReconciler(cache, flags, namer, ver)
		}
		return recons[ver]
	}

	xgk, cgk := c06XRGVK.GroupKind(), c06ClaimGVK.GroupKind()
	xgks, cgks := gkString(xgk), gkString(cgk)
	var mons []Mon
	seen := map[string]bool{}
	addMon := func(sig, why string) {
		if !seen[sig] {
			seen[sig] = true
			mons = append(mons, Mon{Sig: sig, Why: why})
		}
	}
	created := map[string]bool{} // XR names created by the claim controller over the whole history
	tick := 0
	obs := c06Obs{Recs: []c06ORec{}}

	// monitor state captured right before each call
	var preXRExists bool
	var preXRRef string
	var preClaimRef string
	var preClaimExists bool
	lastRef := c06XRefName(st.Peek(cgk, c06NS, c06ClaimName))

	checkStore := func(when string) {
		// (1) never more than one XR bound to this claim: its claimRef is this claim's reference in
		// apiVersion, kind, namespace and name (or, without a claimRef, it carries this claim's labels;
		// the labels alone do not identify the claim: they have no kind / apiVersion)
		n := 0
		var ns []string
		for _, u := range st.OfKind(xgk) {
			if cl := c06RefClass(u); cl == "self" || (cl == "" && c06Labeled(u)) {
				n++
				ns = append(ns, u.GetName())
			}
		}
		sort.Strings(ns)
		if n > 1 {
			addMon("C06:second-xr", fmt.Sprintf("%s: %d XRs carry this claim's claimRef/labels: %v", when, n, ns))
		}
		// (2) the XR named by spec.resourceRef is set-once (apiVersion/kind of the reference may be
		// rewritten to the controller's current XR type; the NAME never changes)
		if cl := st.Peek(cgk, c06NS, c06ClaimName); cl != nil {
			ref := c06XRefName(cl)
			if lastRef != "" && ref != lastRef {
				addMon("C06:ref-rebound", fmt.Sprintf("%s: claim spec.resourceRef.name changed from %q to %q (reference now %q)", when, lastRef, ref, c06XRefStr(cl)))
			}
			lastRef = ref
		}
	}

	for ri := range s.Recs {
		rec := &s.Recs[ri]
		st.Revive()
		base := len(st.Log)
		faults := map[int]Outcome{}
		for _, f := range rec.Faults {
			faults[f.K] = c06Outcome(f.O)
		}
		st.Plan = func(c CallInfo) Outcome { return faults[c.Index] }
		rec.Read = c06Read{}
		rec.Up = ""
		rec.Names = []string{}
		rec.XReads = []c06XRead{}
		curRec = rec
		cache.rec = rec
		claimReads := 0
		st.Lag = func(k objKey, versions int) int {
			if k.GK != cgk {
				return 0
			}
			// the cache lags for the reconcile's first read of the claim; a later read of
			// the same reconcile (none on the pinned tree) is served fresh: caches catch up
			claimReads++
			if claimReads > 1 {
				return 0
			}
			back := rec.Lag
			if back >= versions {
				back = versions - 1
			}
			if back < 0 {
				back = 0
			}
			h := st.History[k]
			a := c06AbsClaim(&unstructured.Unstructured{Object: h[len(h)-1-back]})
			rec.Read = c06Read{Found: true, Stale: back > 0, Ref: a.Ref, Fin: a.Fin, Deleting: a.Deleting}
			return back
		}
		st.Before = func(c CallInfo) {
			preXRExists, preXRRef = false, ""
			if c.GK == xgks && c.IsWrite() {
				if u := st.Peek(xgk, "", c.Name); u != nil {
					preXRExists, preXRRef = true, c06RefClass(u)
				}
			}
			cl := st.Peek(cgk, c06NS, c06ClaimName)
			preClaimExists = cl != nil
			preClaimRef = c06XRefName(cl)
		}
		st.After = func(c CallInfo) {
			if c.GK == xgks && c.IsWrite() && c.Applied && !c.DryRun {
				if preXRExists && strings.HasPrefix(preXRRef, "other") {
					addMon("C06:hijack", fmt.Sprintf("%s %s addressed to XR %q whose claimRef names another claim (differs from this claim's reference in: %s)", c.Verb, c.PatchType, c.Name, strings.TrimPrefix(preXRRef, "other:")))
				}
				if !preXRExists && (c.Verb == "create" || (c.Verb == "patch" && c.PatchType == "apply")) {
					// the claim controller created XR c.Name
					if !preClaimExists || preClaimRef != c.Name {
						addMon("C06:create-before-ref", fmt.Sprintf("XR %q created while the stored claim's spec.resourceRef.name is %q (claim exists: %v)", c.Name, preClaimRef, preClaimExists))
					}
					created[c.Name] = true
					if len(created) > 1 {
						var ns []string
						for n := range created {
							ns = append(ns, n)
						}
						sort.Strings(ns)
						addMon("C06:second-xr", fmt.Sprintf("the claim controller created XRs under %d different names: %v", len(ns), ns))
					}
				}
			}
			if c.GK == xgks && c.Verb == "patch" && c.PatchType == "json" {
				// "invalid": the server could not apply the patch (also when that reply was lost in a crash)
				if c.Err == "invalid" || (c.Outcome == "crashAfter" && !c.Applied) {
					rec.Up = "invalid"
				} else {
					rec.Up = "ok"
				}
			}
			checkStore(fmt.Sprintf("reconcile %d after call %d", ri, c.Index))
			cache.snapshot()
			for _, e := range rec.Env {
				if e.After == c.Index {
					c06ApplyEnv(st, e, &tick)
					cache.snapshot()
				}
			}
		}
		for _, e := range rec.Env {
			if e.After < 0 {
				c06ApplyEnv(st, e, &tick)
				cache.snapshot()
			}
		}
		var res reconcile.Result
		var err error
		if p := Guard(func() {
			res, err = reconFor(rec.XRV).Reconcile(context.Background(), reconcile.Request{NamespacedName: types.NamespacedName{Namespace: c06NS, Name: c06ClaimName}})
		}); p != "" {
			addMon("C06:panic", p)
		}
		st.Before, st.After, st.Lag = nil, nil, nil
		cache.rec = nil
		o := c06ORec{Calls: []c06Call{}}
		for _, c := range st.Log[base:] {
			obj := "claim"
			if c.GK == xgks {
				obj = "xr"
			} else if c.GK != cgks {
				obj = c.GK
			}
			o.Calls = append(o.Calls, c06Call{Verb: c.Verb, Obj: obj, Name: c.Name, Sub: c.Sub, PT: c.PatchType, Outcome: c.Outcome, Err: c.Err, Applied: c.Applied})
		}
		switch {
		case st.Crashed():
			o.Res = "crashed"
		case err != nil:
			o.Res = "err"
		case res.Requeue:
			o.Res = "requeue"
		default:
			o.Res = "ok"
		}
		o.Claim = c06AbsClaim(st.Peek(cgk, c06NS, c06ClaimName))
		o.XRs = c06XRs(st)
		obs.Recs = append(obs.Recs, o)
		checkStore(fmt.Sprintf("after reconcile %d", ri))
	}
	return obs, mons
}

// ---- generator ----

var c06SeedNames = []string{"x-a", "x-b"}

// c06GenXR: variant = c06CRefVariant name
func c06GenXR(r *Rng, name string, variant string) c06XR {
	x := c06XR{Name: name, Ref: c06CRefVariant(variant)}
	switch variant {
	case "self", "selfuid":
		x.Labeled = r.Chance(5, 6)
	case "kind", "ver", "grp":
		// a different claim with the same name and namespace: the claim labels (name, namespace) coincide
		x.Labeled = r.Chance(1, 2)
	}
	x.Fin = r.Chance(2, 3)
	x.Deleting = x.Fin && r.Chance(1, 6)
	x.Status = r.Chance(1, 2)
	x.MF = Pick(r, []string{"legacy", "legacy", "ssa", "ssabfa"})
	return x
}

// c06GenXRef: the claim's spec.resourceRef naming XR `name` under every kind of apiVersion/kind
func c06GenXRef(r *Rng, name string) c06Ref {
	if name == "" {
		return c06Ref{}
	}
	t := c06XRefTypes[Pick(r, []string{"v1", "v1", "v1", "v1", "v1a1", "v1a1", "v1a1", "grp", "kind", "none"})]
	return c06Ref{Name: name, Group: t[0], Version: t[1], Kind: t[2]}
}

func c06Gen(r *Rng, tier string) c06Scn {
	s := c06Scn{Syncer: Pick(r, []string{"csa", "ssa"})}
	// candidate names the generator will draw; some collide with seeded XRs
	pool := []string{"c-1", "c-2", "c-3", "x-a", "x-b"}
	for i, n := 0, r.Range(2, 5); i < n; i++ {
		if r.Chance(1, 4) {
			s.Cands = append(s.Cands, Pick(r, pool))
		} else {
			s.Cands = append(s.Cands, fmt.Sprintf("c-%d", i+1))
		}
	}
	exhaust := r.Chance(1, 25)
	if exhaust {
		// malformed-ish stream: every suffix the generator draws is taken (more than its 10 tries),
		// or the oracle runs dry immediately
		s.Cands = nil
		if r.Bool() {
			for i := 0; i < 12; i++ {
				s.Cands = append(s.Cands, Pick(r, c06SeedNames))
			}
		}
	}
	// the claim
	refName := ""
	switch r.Intn(10) {
	case 0, 1, 2, 3: // brand new claim
		s.Claim = c06Claim{Fin: r.Chance(1, 3)}
	case 4, 5, 6, 7: // bound (or statically bound) claim
		refName = Pick(r, c06SeedNames)
		s.Claim = c06Claim{Fin: r.Chance(3, 4)}
	default: // deleting claim
		refName = Pick(r, []string{"", "x-a", "x-b"})
		s.Claim = c06Claim{Fin: true, Deleting: true}
	}
	// the reference under the controller's XR apiVersion, another served version of the same group/kind,
	// another group, another kind, or without apiVersion/kind
	s.Claim.Ref = c06GenXRef(r, refName)
	s.Claim.Foreground = r.Chance(1, 4)
	// XRs: the referenced one (ours, unbound, bound to a different claim — another name, the same name in
	// another namespace, another kind / version / group, no namespace — or missing) and bystanders
	for _, n := range c06SeedNames {
		if !exhaust && !r.Chance(2, 3) {
			continue
		}
		var v string
		if n == refName {
			v = Pick(r, []string{"self", "self", "self", "self", "self", "selfuid", "", "name", "ns", "ns", "kind", "ver", "grp", "nons"})
		} else {
			v = Pick(r, []string{"name", "name", "name", "ns", "kind", "ver", "grp", "nons", "", ""})
		}
		s.XRs = append(s.XRs, c06GenXR(r, n, v))
	}
	names := append([]string{}, c06SeedNames...)
	names = append(names, "c-1", "c-2")
	nrec := r.Range(1, 4)
	// the XRD's referenceable version: fixed for the whole history, or switched between reconciles
	// (the controller is restarted for the other served version)
	vers := []string{"v1", "v1alpha1"}
	baseVer, switching := "v1", false
	switch r.Intn(6) {
	case 0:
		baseVer = "v1alpha1"
	case 1, 2:
		switching = true
	}
	envID := 0
	for i := 0; i < nrec; i++ {
		rec := c06Rec{XRV: baseVer, Faults: []c06Fault{}, Env: []c06Env{}, XLag: []int{}}
		if switching {
			rec.XRV = Pick(r, vers)
		}
		if r.Chance(1, 2) {
			rec.Lag = r.Range(1, c06MaxLag)
		}
		if r.Chance(1, 3) {
			for j, n := 0, r.Range(1, 4); j < n; j++ {
				rec.XLag = append(rec.XLag, Pick(r, []int{0, 1, 1, 2, 3}))
			}
		}
		for j, n := 0, Pick(r, []int{0, 1, 1, 1, 2}); j < n; j++ {
			rec.Faults = append(rec.Faults, c06Fault{K: r.Intn(9), O: Pick(r, []string{"fail", "conflict", "crashBefore", "crashAfter", "crashAfter"})})
		}
		for j, n := 0, Pick(r, []int{0, 0, 1, 1, 2, 3}); j < n; j++ {
			e := c06Env{After: r.Range(-1, 7), Act: Pick(r, []string{"xrTouch", "xrTouch", "xrTouch", "xrRemove", "xrDelete", "claimDelete", "claimTouch", "claimTouch", "claimTouch", "claimRetype"})}
			if strings.HasPrefix(e.Act, "xr") {
				e.Name = Pick(r, names)
			}
			if e.Act == "claimRetype" {
				t := c06XRefTypes[Pick(r, []string{"v1", "v1a1", "v1a1", "grp", "kind", "none"})]
				e.G, e.V, e.K = t[0], t[1], t[2]
			}
			envID++
			e.ID = envID
			rec.Env = append(rec.Env, e)
		}
		s.Recs = append(s.Recs, rec)
	}
	return s
}

func c06Cls(s *c06Scn, o c06Obs) string {
	claimKind := "new"
	if s.Claim.Deleting {
		claimKind = "deleting"
	} else if s.Claim.Ref.Name != "" {
		claimKind = "bound-missing"
	}
	if s.Claim.Ref.Name != "" {
		for _, x := range s.XRs {
			if x.Name == s.Claim.Ref.Name {
				claimKind = map[bool]string{false: "bound-", true: "deleting-"}[s.Claim.Deleting] + c06CRefClass(x.Ref)
			}
		}
	}
	stale, crash, errf, env, created, upg, del, xstale, retyped, vsw := false, false, false, false, false, false, false, false, false, false
	for i, rec := range s.Recs {
		stale = stale || rec.Read.Stale
		for _, x := range rec.XReads {
			xstale = xstale || x.Stale
		}
		upg = upg || rec.Up != ""
		ver := rec.XRV
		if ver == "" {
			ver = c06XRGVK.Version
		}
		if i > 0 && rec.XRV != s.Recs[i-1].XRV {
			vsw = true
		}
		if rec.Read.Found && rec.Read.Ref != "" && !strings.HasPrefix(rec.Read.Ref, c06APIVersion(c06XRGVK.Group, ver)+"|"+c06XRGVK.Kind+"|") {
			retyped = true // the reference the reconcile saw carries another apiVersion/kind than the controller's XR type
		}
		if i < len(o.Recs) {
			n := len(o.Recs[i].Calls)
			crash = crash || o.Recs[i].Res == "crashed"
			for _, c := range o.Recs[i].Calls {
				if c.Obj == "xr" && c.Applied && (c.Verb == "create" || (c.PT == "apply" && c.Verb == "patch")) {
					created = true // created or (re)applied
				}
				if c.Obj == "xr" && c.Applied && c.Verb == "delete" {
					del = true
				}
				if c.Outcome == "fail" || c.Outcome == "conflict" {
					errf = true
				}
			}
			for _, e := range rec.Env {
				if e.After >= 0 && e.After < n-1 {
					env = true // an environment action landed between two calls of the reconcile
				}
			}
		}
	}
	b := func(x bool, s string) string {
		if x {
			return s
		}
		return "-"
	}
	// S stale claim read, X stale XR read, C crash, F injected error/conflict, E environment step between two calls,
	// A XR created/applied, D XR deleted, U managed-fields upgrade patch,
	// T a reconcile saw a spec.resourceRef whose apiVersion/kind is not the controller's XR type,
	// W the controller's XR version switched between two reconciles
	return fmt.Sprintf("%s/%s/%s%s%s%s%s%s%s%s%s%s", s.Syncer, claimKind, b(stale, "S"), b(xstale, "X"), b(crash, "C"), b(errf, "F"), b(env, "E"), b(created, "A"), b(del, "D"), b(upg, "U"), b(retyped, "T"), b(vsw, "W"))
}

func c06Clone(s c06Scn) c06Scn {
	var out c06Scn
	if err := jsonUnmarshalStrict([]byte(mustJSON(s)), &out); err != nil {
		panic(err)
	}
	return out
}

func init() {
	Register("C06", func(c *Ctx) {
		for _, raw := range c.Corpus {
			var s c06Scn
			if err := jsonUnmarshalStrict(raw, &s); err == nil && s.Syncer != "" {
				obs, mons := c06Run(&s)
				c.Emit(s, obs, mons, "corpus")
			}
		}
		for i := 0; i < c.N; {
			s := c06Gen(c.Rng, c.Tier)
			if c.Tier == "thorough" && c.Rng.Chance(1, 30) {
				// exhaustive small scope: one reconcile of the history, every call index x every outcome
				j := c.Rng.Intn(len(s.Recs))
				base := c06Clone(s)
				base.Recs[j].Faults = []c06Fault{}
				bobs, bmons := c06Run(&base)
				c.Emit(base, bobs, bmons, "x/"+c06Cls(&base, bobs))
				i++
				ncalls := len(bobs.Recs[j].Calls)
				for k := 0; k < ncalls; k++ {
					for _, o := range []string{"fail", "conflict", "crashBefore", "crashAfter"} {
						v := c06Clone(s)
						v.Recs[j].Faults = []c06Fault{{K: k, O: o}}
						obs, mons := c06Run(&v)
						c.Emit(v, obs, mons, "x/"+c06Cls(&v, obs))
						i++
					}
				}
				continue
			}
			obs, mons := c06Run(&s)
			c.Emit(s, obs, mons, c06Cls(&s, obs))
			i++
		}
	})
}

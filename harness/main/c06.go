//go:build verif

package main

// C06: a claim binds exactly one XR and never hijacks another claim's XR.
//
// Drives the REAL claim.Reconciler (wired exactly like
// internal/controller/apiextensions/offered/reconciler.go does: default = the
// client-side syncer; with features.EnableBetaClaimSSA = server-side syncer +
// PatchingManagedFieldsUpgrader) over simstore, as a history of reconciles, each
// with a lagging cached read of the claim, a fault plan, and environment actions
// (XR-controller writes that never touch spec.claimRef, XR removal, claim
// deletion, claim edits) interleaved at call boundaries through the simstore
// After hook. The only replaced dependency is the source of random name
// suffixes (internal/names VerifNewNameGenerator: the real availability loop
// with scripted suffixes), so that name collisions can be generated and the
// names fed to the model as the name oracle.
//
// References are full references on both sides: the claim's spec.resourceRef is seeded (and rewritten
// by the environment) under every kind of apiVersion/kind (c06XRefTypes), XRs carry a spec.claimRef
// naming this claim, a claim with another name, the same name in another namespace, another kind /
// version / group (c06CRefVariant), and the controller incarnation of each reconcile is built for XR
// version v1 or v1alpha1 (c06Rec.XRV: the XRD's referenceable version switched, controller restarted).
//
// Hardening round (classes a, b, d, f, g): ONE reconciler (syncer, name generator, finalizer) per XR
// version and scenario is driven through sequences of reconciles of DIFFERENT claims of the kind
// (c06Scn.Peers: the same name in another namespace, names that extend the main claim's name; c06Rec.Who)
// that draw from one name oracle and may reference the same XR, so that state carried from one claim
// to the next shows up; every API call can fail with every error class the code could branch on
// (c06FaultClasses: NotFound, AlreadyExists, Invalid, Forbidden, a Temporary() transport timeout,
// context deadline) or lose its reply after it took effect ("lost"); the environment also creates XRs
// (AlreadyExists on the client-side Create) and, in a world with other claims, binds them to other
// claims between two calls. Monitors are kept per claim.

import (
	"context"
	"encoding/json"
	"fmt"
	"os"
	"sort"
	"strings"

	kerrors "k8s.io/apimachinery/pkg/api/errors"
	metav1 "k8s.io/apimachinery/pkg/apis/meta/v1"
	"k8s.io/apimachinery/pkg/apis/meta/v1/unstructured"
	"k8s.io/apimachinery/pkg/runtime"
	"k8s.io/apimachinery/pkg/runtime/schema"
	"k8s.io/apimachinery/pkg/types"
	"sigs.k8s.io/controller-runtime/pkg/client"
	"sigs.k8s.io/controller-runtime/pkg/client/apiutil"
	"sigs.k8s.io/controller-runtime/pkg/reconcile"

	"github.com/crossplane/crossplane-runtime/pkg/feature"
	"github.com/crossplane/crossplane-runtime/pkg/resource"

	"github.com/crossplane/crossplane/internal/controller/apiextensions/claim"
	"github.com/crossplane/crossplane/internal/features"
	"github.com/crossplane/crossplane/internal/names"
)

const (
	c06NS        = "ns"
	c06ClaimName = "c"
	c06Finalizer = "finalizer.apiextensions.crossplane.io"
	c06XRFin     = "composite.apiextensions.crossplane.io"
	c06LblName   = "crossplane.io/claim-name"
	c06LblNS     = "crossplane.io/claim-namespace"
	c06MaxLag    = 3
)

var (
	c06ClaimGVK = schema.GroupVersionKind{Group: "example.org", Version: "v1", Kind: "Thing"}
	c06XRGVK    = schema.GroupVersionKind{Group: "example.org", Version: "v1", Kind: "XThing"}
)

// ---- scenario ----

// c06Ref is a full typed reference: a claim's spec.resourceRef (reference.Composite: apiVersion =
// group/version, kind, name; NS and UID unused) or an XR's spec.claimRef (reference.Claim: apiVersion,
// kind, namespace, name; UID = the stored map also carries a uid key, which reference.Claim drops).
// Name == "" means the reference is unset.
type c06Ref struct {
	Name    string `json:"name"`
	NS      string `json:"ns"`
	Group   string `json:"group"`
	Version string `json:"version"`
	Kind    string `json:"kind"`
	UID     bool   `json:"uid"`
}

func c06APIVersion(g, v string) string {
	if g == "" {
		return v
	}
	return g + "/" + v
}

// c06XRefOf is the reference the syncers write for XR `name` when the controller runs for XR version ver.
func c06XRefOf(name, ver string) c06Ref {
	return c06Ref{Name: name, Group: c06XRGVK.Group, Version: ver, Kind: c06XRGVK.Kind}
}

// c06Self is the main claim's reference (cm.GetReference()).
func c06Self() c06Ref { return c06RefOf(c06Ident{c06NS, c06ClaimName}) }

// c06RefOf is the reference of the claim `id` of the controller's claim kind.
func c06RefOf(id c06Ident) c06Ref {
	return c06Ref{Name: id.Name, NS: id.NS, Group: c06ClaimGVK.Group, Version: c06ClaimGVK.Version, Kind: c06ClaimGVK.Kind}
}

// c06Idents: the claims of the scenario; index = c06Rec.Who
func c06Idents(s *c06Scn) []c06Ident {
	ids := []c06Ident{{c06NS, c06ClaimName}}
	for _, p := range s.Peers {
		ids = append(ids, c06Ident{p.NS, p.Name})
	}
	return ids
}

// c06XRefTypes: the apiVersion/kind a claim's spec.resourceRef may carry, relative to the XR type the
// controller reconciles (example.org/<xrv> XThing). The pinned code reads only the NAME of the reference.
var c06XRefTypes = map[string][3]string{
	"v1":   {"example.org", "v1", "XThing"},       // a served version of the XR kind
	"v1a1": {"example.org", "v1alpha1", "XThing"}, // the other served version of the XR kind
	"grp":  {"other.org", "v1", "XThing"},         // another group
	"kind": {"example.org", "v1", "XOther"},       // another kind
	"none": {"", "", ""},                          // hand-written: name only
}

// c06CRefVariants: what an XR's spec.claimRef may name, relative to this claim (example.org/v1 Thing ns/c).
// cmp.Equal(cm.GetReference(), ref) compares apiVersion, kind, namespace and name: everything but
// "self" and "selfuid" is a DIFFERENT claim.
func c06CRefVariant(v string) c06Ref {
	r := c06Self()
	switch v {
	case "":
		return c06Ref{}
	case "self":
	case "selfuid":
		r.UID = true
	case "name":
		r.Name = "other"
	case "ns": // the claim with the same name in another namespace
		r.NS = "other-ns"
	case "nons": // a reference that lost its namespace
		r.NS = ""
	case "kind":
		r.Kind = "OtherThing"
	case "ver":
		r.Version = "v1alpha1"
	case "grp":
		r.Group = "other.org"
	}
	return r
}

// c06CRefClass names the variant of a claimRef (for cls and monitor messages).
func c06CRefClass(r c06Ref) string {
	me := c06Self()
	switch {
	case r.Name == "":
		return "unbound"
	case r.Name != me.Name:
		return "other-name"
	case r.NS != me.NS:
		return "other-ns"
	case r.Kind != me.Kind:
		return "other-kind"
	case r.Group != me.Group:
		return "other-group"
	case r.Version != me.Version:
		return "other-version"
	case r.UID:
		return "selfuid"
	}
	return "self"
}

type c06Claim struct {
	Ref        c06Ref `json:"ref"`        // spec.resourceRef (Name "" = unset)
	Fin        bool   `json:"fin"`        // carries the claim finalizer
	Deleting   bool   `json:"deleting"`   // deletionTimestamp set (only with Fin)
	Foreground bool   `json:"foreground"` // spec.compositeDeletePolicy = Foreground
}

type c06XR struct {
	Name     string `json:"name"`
	Ref      c06Ref `json:"ref"`      // spec.claimRef (Name "" = unset)
	Labeled  bool   `json:"labeled"`  // carries this claim's claim-name / claim-namespace labels
	Fin      bool   `json:"fin"`      // carries the XR controller's finalizer
	Deleting bool   `json:"deleting"` // deletionTimestamp set (only with Fin)
	Status   bool   `json:"status"`   // has a status
	MF       string `json:"mf"`       // managedFields class: "legacy" | "ssa" | "ssabfa" | "bfassa" | "ssa3" | "bfa2" | "bfaonly"
	// the manager names of the seeded object's metadata.managedFields, in order, read back from the store by
	// c06Run (what the model's XR.mf starts from)
	Mgrs []string `json:"mgrs"`
}

type c06Env struct {
	ID    int    `json:"id"`    // unique within the scenario; an XR-controller write stores it as status.observed
	After int    `json:"after"` // applied right after call index `after` of the reconcile; -1 = before it starts
	Act   string `json:"act"`   // xrTouch | xrRemove | xrDelete | xrCreate | xrBind | claimDelete | claimTouch | claimRetype
	Name  string `json:"name"`  // XR name (xr* actions)
	G     string `json:"g"`     // claimRetype: group, version, kind written into spec.resourceRef (the name stays)
	V     string `json:"v"`
	K     string `json:"k"`
	Who   int    `json:"who,omitempty"` // claim* actions: which claim (0 = the main claim, i = Peers[i-1])
	// xrCreate: somebody creates XR `name` (absent until then) carrying this spec.claimRef (Name "" = unbound: a
	// user; a claim that is not this scenario's = the controller of another claim).
	// xrBind: another claim's controller sets spec.claimRef (and its claim labels) of the existing XR `name`.
	Ref *c06Ref `json:"ref,omitempty"`
}

type c06Fault struct {
	K int    `json:"k"`
	O string `json:"o"` // fail | conflict | crashBefore | crashAfter | lost (lostNoop: oracle) | one of c06FaultClasses
}

// c06FaultClasses: the API error classes injected at a call index (the call is not applied). The code under
// test branches on NotFound (claim Get, XR Get, availability Get, the Get of Apply, Upgrade patch, Delete,
// RemoveFinalizer) and on Conflict (Upgrade, AddFinalizer, Sync); everything else must be treated alike.
// "notFound" on a read of an XR is answered as a server error instead (an XR read answers NotFound only
// through the cache, where the name really was absent: c06Rec.XLag); "conflict" on a read likewise.
// "lost": the call takes effect but the caller sees a timeout and goes on.
var c06FaultClasses = []string{"notFound", "exists", "invalid", "forbidden", "timeout", "deadline"}

// c06Peer is another claim of the same kind, reconciled by the same controller.
type c06Peer struct {
	NS    string   `json:"ns"`
	Name  string   `json:"name"`
	Claim c06Claim `json:"claim"`
}

type c06Ident struct{ NS, Name string }

// c06Read is the name oracle's sibling: what the lagging cache served for the
// claim (abstract content), recorded from the real run.
type c06Read struct {
	Found    bool   `json:"found"`
	Stale    bool   `json:"stale"`          // an older version than the stored one
	Gone     bool   `json:"gone,omitempty"` // the claim no longer exists: the cache served a version from before its deletion
	Ref      string `json:"ref"`            // canonical spec.resourceRef: apiVersion|kind|name ("" = unset)
	Fin      bool   `json:"fin"`
	Deleting bool   `json:"deleting"`
}

// c06XRead: what the lagging cache served for one XR read (abstract content), recorded from the real run.
type c06XRead struct {
	Name     string   `json:"name"`
	Found    bool     `json:"found"`
	Stale    bool     `json:"stale"`             // an older state of that name than the stored one
	Ref      string   `json:"ref"`               // canonical spec.claimRef: apiVersion|kind|namespace|name[+uid] ("" = unset)
	Labeled  bool     `json:"labeled,omitempty"` // (older corpus lines)
	Lbl      string   `json:"lbl"`               // claim labels: "namespace/name" ("" = none)
	Fin      bool     `json:"fin"`
	Deleting bool     `json:"deleting"`
	Status   bool     `json:"status"`
	Gen      int      `json:"gen"`      // status.observed
	Mf       []string `json:"mf"`       // manager names of metadata.managedFields (server-side wiring only, else empty)
	AbsAfter int      `json:"absAfter"` // stale reads: how often the name was absent between the served state and the stored one
	DupAfter int      `json:"dupAfter"` // stale reads: how many newer, not current states of the same incarnation have the same abstract content
}

type c06Rec struct {
	Who    int        `json:"who,omitempty"` // which claim is reconciled: 0 = the main claim ns/c, i = Peers[i-1]
	XRV    string     `json:"xrv"`           // the XR version this incarnation of the controller reconciles ("" = v1)
	Lag    int        `json:"lag"`           // the cache serves the claim this many versions back (0 = fresh)
	XLag   []int      `json:"xlag"`          // the cache serves the k-th XR read of the reconcile this many states back
	Faults []c06Fault `json:"faults"`
	Env    []c06Env   `json:"env"`
	// oracle, recorded from the real run
	Read   c06Read    `json:"read"`
	Names  []string   `json:"names"`  // name oracle: the names the generator drew during this reconcile, in order
	XReads []c06XRead `json:"xreads"` // what each XR read of this reconcile returned, in order
}

type c06Scn struct {
	Syncer string   `json:"syncer"` // "csa" | "ssa"
	Claim  c06Claim `json:"claim"`
	// other claims of the kind, reconciled by the SAME reconciler; non-empty = a world in which other
	// claims' controllers act (they create XRs and bind XRs to their own claim)
	Peers []c06Peer `json:"peers,omitempty"`
	XRs   []c06XR   `json:"xrs"`
	Cands []string  `json:"cands"` // name oracle: the names the generator draws, in order
	Recs  []c06Rec  `json:"recs"`
}

// ---- observation ----

type c06Call struct {
	Verb    string `json:"verb"` // get update patch create delete
	Obj     string `json:"obj"`  // "claim" | "xr"
	Name    string `json:"name"`
	Sub     string `json:"sub"`
	PT      string `json:"pt"`
	Op      string `json:"op"` // json patches: which of Upgrade's two patches ("clear" | "remove:<index>"), else ""
	Outcome string `json:"outcome"`
	Err     string `json:"err"`
	Applied bool   `json:"applied"`
}

type c06OClaim struct {
	Exists   bool   `json:"exists"`
	Ref      string `json:"ref"`
	Fin      bool   `json:"fin"`
	Deleting bool   `json:"deleting"`
}

type c06OXR struct {
	Name     string   `json:"name"`
	Ref      string   `json:"ref"`
	Lbl      string   `json:"lbl"` // claim labels "namespace/name" ("" = none)
	Fin      bool     `json:"fin"`
	Deleting bool     `json:"deleting"`
	Status   bool     `json:"status"`
	Mf       []string `json:"mf"` // manager names of metadata.managedFields, in order (server-side wiring only, else empty)
}

type c06ORec struct {
	Calls []c06Call `json:"calls"`
	Res   string    `json:"res"` // ok | requeue | err | crashed
	Claim c06OClaim `json:"claim"`
	XRs   []c06OXR  `json:"xrs"`
}

type c06Obs struct {
	Recs []c06ORec `json:"recs"`
}

// ---- world ----

func c06ClaimRefMap(r c06Ref) map[string]any {
	m := map[string]any{"apiVersion": c06APIVersion(r.Group, r.Version), "kind": r.Kind, "name": r.Name}
	if r.NS != "" {
		m["namespace"] = r.NS
	}
	if r.UID {
		m["uid"] = "3f1c9a52-0000-4000-8000-000000000001"
	}
	return m
}

func c06XRefMap(r c06Ref) map[string]any {
	m := map[string]any{"name": r.Name}
	if av := c06APIVersion(r.Group, r.Version); av != "" {
		m["apiVersion"] = av
	}
	if r.Kind != "" {
		m["kind"] = r.Kind
	}
	return m
}

// c06XRefStr / c06CRefStr: canonical text of a stored reference (the model prints the same from its components).
func c06XRefStr(u *unstructured.Unstructured) string {
	m, ok, _ := unstructured.NestedMap(u.Object, "spec", "resourceRef")
	if !ok || m == nil {
		return ""
	}
	return fmt.Sprintf("%s|%s|%s", strOf(m, "apiVersion"), strOf(m, "kind"), strOf(m, "name"))
}

func c06XRefName(u *unstructured.Unstructured) string {
	if u == nil {
		return ""
	}
	n, _, _ := unstructured.NestedString(u.Object, "spec", "resourceRef", "name")
	return n
}

func c06CRefStr(u *unstructured.Unstructured) string {
	m, ok, _ := unstructured.NestedMap(u.Object, "spec", "claimRef")
	if !ok || m == nil {
		return ""
	}
	s := fmt.Sprintf("%s|%s|%s|%s", strOf(m, "apiVersion"), strOf(m, "kind"), strOf(m, "namespace"), strOf(m, "name"))
	if _, has := m["uid"]; has {
		s += "+uid"
	}
	return s
}

func c06SeedClaim(st *Store, c c06Claim, id c06Ident) {
	u := &unstructured.Unstructured{Object: map[string]any{}}
	u.SetGroupVersionKind(c06ClaimGVK)
	u.SetNamespace(id.NS)
	u.SetName(id.Name)
	spec := map[string]any{"param": "v"}
	if c.Ref.Name != "" {
		spec["resourceRef"] = c06XRefMap(c.Ref)
	}
	if c.Foreground {
		spec["compositeDeletePolicy"] = "Foreground"
	}
	u.Object["spec"] = spec
	if c.Fin {
		u.SetFinalizers([]string{c06Finalizer})
		if c.Deleting {
			t := metav1.Unix(1700000000, 0)
			u.SetDeletionTimestamp(&t)
		}
	}
	st.Seed(u)
}

func c06SeedXR(st *Store, x c06XR) {
	u := &unstructured.Unstructured{Object: map[string]any{}}
	u.SetGroupVersionKind(c06XRGVK)
	u.SetName(x.Name)
	spec := map[string]any{"param": "v"}
	if x.Ref.Name != "" {
		spec["claimRef"] = c06ClaimRefMap(x.Ref)
	}
	u.Object["spec"] = spec
	if x.Labeled {
		u.SetLabels(map[string]string{c06LblName: c06ClaimName, c06LblNS: c06NS})
	} else if x.Ref.Name != "" && (x.Ref.Name != c06ClaimName || x.Ref.NS != c06NS) {
		// the labels of the claim it is bound to (they only carry name and namespace)
		u.SetLabels(map[string]string{c06LblName: x.Ref.Name, c06LblNS: x.Ref.NS})
	}
	if x.Fin {
		u.SetFinalizers([]string{c06XRFin})
		if x.Deleting {
			t := metav1.Unix(1700000000, 0)
			u.SetDeletionTimestamp(&t)
		}
	}
	if x.Status {
		u.Object["status"] = map[string]any{"conditions": []any{map[string]any{"type": "Ready", "status": "False", "reason": "Creating", "lastTransitionTime": "2023-11-14T22:13:20Z"}}}
	}
	mf := []any{}
	switch x.MF {
	case "ssa":
		mf = append(mf, map[string]any{"manager": claim.FieldOwnerXR, "operation": "Apply"})
	case "ssabfa":
		mf = append(mf, map[string]any{"manager": claim.FieldOwnerXR, "operation": "Apply"}, map[string]any{"manager": "before-first-apply", "operation": "Update"})
	case "bfassa":
		// the entries in the other order, between two unrelated managers: Upgrade loops over all of them
		mf = append(mf, map[string]any{"manager": "kubectl", "operation": "Update"}, map[string]any{"manager": "before-first-apply", "operation": "Update"},
			map[string]any{"manager": claim.FieldOwnerXR, "operation": "Apply"}, map[string]any{"manager": "apiextensions.crossplane.io/composite", "operation": "Apply"})
	case "bfa2":
		// two before-first-apply entries: Upgrade removes the LAST one (one per reconcile)
		mf = append(mf, map[string]any{"manager": claim.FieldOwnerXR, "operation": "Apply"}, map[string]any{"manager": "before-first-apply", "operation": "Update"},
			map[string]any{"manager": "kubectl", "operation": "Update"}, map[string]any{"manager": "before-first-apply", "operation": "Update", "subresource": "status"})
	case "bfaonly":
		// a before-first-apply entry but no entry of the claim manager: Upgrade clears everything
		mf = append(mf, map[string]any{"manager": "crossplane", "operation": "Update"}, map[string]any{"manager": "before-first-apply", "operation": "Update"})
	case "ssa3":
		// the claim manager first, others after it (a later entry lacks what an earlier one has)
		mf = append(mf, map[string]any{"manager": claim.FieldOwnerXR, "operation": "Apply"}, map[string]any{"manager": "crossplane", "operation": "Update"},
			map[string]any{"manager": "apiextensions.crossplane.io/composite", "operation": "Apply"})
	default:
		mf = append(mf, map[string]any{"manager": "crossplane", "operation": "Update"})
	}
	mdOf(u.Object)["managedFields"] = mf
	st.Seed(u)
}

// c06RefClass classifies a stored XR's spec.claimRef the way the property does: "" (none), "self"
// (apiVersion, kind, namespace and name are this claim's — what cmp.Equal on reference.Claim
// compares; a uid key is not part of it), or "other:<first differing component>".
func c06RefClass(u *unstructured.Unstructured, id c06Ident) string {
	m, ok, _ := unstructured.NestedMap(u.Object, "spec", "claimRef")
	if !ok || m == nil {
		return ""
	}
	switch {
	case strOf(m, "name") != id.Name:
		return "other:name"
	case strOf(m, "namespace") != id.NS:
		return "other:namespace"
	case strOf(m, "kind") != c06ClaimGVK.Kind:
		return "other:kind"
	case strOf(m, "apiVersion") != c06ClaimGVK.GroupVersion().String():
		return "other:apiVersion"
	}
	return "self"
}

func c06Labeled(u *unstructured.Unstructured, id c06Ident) bool {
	l := u.GetLabels()
	return l[c06LblName] == id.Name && l[c06LblNS] == id.NS
}

// c06Lbl: the claim labels of an XR as "namespace/name" ("" = it carries neither)
func c06Lbl(u *unstructured.Unstructured) string {
	l := u.GetLabels()
	_, a := l[c06LblName]
	_, b := l[c06LblNS]
	if !a && !b {
		return ""
	}
	return l[c06LblNS] + "/" + l[c06LblName]
}

func c06HasFin(u *unstructured.Unstructured, f string) bool {
	for _, x := range u.GetFinalizers() {
		if x == f {
			return true
		}
	}
	return false
}

func c06AbsClaim(u *unstructured.Unstructured) c06OClaim {
	if u == nil {
		return c06OClaim{}
	}
	return c06OClaim{Exists: true, Ref: c06XRefStr(u), Fin: c06HasFin(u, c06Finalizer), Deleting: u.GetDeletionTimestamp() != nil}
}

// c06ObserveMF: managed fields are part of the abstract XR state in the server-side wiring only (the
// client-side wiring has the Nop upgrader: nothing reads them). Set per scenario by c06Run.
var c06ObserveMF bool

// c06Managers: the manager name of every metadata.managedFields entry, in order.
func c06Managers(u *unstructured.Unstructured) []string {
	out := []string{}
	for _, e := range u.GetManagedFields() {
		out = append(out, e.Manager)
	}
	return out
}

func c06AbsXR(u *unstructured.Unstructured) c06OXR {
	_, hasStatus := u.Object["status"]
	mf := []string{}
	if c06ObserveMF {
		mf = c06Managers(u)
	}
	return c06OXR{Name: u.GetName(), Ref: c06CRefStr(u), Lbl: c06Lbl(u), Fin: len(u.GetFinalizers()) > 0,
		Deleting: u.GetDeletionTimestamp() != nil, Status: hasStatus, Mf: mf}
}

func c06XRs(st *Store) []c06OXR {
	out := []c06OXR{}
	for _, u := range st.OfKind(c06XRGVK.GroupKind()) {
		out = append(out, c06AbsXR(u))
	}
	sort.Slice(out, func(i, j int) bool { return out[i].Name < out[j].Name })
	return out
}

// c06ApplyEnv performs one environment action out of band.
func c06ApplyEnv(st *Store, e c06Env, tick *int, ids []c06Ident) {
	xgk, cgk := c06XRGVK.GroupKind(), c06ClaimGVK.GroupKind()
	*tick++
	id := ids[0]
	if e.Who > 0 && e.Who < len(ids) {
		id = ids[e.Who]
	}
	setRef := func(u *unstructured.Unstructured) {
		if e.Ref == nil || e.Ref.Name == "" {
			return
		}
		_ = unstructured.SetNestedMap(u.Object, c06ClaimRefMap(*e.Ref), "spec", "claimRef")
		l := u.GetLabels()
		if l == nil {
			l = map[string]string{}
		}
		l[c06LblName], l[c06LblNS] = e.Ref.Name, e.Ref.NS
		u.SetLabels(l)
	}
	switch e.Act {
	case "xrCreate":
		// a user creates an (unbound) XR by hand, or another claim's controller creates its XR
		if st.Peek(xgk, "", e.Name) == nil {
			u := &unstructured.Unstructured{Object: map[string]any{"spec": map[string]any{"param": "v"}}}
			u.SetGroupVersionKind(c06XRGVK)
			u.SetName(e.Name)
			setRef(u)
			mdOf(u.Object)["managedFields"] = []any{map[string]any{"manager": "crossplane", "operation": "Update"}}
			st.Seed(u)
		}
	case "xrBind":
		// another claim's controller binds the XR to its claim
		st.Mutate(xgk, "", e.Name, setRef)
	case "xrTouch":
		// what the XR controller does: finalizer, status; never spec.claimRef
		st.Mutate(xgk, "", e.Name, func(u *unstructured.Unstructured) {
			if !c06HasFin(u, c06XRFin) {
				u.SetFinalizers(append(u.GetFinalizers(), c06XRFin))
			}
			u.Object["status"] = map[string]any{"observed": int64(e.ID), "conditions": []any{map[string]any{"type": "Ready", "status": "True", "reason": "Available", "lastTransitionTime": "2023-11-14T22:13:20Z"}}}
		})
	case "xrRemove":
		st.Remove(xgk, "", e.Name)
	case "xrDelete":
		st.Mutate(xgk, "", e.Name, func(u *unstructured.Unstructured) {
			if len(u.GetFinalizers()) > 0 && u.GetDeletionTimestamp() == nil {
				t := metav1.Unix(1700000000, 0)
				u.SetDeletionTimestamp(&t)
			}
		})
		if u := st.Peek(xgk, "", e.Name); u != nil && len(u.GetFinalizers()) == 0 {
			st.Remove(xgk, "", e.Name)
		}
	case "claimDelete":
		if u := st.Peek(cgk, id.NS, id.Name); u != nil {
			if len(u.GetFinalizers()) == 0 {
				st.Remove(cgk, id.NS, id.Name)
			} else {
				st.Mutate(cgk, id.NS, id.Name, func(u *unstructured.Unstructured) {
					if u.GetDeletionTimestamp() == nil {
						t := metav1.Unix(1700000000, 0)
						u.SetDeletionTimestamp(&t)
					}
				})
			}
		}
	case "claimCreate":
		// the claim, gone (its deletion completed), is created again under the same name: a NEW object (new uid, no
		// reference, no finalizer). The informer cache may still serve versions of the old incarnation (c06Rec.Lag
		// reaches back across the deletion: simstore keeps the history of the key).
		if st.Peek(cgk, id.NS, id.Name) == nil {
			c06SeedClaim(st, c06Claim{}, id)
		}
	case "claimRetype":
		// somebody (a restore from a backup taken under another served version, a hand edit) rewrites
		// apiVersion/kind of spec.resourceRef; the name stays
		st.Mutate(cgk, id.NS, id.Name, func(u *unstructured.Unstructured) {
			m, ok, _ := unstructured.NestedMap(u.Object, "spec", "resourceRef")
			if !ok || m == nil {
				return
			}
			av := c06APIVersion(e.G, e.V)
			if strOf(m, "apiVersion") == av && strOf(m, "kind") == e.K {
				return
			}
			_ = unstructured.SetNestedMap(u.Object, c06XRefMap(c06Ref{Name: strOf(m, "name"), Group: e.G, Version: e.V, Kind: e.K}), "spec", "resourceRef")
		})
	case "claimTouch":
		// a user edit of the claim that bumps its resourceVersion; a reserved label key is
		// never propagated to the XR (field-level sync is C07's subject)
		st.Mutate(cgk, id.NS, id.Name, func(u *unstructured.Unstructured) {
			l := u.GetLabels()
			if l == nil {
				l = map[string]string{}
			}
			l["verif.k8s.io/edit"] = fmt.Sprint(*tick)
			u.SetLabels(l)
		})
	}
}

func c06Outcome(o string) Outcome {
	switch o {
	case "fail":
		return Fail
	case "conflict":
		return Conflict
	case "crashBefore":
		return CrashBefore
	case "crashAfter":
		return CrashAfter
	}
	for _, c := range c06FaultClasses {
		if o == c {
			return Fail // the store refuses the call; c06Cache.fix substitutes the error of that class
		}
	}
	return OK // incl. "lost": the call takes effect, c06Cache.fix loses the reply
}

// c06Timeout is a transport-level error that is Temporary() and Timeout() (net.Error), not an API status.
type c06Timeout struct{}

func (c06Timeout) Error() string   { return "simstore: injected i/o timeout" }
func (c06Timeout) Timeout() bool   { return true }
func (c06Timeout) Temporary() bool { return true }

// c06ClassErr builds the error of an injected class for a call addressed to gk/name.
func c06ClassErr(class string, ci CallInfo) error {
	gr := schema.GroupResource{Group: c06XRGVK.Group, Resource: strings.ToLower(strings.SplitN(ci.GK, ".", 2)[0]) + "s"}
	switch class {
	case "notFound":
		if ci.Verb == "get" && ci.GK == gkString(c06XRGVK.GroupKind()) {
			break // see c06FaultClasses
		}
		return kerrors.NewNotFound(gr, ci.Name)
	case "exists":
		return kerrors.NewAlreadyExists(gr, ci.Name)
	case "invalid":
		return kerrors.NewInvalid(schema.GroupKind{Group: gr.Group, Kind: strings.SplitN(ci.GK, ".", 2)[0]}, ci.Name, nil)
	case "forbidden":
		return kerrors.NewForbidden(gr, ci.Name, fmt.Errorf("simstore: injected"))
	case "timeout":
		return c06Timeout{}
	case "deadline":
		return context.DeadlineExceeded
	}
	return kerrors.NewInternalError(fmt.Errorf("simstore: injected server error"))
}

// c06ErrClass: the error classes the model distinguishes (Forbidden, timeouts and deadlines are "other")
func c06ErrClass(err error) string {
	if c := errClass(err); c != "forbidden" {
		return c
	}
	return "other"
}

// c06NewReconciler wires the claim reconciler the way offered/reconciler.go does.
// c06Cache is the controller engine's cached client: every read goes through it. Claim reads
// lag through simstore's own history (st.Lag); XR reads are served from the per-name state
// history kept here, which (unlike simstore's) also remembers that a name was absent.
type c06Cache struct {
	*Store
	xh     map[string][]*unstructured.Unstructured // states of each XR name, oldest first; nil = absent
	seeded bool
	rec    *c06Rec          // current reconcile (lags in, oracle out)
	who    c06Ident         // the claim being reconciled
	faults map[int]c06Fault // fault plan of the current reconcile
	// what the read this reconcile DECIDED on returned for each XR name, relative to `who`: "absent" | "" (no
	// claimRef) | "self" | "other:<component>". Deciding reads: Reconcile's Get of the referenced XR (the first XR
	// read of a reconcile) and every availability Get of the name generator (the one right after a name was
	// drawn; the latest counts when a name is drawn twice); the Get inside the client-side Apply is not looked at
	// by the code and only counts for a name no deciding read returned anything for.
	views       map[string]string
	draws       int            // names drawn by the generator in this reconcile
	drawn       int            // ... of which an availability Get was seen
	ops         map[int]string // call index of the current reconcile -> which managed-fields JSON patch it was
	claimServed bool           // the reconcile's first read of its claim has been answered
}

func (c *c06Cache) setView(name, v string) {
	_, seen := c.views[name]
	deciding := len(c.rec.XReads) == 0 || c.draws > c.drawn
	if deciding || !seen {
		c.views[name] = v
	}
}

// fix post-processes the call just logged (if any): substitutes the error of an injected class, or loses
// the reply of a call that took effect ("lost": the caller's object keeps its content, as after a timeout).
func (c *c06Cache) fix(n0 int, obj client.Object, before map[string]any, err error) error {
	if len(c.Store.Log) == n0 || c.rec == nil {
		return err // the process is dead: the call never happened
	}
	last := &c.Store.Log[len(c.Store.Log)-1]
	f, ok := c.faults[last.Index]
	if !ok {
		return err
	}
	switch {
	case (f.O == "lost" || f.O == "lostNoop") && last.Outcome == "ok":
		if before != nil {
			obj.(runtime.Unstructured).SetUnstructuredContent(before)
		}
		// A write that changed nothing (the API server then keeps the resourceVersion) and whose reply is lost is
		// indistinguishable from one that never arrived; the model, in which every accepted write yields a new
		// resourceVersion, is told so (oracle: the fault is rewritten in the scenario).
		o := "lost"
		if last.IsWrite() && last.Applied && !last.Changed {
			o, last.Applied = "lostNoop", false
		}
		for i := range c.rec.Faults {
			if c.rec.Faults[i].K == last.Index {
				c.rec.Faults[i].O = o
			}
		}
		last.Outcome, last.Err = o, "other"
		return c06Timeout{}
	case last.Outcome == "fail" && f.O != "fail":
		e := c06ClassErr(f.O, *last)
		last.Outcome, last.Err = f.O, c06ErrClass(e)
		return e
	}
	return err
}

func c06Content(obj client.Object) map[string]any {
	if u, ok := obj.(runtime.Unstructured); ok {
		return runtime.DeepCopyJSON(u.UnstructuredContent())
	}
	return nil
}

// snapshot appends the current state of every XR name whose state changed.
func (c *c06Cache) snapshot() {
	cur := map[string]*unstructured.Unstructured{}
	for _, u := range c.Store.OfKind(c06XRGVK.GroupKind()) {
		cur[u.GetName()] = u
	}
	for n, u := range cur {
		h, ok := c.xh[n]
		if !ok && c.seeded {
			h = []*unstructured.Unstructured{nil} // the name was absent until now
		}
		if len(h) == 0 || h[len(h)-1] == nil || h[len(h)-1].GetResourceVersion() != u.GetResourceVersion() {
			h = append(h, u)
		}
		c.xh[n] = h
	}
	for n, h := range c.xh {
		if _, ok := cur[n]; !ok && len(h) > 0 && h[len(h)-1] != nil {
			c.xh[n] = append(h, nil)
		}
	}
	c.seeded = true
}

func (c *c06Cache) Get(ctx context.Context, key client.ObjectKey, obj client.Object, opts ...client.GetOption) error {
	gvk, err := apiutil.GVKForObject(obj, c.Store.Scheme())
	if err != nil || gvk.GroupKind() != c06XRGVK.GroupKind() {
		n0, before := len(c.Store.Log), c06Content(obj)
		gerr := c.Store.Get(ctx, key, obj, opts...)
		// The claim is GONE but the informer cache lags: the reconcile's first read of its claim is served a version
		// from before the deletion (the absence counts as the newest state: lag 1 = the last stored version).
		if gerr != nil && kerrors.IsNotFound(gerr) && err == nil && c.rec != nil && len(c.Store.Log) > n0 && c.rec.Lag > 0 && !c.claimServed &&
			gvk.GroupKind() == c06ClaimGVK.GroupKind() && key.Namespace == c.who.NS && key.Name == c.who.Name {
			last := &c.Store.Log[len(c.Store.Log)-1]
			_, isF := c.faults[last.Index]
			h := c.Store.History[objKey{gvk.GroupKind(), key.Namespace, key.Name}]
			if last.Outcome == "ok" && !isF && len(h) > 0 {
				idx := len(h) - c.rec.Lag
				if idx < 0 {
					idx = 0
				}
				m := runtime.DeepCopyJSON(h[idx])
				m["apiVersion"] = gvk.GroupVersion().String()
				obj.(runtime.Unstructured).SetUnstructuredContent(m)
				a := c06AbsClaim(&unstructured.Unstructured{Object: m})
				c.rec.Read = c06Read{Found: true, Stale: true, Gone: true, Ref: a.Ref, Fin: a.Fin, Deleting: a.Deleting}
				last.Err = ""
				c.claimServed = true
				return nil
			}
		}
		if gvk.GroupKind() == c06ClaimGVK.GroupKind() {
			c.claimServed = true
		}
		return c.fix(n0, obj, before, gerr)
	}
	n0 := len(c.Store.Log)
	before := runtime.DeepCopyJSON(obj.(runtime.Unstructured).UnstructuredContent())
	// the history as of this read: an environment action scheduled "after this call" runs inside
	// Store.Get's After hook and must not count as a state the read lags behind
	h, ok := c.xh[key.Name]
	h = h[:len(h):len(h)]
	err = c.Store.Get(ctx, key, obj, opts...)
	if len(c.Store.Log) == n0 || c.rec == nil {
		return err // the process is dead: the call never happened
	}
	occ := len(c.rec.XReads)
	rd := c06XRead{Name: key.Name, Mf: []string{}}
	last := &c.Store.Log[len(c.Store.Log)-1]
	if f, isF := c.faults[last.Index]; last.Outcome != "ok" || (isF && (f.O == "lost" || f.O == "lostNoop")) {
		c.rec.XReads = append(c.rec.XReads, rd) // injected fault: nothing was read
		c.drawn = c.draws
		return c.fix(n0, obj, before, err)
	}
	if !ok {
		h = []*unstructured.Unstructured{nil}
	}
	lag := 0
	if occ < len(c.rec.XLag) {
		lag = c.rec.XLag[occ]
	}
	idx := len(h) - 1 - lag
	if idx < 0 {
		idx = 0
	}
	v := h[idx]
	rd.Stale = idx != len(h)-1
	for i := idx + 1; i < len(h)-1; i++ {
		if h[i] == nil {
			rd.AbsAfter++
		}
	}
	if v != nil {
		// several older states of one incarnation may have the same abstract content (they differ in
		// resourceVersion only): tell the model which of them was served
		key := func(u *unstructured.Unstructured) string {
			gen, _, _ := unstructured.NestedInt64(u.Object, "status", "observed")
			return fmt.Sprint(c06AbsXR(u), gen)
		}
		for i := idx + 1; i < len(h)-1 && h[i] != nil; i++ {
			if key(h[i]) == key(v) {
				rd.DupAfter++
			}
		}
	}
	if rd.Stale {
		if v == nil {
			err = kerrors.NewNotFound(schema.GroupResource{Group: gvk.Group, Resource: "xthings"}, key.Name)
			obj.(runtime.Unstructured).SetUnstructuredContent(before) // a failed Get leaves the object untouched
			last.Err = "notFound"
		} else {
			m := runtime.DeepCopyJSON(v.Object)
			m["apiVersion"] = gvk.GroupVersion().String() // the server converts to the requested version
			obj.(runtime.Unstructured).SetUnstructuredContent(m)
			err = nil
			last.Err = ""
		}
	}
	if err == nil {
		u := &unstructured.Unstructured{Object: obj.(runtime.Unstructured).UnstructuredContent()}
		a := c06AbsXR(u)
		gen, _, _ := unstructured.NestedInt64(u.Object, "status", "observed")
		rd.Found, rd.Ref, rd.Lbl, rd.Fin, rd.Deleting, rd.Status, rd.Gen, rd.Mf = true, a.Ref, a.Lbl, a.Fin, a.Deleting, a.Status, int(gen), a.Mf
		c.setView(key.Name, c06RefClass(u, c.who))
	} else if kerrors.IsNotFound(err) {
		c.setView(key.Name, "absent")
	}
	c.drawn = c.draws
	if os.Getenv("SIMSTORE_DEBUG") != "" {
		rvs := []string{}
		for _, x := range h {
			if x == nil {
				rvs = append(rvs, "-")
			} else {
				rvs = append(rvs, x.GetResourceVersion())
			}
		}
		fmt.Fprintf(os.Stderr, "C06 xread occ=%d name=%s lag=%d idx=%d hist=%v servedRV=%s err=%v\n", occ, key.Name, lag, idx, rvs, obj.GetResourceVersion(), err)
	}
	c.rec.XReads = append(c.rec.XReads, rd)
	return err
}

// keepVersion: the API server answers every request in the version of the request's URL (conversion),
// whatever version the object is stored at; simstore's write responses return the stored apiVersion.
func (c *c06Cache) keepVersion(obj client.Object, call func() error) error {
	gvk := obj.GetObjectKind().GroupVersionKind()
	err := call()
	if !gvk.Empty() && gvk.GroupKind() == c06XRGVK.GroupKind() {
		obj.GetObjectKind().SetGroupVersionKind(gvk)
	}
	return err
}

func (c *c06Cache) Create(ctx context.Context, obj client.Object, opts ...client.CreateOption) error {
	n0, before := len(c.Store.Log), c06Content(obj)
	return c.fix(n0, obj, before, c.keepVersion(obj, func() error { return c.Store.Create(ctx, obj, opts...) }))
}

func (c *c06Cache) Update(ctx context.Context, obj client.Object, opts ...client.UpdateOption) error {
	n0, before := len(c.Store.Log), c06Content(obj)
	return c.fix(n0, obj, before, c.keepVersion(obj, func() error { return c.Store.Update(ctx, obj, opts...) }))
}

// c06PatchOp classifies a JSON patch of the managed-fields upgrader by its first operation.
func c06PatchOp(patch client.Patch, obj client.Object) string {
	if patch.Type() != types.JSONPatchType {
		return ""
	}
	data, err := patch.Data(obj)
	if err != nil {
		return "undecodable"
	}
	var ops []map[string]any
	if err := json.Unmarshal(data, &ops); err != nil || len(ops) == 0 {
		return "undecodable"
	}
	op, path := strOf(ops[0], "op"), strOf(ops[0], "path")
	switch {
	case op == "replace" && path == "/metadata/managedFields":
		return "clear"
	case op == "remove" && strings.HasPrefix(path, "/metadata/managedFields/"):
		return "remove:" + strings.TrimPrefix(path, "/metadata/managedFields/")
	}
	return op + ":" + path
}

func (c *c06Cache) Patch(ctx context.Context, obj client.Object, patch client.Patch, opts ...client.PatchOption) error {
	if op := c06PatchOp(patch, obj); op != "" && c.ops != nil && !c.Store.Crashed() {
		c.ops[c.Store.Calls] = op // the index this call is about to get (calls are numbered per Revive)
	}
	n0, before := len(c.Store.Log), c06Content(obj)
	return c.fix(n0, obj, before, c.keepVersion(obj, func() error { return c.Store.Patch(ctx, obj, patch, opts...) }))
}

func (c *c06Cache) Delete(ctx context.Context, obj client.Object, opts ...client.DeleteOption) error {
	n0, before := len(c.Store.Log), c06Content(obj)
	return c.fix(n0, obj, before, c.Store.Delete(ctx, obj, opts...))
}

// c06Sub: the status writer, with the same fault post-processing
type c06Sub struct {
	c *c06Cache
	w client.SubResourceWriter
}

func (c *c06Cache) Status() client.SubResourceWriter { return c06Sub{c, c.Store.Status()} }

func (w c06Sub) Create(ctx context.Context, obj client.Object, sub client.Object, opts ...client.SubResourceCreateOption) error {
	return w.w.Create(ctx, obj, sub, opts...)
}

func (w c06Sub) Update(ctx context.Context, obj client.Object, opts ...client.SubResourceUpdateOption) error {
	n0, before := len(w.c.Store.Log), c06Content(obj)
	return w.c.fix(n0, obj, before, w.w.Update(ctx, obj, opts...))
}

func (w c06Sub) Patch(ctx context.Context, obj client.Object, patch client.Patch, opts ...client.SubResourcePatchOption) error {
	n0, before := len(w.c.Store.Log), c06Content(obj)
	return w.c.fix(n0, obj, before, w.w.Patch(ctx, obj, patch, opts...))
}

func c06NewReconciler(st client.Client, flags *feature.Flags, namer func(string) string, xrVersion string) *claim.Reconciler {
	xrGVK := c06XRGVK
	if xrVersion != "" {
		xrGVK.Version = xrVersion
	}
	ng := names.VerifNewNameGenerator(st, namer)
	o := []claim.ReconcilerOption{}
	if flags.Enabled(features.EnableBetaClaimSSA) {
		o = append(o,
			claim.WithCompositeSyncer(claim.NewServerSideCompositeSyncer(st, ng)),
			claim.WithManagedFieldsUpgrader(claim.NewPatchingManagedFieldsUpgrader(st)),
		)
	} else {
		// claim.NewReconciler's default is NewClientSideCompositeSyncer(c, names.NewNameGenerator(c));
		// same syncer, scripted suffix source.
		o = append(o, claim.WithCompositeSyncer(claim.NewClientSideCompositeSyncer(st, ng)))
	}
	return claim.NewReconciler(st, resource.CompositeClaimKind(c06ClaimGVK), resource.CompositeKind(xrGVK), o...)
}

func c06Run(s *c06Scn) (c06Obs, []Mon) {
	st := NewStore(runtime.NewScheme())
	st.KeepHistory = true
	st.Namespaced[c06ClaimGVK.GroupKind()] = true
	ids := c06Idents(s)
	c06SeedClaim(st, s.Claim, ids[0])
	for i, p := range s.Peers {
		c06SeedClaim(st, p.Claim, ids[i+1])
	}
	c06ObserveMF = s.Syncer == "ssa"
	for i, x := range s.XRs {
		c06SeedXR(st, x)
		s.XRs[i].Mgrs = []string{}
		if u := st.Peek(c06XRGVK.GroupKind(), "", x.Name); u != nil {
			s.XRs[i].Mgrs = c06Managers(u)
		}
	}
	flags := &feature.Flags{}
	if s.Syncer == "ssa" {
		flags.Enable(features.EnableBetaClaimSSA)
	}
	nameIdx := 0
	var curRec *c06Rec
	var namerCache *c06Cache
	namer := func(base string) string {
		var n string
		if nameIdx < len(s.Cands) {
			n = s.Cands[nameIdx]
		} else {
			n = fmt.Sprintf("%sexhausted-%d", base, nameIdx)
		}
		nameIdx++
		if curRec != nil {
			curRec.Names = append(curRec.Names, n)
		}
		if namerCache != nil {
			namerCache.draws++
		}
		return n
	}
	cache := &c06Cache{Store: st, xh: map[string][]*unstructured.Unstructured{}}
	namerCache = cache
	cache.snapshot()
	// ONE controller incarnation (reconciler, syncer, name generator, finalizer) per XR version for the whole
	// scenario, whichever claims it reconciles: switching the XRD's referenceable version restarts it
	recons := map[string]*claim.Reconciler{}
	reconFor := func(ver string) *claim.Reconciler {
		if ver == "" {
			ver = c06XRGVK.Version
		}
		if recons[ver] == nil {
			recons[ver] = c06NewReconciler(cache, flags, namer, ver)
		}
		return recons[ver]
	}

	xgk, cgk := c06XRGVK.GroupKind(), c06ClaimGVK.GroupKind()
	xgks, cgks := gkString(xgk), gkString(cgk)
	var mons []Mon
	seen := map[string]bool{}
	addMon := func(sig, why string) {
		if !seen[sig] {
			seen[sig] = true
			mons = append(mons, Mon{Sig: sig, Why: why})
		}
	}
	// per claim: XR names created by the claim controller on its behalf over the whole history, and the
	// last spec.resourceRef.name seen stored
	created := make([]map[string]bool, len(ids))
	lastRef := make([]string, len(ids))
	lastUID := make([]string, len(ids))
	recreated := make([]bool, len(ids)) // a second incarnation of the claim has been seen
	lied := map[string]bool{}           // XR names a write to which was answered an injected NotFound while the XR existed
	for i, id := range ids {
		created[i] = map[string]bool{}
		lastRef[i] = c06XRefName(st.Peek(cgk, id.NS, id.Name))
	}
	tick := 0
	obs := c06Obs{Recs: []c06ORec{}}

	// who last changed (or first stored) the spec.claimRef of each XR: the index of the claim whose reconcile
	// did it, or -1 for the environment (seed, XR controller, user, the controller of a claim outside the scenario)
	lastCRef, setBy := map[string]string{}, map[string]int{}
	noteBinders := func(by int) {
		cur := map[string]bool{}
		for _, u := range st.OfKind(xgk) {
			cur[u.GetName()] = true
			if r, ok := lastCRef[u.GetName()]; !ok || r != c06CRefStr(u) {
				lastCRef[u.GetName()], setBy[u.GetName()] = c06CRefStr(u), by
			}
		}
		for n := range lastCRef {
			if !cur[n] {
				delete(lastCRef, n)
				delete(setBy, n)
			}
		}
	}
	noteBinders(-1)

	// monitor state captured right before each call
	var preXRExists bool
	var preXRRef string
	var preXRBind string // full spec.claimRef + claim labels of the XR a write is addressed to
	var preClaimRef string
	var preClaimExists bool
	// did a write to the reconciled claim take effect earlier in this reconcile? (the rv-checked claim write that
	// must precede every creation of an XR)
	claimWritten := false
	// claims for which the client-side syncer created an XR out of a stale copy without any claim write (finding
	// C06:xr-created-from-stale-claim-without-claim-write): the XR count clauses are then attributed to that finding
	tainted := make([]bool, len(ids))

	checkStore := func(when string) {
		for i, id := range ids {
			tag := ""
			if len(ids) > 1 {
				tag = fmt.Sprintf(" [claim %s/%s]", id.NS, id.Name)
			}
			// (1) never more than one XR bound to a claim: its claimRef is that claim's reference in
			// apiVersion, kind, namespace and name (or, without a claimRef, it carries the claim's labels;
			// the labels alone do not identify the claim: they have no kind / apiVersion)
			if cur := st.Peek(cgk, id.NS, id.Name); cur != nil {
				if uid := string(cur.GetUID()); uid != lastUID[i] {
					// another incarnation of the claim (deleted and created again under the same name): a new object
					if lastUID[i] != "" {
						lastRef[i] = ""
						created[i] = map[string]bool{}
						recreated[i] = true
					}
					lastUID[i] = uid
				}
			}
			var bound, ns []string
			for _, u := range st.OfKind(xgk) {
				if recreated[i] && lied[u.GetName()] {
					// an XR of the OLD incarnation that survived only because the API server answered NotFound to a write
					// addressed to it while it existed (an injected lie no real server tells): not counted against the new one
					continue
				}
				cl := c06RefClass(u, id)
				if cl == "self" {
					bound = append(bound, u.GetName())
				}
				if cl == "self" || (cl == "" && c06Labeled(u, id)) {
					ns = append(ns, u.GetName())
				}
			}
			sort.Strings(ns)
			if len(ns) > 1 && !tainted[i] {
				addMon("C06:second-xr", fmt.Sprintf("%s: %d XRs carry this claim's claimRef/labels: %v%s", when, len(ns), ns, tag))
			}
			cl := st.Peek(cgk, id.NS, id.Name)
			if cl == nil {
				continue
			}
			// (2) the XR named by spec.resourceRef is set-once (apiVersion/kind of the reference may be
			// rewritten to the controller's current XR type; the NAME never changes)
			ref := c06XRefName(cl)
			if lastRef[i] != "" && ref != lastRef[i] {
				addMon("C06:ref-rebound", fmt.Sprintf("%s: claim spec.resourceRef.name changed from %q to %q (reference now %q)%s", when, lastRef[i], ref, c06XRefStr(cl), tag))
			}
			lastRef[i] = ref
			// (3) the one XR bound to the claim is the one its durable reference names
			for _, n := range bound {
				if n != ref && !tainted[i] {
					addMon("C06:bound-not-referenced", fmt.Sprintf("%s: XR %q carries this claim's claimRef but the claim's stored spec.resourceRef.name is %q%s", when, n, ref, tag))
				}
			}
		}
	}

	for ri := range s.Recs {
		rec := &s.Recs[ri]
		who := 0
		if rec.Who > 0 && rec.Who < len(ids) {
			who = rec.Who
		}
		me := ids[who]
		st.Revive()
		base := len(st.Log)
		faults := map[int]Outcome{}
		cache.faults = map[int]c06Fault{}
		for _, f := range rec.Faults {
			faults[f.K] = c06Outcome(f.O)
			cache.faults[f.K] = f
		}
		st.Plan = func(c CallInfo) Outcome { return faults[c.Index] }
		rec.Read = c06Read{}
		claimWritten = false
		rec.Names = []string{}
		rec.XReads = []c06XRead{}
		curRec = rec
		cache.rec, cache.who, cache.views, cache.draws, cache.drawn, cache.ops, cache.claimServed = rec, me, map[string]string{}, 0, 0, map[int]string{}, false
		claimReads := 0
		st.Lag = func(k objKey, versions int) int {
			if k.GK != cgk || k.NS != me.NS || k.Name != me.Name {
				return 0
			}
			// the cache lags for the reconcile's first read of the claim; a later read of
			// the same reconcile (none on the pinned tree) is served fresh: caches catch up
			claimReads++
			if claimReads > 1 {
				return 0
			}
			back := rec.Lag
			if back >= versions {
				back = versions - 1
			}
			if back < 0 {
				back = 0
			}
			h := st.History[k]
			a := c06AbsClaim(&unstructured.Unstructured{Object: h[len(h)-1-back]})
			rec.Read = c06Read{Found: true, Stale: back > 0, Ref: a.Ref, Fin: a.Fin, Deleting: a.Deleting}
			return back
		}
		st.Before = func(c CallInfo) {
			preXRExists, preXRRef, preXRBind = false, "", ""
			if c.GK == xgks && c.IsWrite() {
				if u := st.Peek(xgk, "", c.Name); u != nil {
					preXRExists, preXRRef, preXRBind = true, c06RefClass(u, me), c06CRefStr(u)+" labels "+c06Lbl(u)
				}
			}
			cl := st.Peek(cgk, me.NS, me.Name)
			preClaimExists = cl != nil
			preClaimRef = c06XRefName(cl)
		}
		st.After = func(c CallInfo) {
			if f, isF := cache.faults[c.Index]; isF && f.O == "notFound" && c.GK == xgks && c.IsWrite() && preXRExists && !c.Applied {
				lied[c.Name] = true
			}
			if c.GK == cgks && c.IsWrite() && c.Applied && !c.DryRun && c.NS == me.NS && c.Name == me.Name {
				claimWritten = true
			}
			if c.GK == xgks && c.IsWrite() && c.Applied && !c.DryRun {
				if preXRExists && strings.HasPrefix(preXRRef, "other") {
					// A write or delete took effect on an XR whose stored claimRef names another claim. What did
					// the bound check of THIS reconcile decide on? (the first read of that name)
					view, read := cache.views[c.Name]
					// requests that carry the resourceVersion of the XR as read cannot take effect on a state
					// other than the one read: the managed-fields JSON patch, and the client-side syncer's merge
					// patch when Reconcile's Get found the XR
					guarded := c.Verb == "patch" && (c.PatchType == "json" || (c.PatchType == "merge" && view != "absent"))
					why := fmt.Sprintf("%s %s addressed to XR %q whose claimRef names another claim than %s/%s (differs from its reference in: %s)", c.Verb, c.PatchType, c.Name, me.NS, me.Name, strings.TrimPrefix(preXRRef, "other:"))
					// D34 is only what another claim's controller explains: the world has other claims, and the stored
					// claimRef was put there by somebody else than this claim's reconciles
					by, known := setBy[c.Name]
					explained := len(s.Peers) > 0 && known && by != who
					switch {
					case !read:
						addMon("C06:hijack", why+"; this reconcile never read that XR")
					case !explained:
						addMon("C06:hijack", why+"; no other claim's controller set that claimRef")
					case strings.HasPrefix(view, "other"):
						addMon("C06:hijack", why+"; the XR as read by this reconcile already named the other claim")
					case guarded:
						addMon("C06:hijack", why+fmt.Sprintf("; the request should carry the resourceVersion of the XR as read (then %s)", map[bool]string{true: "absent", false: "not bound to another claim"}[view == "absent"]))
					case c.Verb == "delete" && view == "absent":
						// the unchanged code deletes only an XR its Get FOUND (meta.WasCreated(xr)): a Delete by name of an
						// XR the deciding read did not return is not one of D34's requests, whoever bound the XR
						addMon("C06:hijack", why+"; the deciding read of this reconcile answered NotFound: an XR that was not observed must not be deleted")
					default:
						// the XR was (re)bound by another claim's controller after the state this reconcile read
						// (cache lag/miss or a write between the read and this call) and the request is unconditional
						addMon("C06:foreign-xr-written-after-raced-read", why+fmt.Sprintf("; the XR as read by this reconcile was %s; the request carries no resourceVersion", map[string]string{"absent": "absent", "": "unbound", "self": "bound to this claim"}[view]))
					}
				}
				if preXRExists && c.Verb == "patch" && c.PatchType == "json" {
					// the managed-fields patches touch metadata.managedFields only: whatever managers the XR has and
					// whichever of the two patches it is, spec.claimRef and the claim labels stay (upgrade_keeps_refs)
					if u := st.Peek(xgk, "", c.Name); u == nil {
						addMon("C06:upgrade-changed-binding", fmt.Sprintf("the managed-fields JSON patch (%s) removed XR %q", cache.ops[c.Index], c.Name))
					} else if now := c06CRefStr(u) + " labels " + c06Lbl(u); now != preXRBind {
						addMon("C06:upgrade-changed-binding", fmt.Sprintf("the managed-fields JSON patch (%s) changed the binding of XR %q from %q to %q", cache.ops[c.Index], c.Name, preXRBind, now))
					}
				}
				if !preXRExists && (c.Verb == "create" || (c.Verb == "patch" && c.PatchType == "apply")) {
					// the claim controller created XR c.Name
					switch {
					case (!preClaimExists || preClaimRef != c.Name) && !claimWritten && s.Syncer == "csa" && rec.Read.Found && rec.Read.Stale:
						// FINDING (unchanged code, client-side syncer): a stale copy of the claim that already carries the
						// reference makes Sync skip Update(claim) (existing == proposed) and AddFinalizer write nothing, so
						// NO resourceVersion-checked claim write precedes Apply's Create: an XR is created for a claim that
						// was deleted (and possibly re-created and bound to another XR) since the copy was current.
						tainted[who] = true
						addMon("C06:xr-created-from-stale-claim-without-claim-write", fmt.Sprintf("client-side syncer: XR %q created out of a stale copy of claim %s/%s (reference %q) without any claim write in this reconcile; stored claim exists: %v, its spec.resourceRef.name: %q", c.Name, me.NS, me.Name, rec.Read.Ref, preClaimExists, preClaimRef))
					case !preClaimExists:
						addMon("C06:xr-for-nonexistent-claim", fmt.Sprintf("XR %q created for claim %s/%s, which does not exist (the cache served a copy from before its deletion; claim write earlier in this reconcile: %v)", c.Name, me.NS, me.Name, claimWritten))
					case preClaimRef != c.Name:
						addMon("C06:create-before-ref", fmt.Sprintf("XR %q created while the stored spec.resourceRef.name of claim %s/%s is %q (claim exists: %v)", c.Name, me.NS, me.Name, preClaimRef, preClaimExists))
					}
					created[who][c.Name] = true
					if len(created[who]) > 1 && !tainted[who] {
						var ns []string
						for n := range created[who] {
							ns = append(ns, n)
						}
						sort.Strings(ns)
						addMon("C06:second-xr", fmt.Sprintf("the claim controller created XRs under %d different names for claim %s/%s: %v", len(ns), me.NS, me.Name, ns))
					}
				}
				if preXRExists && preClaimExists && preClaimRef != c.Name && !tainted[who] && !(recreated[who] && lied[c.Name]) {
					// writes and deletes go to the XR the claim durably references, never to another one
					addMon("C06:write-off-ref", fmt.Sprintf("%s %s addressed to XR %q while the stored spec.resourceRef.name of claim %s/%s is %q (claim exists: %v)", c.Verb, c.PatchType, c.Name, me.NS, me.Name, preClaimRef, preClaimExists))
				}
			}
			checkStore(fmt.Sprintf("reconcile %d after call %d", ri, c.Index))
			noteBinders(who)
			cache.snapshot()
			for _, e := range rec.Env {
				if e.After == c.Index {
					c06ApplyEnv(st, e, &tick, ids)
					noteBinders(-1)
					cache.snapshot()
				}
			}
		}
		for _, e := range rec.Env {
			if e.After < 0 {
				c06ApplyEnv(st, e, &tick, ids)
				noteBinders(-1)
				cache.snapshot()
			}
		}
		var res reconcile.Result
		var err error
		if p := Guard(func() {
			res, err = reconFor(rec.XRV).Reconcile(context.Background(), reconcile.Request{NamespacedName: types.NamespacedName{Namespace: me.NS, Name: me.Name}})
		}); p != "" {
			addMon("C06:panic", p)
		}
		st.Before, st.After, st.Lag = nil, nil, nil
		cache.rec = nil
		o := c06ORec{Calls: []c06Call{}}
		for _, c := range st.Log[base:] {
			obj := "claim"
			if c.GK == xgks {
				obj = "xr"
			} else if c.GK != cgks {
				obj = c.GK
			}
			name := c.Name
			if obj == "claim" {
				name = c.NS + "/" + c.Name
			}
			o.Calls = append(o.Calls, c06Call{Verb: c.Verb, Obj: obj, Name: name, Sub: c.Sub, PT: c.PatchType, Op: cache.ops[c.Index], Outcome: c.Outcome, Err: c.Err, Applied: c.Applied})
		}
		switch {
		case st.Crashed():
			o.Res = "crashed"
		case err != nil:
			o.Res = "err"
		case res.Requeue:
			o.Res = "requeue"
		default:
			o.Res = "ok"
		}
		o.Claim = c06AbsClaim(st.Peek(cgk, me.NS, me.Name))
		o.XRs = c06XRs(st)
		obs.Recs = append(obs.Recs, o)
		checkStore(fmt.Sprintf("after reconcile %d", ri))
	}
	return obs, mons
}

// ---- generator ----

var c06SeedNames = []string{"x-a", "x-b"}

// c06GenXR: variant = c06CRefVariant name
func c06GenXR(r *Rng, name string, variant string) c06XR {
	x := c06XR{Name: name, Ref: c06CRefVariant(variant)}
	switch variant {
	case "self", "selfuid":
		x.Labeled = r.Chance(5, 6)
	case "kind", "ver", "grp":
		// a different claim with the same name and namespace: the claim labels (name, namespace) coincide
		x.Labeled = r.Chance(1, 2)
	}
	x.Fin = r.Chance(2, 3)
	x.Deleting = x.Fin && r.Chance(1, 6)
	x.Status = r.Chance(1, 2)
	x.MF = Pick(r, []string{"legacy", "legacy", "legacy", "ssa", "ssa", "ssabfa", "ssabfa", "bfassa", "ssa3", "bfa2", "bfaonly"})
	return x
}

// c06PeerPool: the other claims a scenario may hold: the same NAME in another namespace (same generateName
// prefix, same claim-name label), and names the main claim's name is a string prefix of (one of them
// looks like a generated XR name)
var c06PeerPool = []c06Ident{{"ns2", "c"}, {"ns", "cc"}, {"ns", "c-1"}, {"ns2", "c"}}

var c06FaultOutcomes = []string{"fail", "conflict", "crashBefore", "crashAfter", "crashAfter", "lost",
	"notFound", "notFound", "exists", "invalid", "forbidden", "timeout", "deadline"}

// c06GenPeers turns the scenario into a world with 1-2 more claims of the kind, reconciled by the same
// controller in between the main claim's reconciles: they draw from the same name oracle, may reference the
// XR the main claim references (statically provisioned XR claimed twice), own seeded XRs, and other claims'
// controllers act between two calls (xrCreate / xrBind with a claimRef of a claim outside the scenario).
func c06GenPeers(r *Rng, s *c06Scn, envID *int) {
	perm := r.Perm(3)
	np := Pick(r, []int{1, 1, 2})
	taken := map[string]bool{} // XR names already owned by a claim of the scenario
	for _, x := range s.XRs {
		if cl := c06CRefClass(x.Ref); cl == "self" || cl == "selfuid" {
			taken[x.Name] = true
		}
	}
	for i := 0; i < np; i++ {
		id := c06PeerPool[perm[i]]
		p := c06Peer{NS: id.NS, Name: id.Name}
		refName := ""
		switch r.Intn(8) {
		case 0, 1, 2: // brand new
			p.Claim = c06Claim{Fin: r.Chance(1, 3)}
		case 3, 4, 5: // references a seeded XR: its own, an unbound one, or the one another claim references / owns
			refName = Pick(r, c06SeedNames)
			p.Claim = c06Claim{Fin: r.Chance(3, 4)}
		case 6: // references a name a claim is about to generate
			refName = Pick(r, []string{"c-1", "c-2"})
			p.Claim = c06Claim{Fin: r.Chance(1, 2)}
		default:
			refName = Pick(r, []string{"", "x-a", "x-b"})
			p.Claim = c06Claim{Fin: true, Deleting: true}
		}
		p.Claim.Ref = c06GenXRef(r, refName)
		p.Claim.Foreground = r.Chance(1, 4)
		s.Peers = append(s.Peers, p)
		// the XR it references may already be bound to it (only one claim of the scenario owns an XR)
		if refName != "" && !taken[refName] && r.Chance(1, 2) {
			for j := range s.XRs {
				if s.XRs[j].Name == refName {
					s.XRs[j].Ref = c06RefOf(id)
					s.XRs[j].Ref.UID = r.Chance(1, 6)
					s.XRs[j].Labeled = false
					taken[refName] = true
				}
			}
		}
	}
	// more reconciles, of all claims, in any order (the main claim's stay in their relative order)
	n := len(s.Recs) + r.Range(1, 3)
	for len(s.Recs) < n {
		s.Recs = append(s.Recs, c06GenRec(r, s.Recs[0].XRV, envID, true))
	}
	for i := range s.Recs {
		if r.Chance(1, 2) {
			s.Recs[i].Who = r.Range(1, len(s.Peers))
		}
		for j := range s.Recs[i].Env {
			e := &s.Recs[i].Env[j]
			if strings.HasPrefix(e.Act, "claim") && r.Chance(1, 2) {
				e.Who = r.Range(0, len(s.Peers))
			}
		}
	}
}

// c06GenRec: one reconcile: cache lags, faults, environment actions. world = other claims' controllers act.
func c06GenRec(r *Rng, xrv string, envID *int, world bool) c06Rec {
	names := append([]string{}, c06SeedNames...)
	names = append(names, "c-1", "c-2")
	rec := c06Rec{XRV: xrv, Faults: []c06Fault{}, Env: []c06Env{}, XLag: []int{}}
	if r.Chance(1, 2) {
		rec.Lag = r.Range(1, c06MaxLag)
	}
	if r.Chance(1, 3) {
		for j, n := 0, r.Range(1, 4); j < n; j++ {
			rec.XLag = append(rec.XLag, Pick(r, []int{0, 1, 1, 2, 3}))
		}
	}
	for j, n := 0, Pick(r, []int{0, 1, 1, 1, 2}); j < n; j++ {
		rec.Faults = append(rec.Faults, c06Fault{K: r.Intn(9), O: Pick(r, c06FaultOutcomes)})
	}
	acts := []string{"xrTouch", "xrTouch", "xrTouch", "xrRemove", "xrRemove", "xrDelete", "xrCreate", "claimDelete", "claimTouch", "claimTouch", "claimTouch", "claimRetype"}
	if world {
		acts = append(acts, "xrCreate", "xrBind", "xrBind")
	}
	for j, n := 0, Pick(r, []int{0, 0, 1, 1, 2, 3}); j < n; j++ {
		e := c06Env{After: r.Range(-1, 7), Act: Pick(r, acts)}
		if strings.HasPrefix(e.Act, "xr") {
			e.Name = Pick(r, names)
		}
		if e.Act == "claimRetype" {
			t := c06XRefTypes[Pick(r, []string{"v1", "v1a1", "v1a1", "grp", "kind", "none"})]
			e.G, e.V, e.K = t[0], t[1], t[2]
		}
		if e.Act == "xrCreate" || e.Act == "xrBind" {
			// only in a world with other claims does anybody but this controller set a claimRef; the claims
			// named here have no controller run in the scenario (c06CRefVariant: none of them is a peer)
			ref := c06Ref{}
			if world && (e.Act == "xrBind" || r.Chance(2, 3)) {
				ref = c06CRefVariant(Pick(r, []string{"name", "name", "ns", "kind", "ver", "nons"}))
				ref.UID = r.Chance(1, 6)
			}
			e.Ref = &ref
		}
		*envID++
		e.ID = *envID
		rec.Env = append(rec.Env, e)
	}
	return rec
}

// c06GenXRef: the claim's spec.resourceRef naming XR `name` under every kind of apiVersion/kind
func c06GenXRef(r *Rng, name string) c06Ref {
	if name == "" {
		return c06Ref{}
	}
	t := c06XRefTypes[Pick(r, []string{"v1", "v1", "v1", "v1", "v1a1", "v1a1", "v1a1", "grp", "kind", "none"})]
	return c06Ref{Name: name, Group: t[0], Version: t[1], Kind: t[2]}
}

// c06GenRecreate: the claim's life ENDS inside the history and the cache keeps serving the old incarnation. A bound
// claim is deleted (the reconcile deletes its XR and removes the finalizer: the claim is gone), in 2/3 of the cases
// it is created again under the same name (a new object) and bound to a new XR; then reconciles whose claim read
// lags far enough to be served the OLD bound copy (c06Rec.Lag counts stored versions across the deletion). The
// old XR is gone (or, sometimes, still there because it carries the XR controller's finalizer).
func c06GenRecreate(r *Rng) c06Scn {
	s := c06Scn{Syncer: Pick(r, []string{"csa", "ssa"}), Cands: []string{"c-1", "c-2", "c-3"}}
	s.Claim = c06Claim{Fin: true, Ref: c06XRefOf("x-a", c06XRGVK.Version)}
	// (no XR-controller finalizer: the old XR is gone as soon as the claim controller deletes it; a terminating old XR
	// next to the new incarnation's XR is a legitimate state in which two XRs reference the name)
	x := c06XR{Name: "x-a", Ref: c06Self(), Labeled: true, Status: r.Bool(),
		MF: Pick(r, []string{"legacy", "ssa", "ssa", "ssabfa"})}
	s.XRs = []c06XR{x}
	id := 0
	env := func(after int, act string) c06Env { id++; return c06Env{ID: id, After: after, Act: act} }
	rec := func(lag int, envs ...c06Env) c06Rec {
		return c06Rec{Lag: lag, XLag: []int{}, Faults: []c06Fault{}, Env: append([]c06Env{}, envs...)}
	}
	// the deletion completes
	s.Recs = append(s.Recs, rec(0, env(-1, "claimDelete")))
	if r.Chance(1, 4) {
		s.Recs = append(s.Recs, rec(0)) // (a reconcile request for the claim that is gone)
	}
	if r.Chance(2, 3) {
		// a new claim under the same name, bound to a new XR
		s.Recs = append(s.Recs, rec(0, env(-1, "claimCreate")))
		if r.Bool() {
			s.Recs = append(s.Recs, rec(0))
		}
	}
	// the informer still serves the old incarnation
	for j, n := 0, r.Range(1, 3); j < n; j++ {
		rc := rec(Pick(r, []int{1, 2, 3, 4, 6, 30, 30, 30}))
		if r.Chance(1, 4) {
			rc.Faults = append(rc.Faults, c06Fault{K: r.Intn(7), O: Pick(r, c06FaultOutcomes)})
		}
		s.Recs = append(s.Recs, rc)
	}
	return s
}

func c06Gen(r *Rng, tier string) c06Scn {
	if r.Chance(1, 12) {
		return c06GenRecreate(r)
	}
	s := c06Scn{Syncer: Pick(r, []string{"csa", "ssa"})}
	// candidate names the generator will draw; some collide with seeded XRs
	pool := []string{"c-1", "c-2", "c-3", "x-a", "x-b"}
	for i, n := 0, r.Range(2, 5); i < n; i++ {
		if r.Chance(1, 4) {
			s.Cands = append(s.Cands, Pick(r, pool))
		} else {
			s.Cands = append(s.Cands, fmt.Sprintf("c-%d", i+1))
		}
	}
	exhaust := r.Chance(1, 25)
	if exhaust {
		// malformed-ish stream: every suffix the generator draws is taken (more than its 10 tries),
		// or the oracle runs dry immediately
		s.Cands = nil
		if r.Bool() {
			for i := 0; i < 12; i++ {
				s.Cands = append(s.Cands, Pick(r, c06SeedNames))
			}
		}
	}
	// the claim
	refName := ""
	switch r.Intn(10) {
	case 0, 1, 2, 3: // brand new claim
		s.Claim = c06Claim{Fin: r.Chance(1, 3)}
	case 4, 5, 6, 7: // bound (or statically bound) claim
		refName = Pick(r, c06SeedNames)
		s.Claim = c06Claim{Fin: r.Chance(3, 4)}
	default: // deleting claim
		refName = Pick(r, []string{"", "x-a", "x-b"})
		s.Claim = c06Claim{Fin: true, Deleting: true}
	}
	// the reference under the controller's XR apiVersion, another served version of the same group/kind,
	// another group, another kind, or without apiVersion/kind
	s.Claim.Ref = c06GenXRef(r, refName)
	s.Claim.Foreground = r.Chance(1, 4)
	// XRs: the referenced one (ours, unbound, bound to a different claim — another name, the same name in
	// another namespace, another kind / version / group, no namespace — or missing) and bystanders
	for _, n := range c06SeedNames {
		if !exhaust && !r.Chance(2, 3) {
			continue
		}
		var v string
		if n == refName {
			v = Pick(r, []string{"self", "self", "self", "self", "self", "selfuid", "", "name", "ns", "ns", "kind", "ver", "grp", "nons"})
		} else {
			v = Pick(r, []string{"name", "name", "name", "ns", "kind", "ver", "grp", "nons", "", ""})
		}
		s.XRs = append(s.XRs, c06GenXR(r, n, v))
	}
	nrec := r.Range(1, 4)
	// the XRD's referenceable version: fixed for the whole history, or switched between reconciles
	// (the controller is restarted for the other served version)
	vers := []string{"v1", "v1alpha1"}
	baseVer, switching := "v1", false
	switch r.Intn(6) {
	case 0:
		baseVer = "v1alpha1"
	case 1, 2:
		switching = true
	}
	envID := 0
	world := r.Chance(1, 3)
	for i := 0; i < nrec; i++ {
		ver := baseVer
		if switching {
			ver = Pick(r, vers)
		}
		s.Recs = append(s.Recs, c06GenRec(r, ver, &envID, world))
	}
	if world {
		c06GenPeers(r, &s, &envID)
	}
	return s
}

func c06Cls(s *c06Scn, o c06Obs) string {
	claimKind := "new"
	if s.Claim.Deleting {
		claimKind = "deleting"
	} else if s.Claim.Ref.Name != "" {
		claimKind = "bound-missing"
	}
	if s.Claim.Ref.Name != "" {
		for _, x := range s.XRs {
			if x.Name == s.Claim.Ref.Name {
				claimKind = map[bool]string{false: "bound-", true: "deleting-"}[s.Claim.Deleting] + c06CRefClass(x.Ref)
			}
		}
	}
	stale, crash, errf, env, created, upg, del, xstale, retyped, vsw := false, false, false, false, false, false, false, false, false, false
	gone := false                                                   // R: the cache served a copy of a claim that no longer exists, or the claim was created again under its name
	cls, lost, wnf, cex, multi := false, false, false, false, false // injected error class, lost reply, a write answered NotFound / a create AlreadyExists by the store itself, >1 claim reconciled
	for i, rec := range s.Recs {
		stale = stale || rec.Read.Stale
		gone = gone || rec.Read.Gone
		for _, e := range rec.Env {
			gone = gone || e.Act == "claimCreate"
		}
		for _, x := range rec.XReads {
			xstale = xstale || x.Stale
		}
		ver := rec.XRV
		if ver == "" {
			ver = c06XRGVK.Version
		}
		if i > 0 && rec.XRV != s.Recs[i-1].XRV {
			vsw = true
		}
		if i > 0 && rec.Who != s.Recs[i-1].Who {
			multi = true // the long-lived reconciler went from one claim to another
		}
		if rec.Read.Found && rec.Read.Ref != "" && !strings.HasPrefix(rec.Read.Ref, c06APIVersion(c06XRGVK.Group, ver)+"|"+c06XRGVK.Kind+"|") {
			retyped = true // the reference the reconcile saw carries another apiVersion/kind than the controller's XR type
		}
		if i < len(o.Recs) {
			n := len(o.Recs[i].Calls)
			crash = crash || o.Recs[i].Res == "crashed"
			for _, c := range o.Recs[i].Calls {
				if c.Obj == "xr" && c.Applied && (c.Verb == "create" || (c.PT == "apply" && c.Verb == "patch")) {
					created = true // created or (re)applied
				}
				if c.Obj == "xr" && c.Applied && c.Verb == "delete" {
					del = true
				}
				upg = upg || (c.Obj == "xr" && c.PT == "json")
				if c.Outcome == "fail" || c.Outcome == "conflict" {
					errf = true
				}
				for _, k := range c06FaultClasses {
					cls = cls || c.Outcome == k
				}
				lost = lost || c.Outcome == "lost" || c.Outcome == "lostNoop"
				wnf = wnf || (c.Outcome == "ok" && c.Verb != "get" && c.Err == "notFound")
				cex = cex || (c.Outcome == "ok" && c.Verb == "create" && c.Err == "alreadyExists")
			}
			for _, e := range rec.Env {
				if e.After >= 0 && e.After < n-1 {
					env = true // an environment action landed between two calls of the reconcile
				}
			}
		}
	}
	b := func(x bool, s string) string {
		if x {
			return s
		}
		return "-"
	}
	// S stale claim read, X stale XR read, C crash, F injected error/conflict, E environment step between two calls,
	// A XR created/applied, D XR deleted, U managed-fields upgrade patch,
	// T a reconcile saw a spec.resourceRef whose apiVersion/kind is not the controller's XR type,
	// W the controller's XR version switched between two reconciles
	// K an injected API error class (NotFound, AlreadyExists, Invalid, Forbidden, timeout, deadline), L a reply lost after the
	// call took effect, N a write answered NotFound / Y a Create answered AlreadyExists by the store itself (interference),
	// M the one reconciler went from one claim to another; p<n> = n other claims in the world
	return fmt.Sprintf("%s/p%d/%s/%s%s%s%s%s%s%s%s%s%s%s%s%s%s%s%s", s.Syncer, len(s.Peers), claimKind, b(stale, "S"), b(xstale, "X"), b(crash, "C"), b(errf, "F"), b(env, "E"), b(created, "A"), b(del, "D"), b(upg, "U"), b(retyped, "T"), b(vsw, "W"),
		b(cls, "K"), b(lost, "L"), b(wnf, "N"), b(cex, "Y"), b(multi, "M"), b(gone, "R"))
}

func c06Clone(s c06Scn) c06Scn {
	var out c06Scn
	if err := jsonUnmarshalStrict([]byte(mustJSON(s)), &out); err != nil {
		panic(err)
	}
	return out
}

func init() {
	Register("C06", func(c *Ctx) {
		for _, raw := range c.Corpus {
			var s c06Scn
			if err := jsonUnmarshalStrict(raw, &s); err == nil && s.Syncer != "" {
				obs, mons := c06Run(&s)
				c.Emit(s, obs, mons, "corpus")
			}
		}
		for i := 0; i < c.N; {
			s := c06Gen(c.Rng, c.Tier)
			if c.Tier == "thorough" && c.Rng.Chance(1, 30) {
				// exhaustive small scope: one reconcile of the history, every call index x every outcome
				j := c.Rng.Intn(len(s.Recs))
				base := c06Clone(s)
				base.Recs[j].Faults = []c06Fault{}
				bobs, bmons := c06Run(&base)
				c.Emit(base, bobs, bmons, "x/"+c06Cls(&base, bobs))
				i++
				ncalls := len(bobs.Recs[j].Calls)
				for k := 0; k < ncalls; k++ {
					for _, o := range []string{"fail", "conflict", "crashBefore", "crashAfter", "lost", "notFound", "exists", "forbidden"} {
						v := c06Clone(s)
						v.Recs[j].Faults = []c06Fault{{K: k, O: o}}
						obs, mons := c06Run(&v)
						c.Emit(v, obs, mons, "x/"+c06Cls(&v, obs))
						i++
					}
				}
				continue
			}
			obs, mons := c06Run(&s)
			c.Emit(s, obs, mons, c06Cls(&s, obs))
			i++
		}
	})
}

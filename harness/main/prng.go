//go:build verif

package main

// Rng is SplitMix64; every random choice of a run derives from one state.
type Rng struct{ s uint64 }

func NewRng(seed uint64) *Rng {
	// mix the seed so that consecutive seeds give unrelated streams
	z := seed + 0x632BE59BD9B4E019
	z = (z ^ (z >> 30)) * 0xBF58476D1CE4E5B9
	z = (z ^ (z >> 27)) * 0x94D049BB133111EB
	z ^= z >> 31
	z = (z ^ (z >> 33)) * 0xFF51AFD7ED558CCD
	return &Rng{s: z ^ (z >> 29)}
}

func (r *Rng) U64() uint64 {
	r.s += 0x9E3779B97F4A7C15
	z := r.s
	z = (z ^ (z >> 30)) * 0xBF58476D1CE4E5B9
	z = (z ^ (z >> 27)) * 0x94D049BB133111EB
	return z ^ (z >> 31)
}

// Intn returns a value in [0,n).
func (r *Rng) Intn(n int) int {
	if n <= 0 {
		return 0
	}
	return int(r.U64() % uint64(n))
}

// Range returns a value in [lo,hi].
func (r *Rng) Range(lo, hi int) int { return lo + r.Intn(hi-lo+1) }

func (r *Rng) Bool() bool { return r.U64()&1 == 1 }

// Chance is true with probability num/den.
func (r *Rng) Chance(num, den int) bool { return r.Intn(den) < num }

func Pick[T any](r *Rng, xs []T) T { return xs[r.Intn(len(xs))] }

func (r *Rng) Perm(n int) []int {
	p := make([]int, n)
	for i := range p {
		p[i] = i
	}
	for i := n - 1; i > 0; i-- {
		j := r.Intn(i + 1)
		p[i], p[j] = p[j], p[i]
	}
	return p
}

// Fork derives an independent stream (so a scenario replays from its own seed).
func (r *Rng) Fork() *Rng { return &Rng{s: r.U64()} }

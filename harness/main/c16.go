//go:build verif

package main

// C16: establishing package objects is all-or-nothing and respects the
// active/inactive role. Drives the REAL revision.APIEstablisher (Establish and
// ReleaseObjects) over simstore: object sets x pre-existing states (absent,
// uncontrolled, controlled by the previous revision of the same package,
// controlled by another package / a foreign owner), a deterministic API-server
// rejection predicate (by submitted body / key, identical for dry-run and real
// calls), transient faults at any call, and 1..4 concurrent goroutines.
//
// The observation is order independent (store and log are sorted); what the
// model has to be told (goroutine completion order, which release goroutines
// ran) is read off the call log and stored in the scenario ("vorder", "eorder",
// "ran").

import (
	"fmt"
	"sort"
	"strings"

	metav1 "k8s.io/apimachinery/pkg/apis/meta/v1"
	"k8s.io/apimachinery/pkg/runtime"
	"k8s.io/apimachinery/pkg/types"
	"sigs.k8s.io/controller-runtime/pkg/client"

	xv1 "github.com/crossplane/crossplane/apis/apiextensions/v1"
	pkgv1 "github.com/crossplane/crossplane/apis/pkg/v1"
)

// ---------------------------------------------------------------- scenario

type c16Ref struct {
	UID   int    `json:"uid"`
	Ctrl  string `json:"ctrl"`  // "nil" | "false" | "true"
	Block string `json:"block"` // "nil" | "false" | "true"
}

type c16PRef struct {
	Name  string `json:"name"`
	UID   int    `json:"uid"`
	Ctrl  string `json:"ctrl"`
	Block string `json:"block"`
}

type c16Parent struct {
	UID    int       `json:"uid"`
	Label  string    `json:"label"`  // pkg.crossplane.io/package ("" = no label)
	Owners []c16PRef `json:"owners"` // owner references of the revision itself
}

type c16Obj struct {
	Key    string   `json:"key"` // "Composition/<name>" | "XRD/<name>"
	Body   int      `json:"body"`
	Owners []c16Ref `json:"owners"`
}

type c16Des struct {
	Key  string `json:"key"`
	Body int    `json:"body"`
}

type c16Fault struct {
	I     int    `json:"i"`     // object index (establish) / ref index (release)
	Phase string `json:"phase"` // get | dry | real
	Out   string `json:"out"`   // fail | conflict | crashBefore | crashAfter
}

// c16XRef is a status.objectRefs entry. Kinded=false: apiVersion/kind are empty
// (the typed client clears TypeMeta of an object it has created, and Establish
// builds the reference from that object).
type c16XRef struct {
	Key    string `json:"key"`
	Kinded bool   `json:"kinded"`
}

type c16RevState struct {
	UID  int       `json:"uid"`
	Refs []c16XRef `json:"refs"`
}

type c16Step struct {
	Op        string     `json:"op"` // establish | release | reconcile
	Parent    c16Parent  `json:"parent"`
	Control   bool       `json:"control"` // establish: control; reconcile: desiredState == Active
	Objs      []c16Des   `json:"objs"`
	Refs      []c16XRef  `json:"refs"` // release: status.objectRefs
	Faults    []c16Fault `json:"faults"`
	RejBodies []int      `json:"rejBodies"`
	RejKeys   []string   `json:"rejKeys"`
	Conc      int        `json:"conc"`
	// told to the model (filled in after the real run)
	VOrder []int  `json:"vorder"`
	EOrder []int  `json:"eorder"`
	Ran    []bool `json:"ran"`
}

type c16Scn struct {
	Store []c16Obj      `json:"store"`
	Revs  []c16RevState `json:"revs"` // status.objectRefs of the revisions (reconcile steps)
	Steps []c16Step     `json:"steps"`
}

// ---------------------------------------------------------------- observation

type c16Log struct {
	Verb    string `json:"verb"`
	Key     string `json:"key"`
	Err     string `json:"err"`
	Changed bool   `json:"changed"`
}

type c16RefObs struct {
	Name   string `json:"name"`
	Kinded bool   `json:"kinded"`
}

type c16StepObs struct {
	Result string      `json:"result"` // ok | err | crash
	Refs   []c16RefObs `json:"refs"`   // establish: returned refs; reconcile: status.objectRefs afterwards (sorted)
	Store  []c16Obj `json:"store"`
	Log    []c16Log `json:"log"` // non-dry-run writes of this step
}

type c16Obs struct {
	Steps []c16StepObs `json:"steps"`
}

// ---------------------------------------------------------------- world

var c16Scheme = func() *runtime.Scheme {
	s := runtime.NewScheme()
	_ = xv1.AddToScheme(s)
	_ = pkgv1.AddToScheme(s)
	return s
}()

func c16UID(n int) types.UID { return types.UID(fmt.Sprintf("u%d", n)) }

func c16UIDNum(u types.UID) int {
	n := -1
	_, _ = fmt.Sscanf(string(u), "u%d", &n)
	return n
}

func c16Tri(s string) *bool {
	switch s {
	case "true":
		t := true
		return &t
	case "false":
		f := false
		return &f
	}
	return nil
}

func c16TriStr(b *bool) string {
	if b == nil {
		return "nil"
	}
	if *b {
		return "true"
	}
	return "false"
}

// c16OwnerIdent gives every uid a fixed kind/name (never compared).
func c16OwnerIdent(uid int) (apiVersion, kind, name string) {
	switch {
	case uid < 10:
		return "pkg.crossplane.io/v1", "Configuration", fmt.Sprintf("pkg-%d", uid)
	case uid < 90:
		return "pkg.crossplane.io/v1", "ConfigurationRevision", fmt.Sprintf("pkg-%d-rev%d", uid/10, uid%10)
	}
	return "apps/v1", "Deployment", fmt.Sprintf("foreign-%d", uid)
}

func c16MkRefs(rs []c16Ref) []metav1.OwnerReference {
	var out []metav1.OwnerReference
	for _, r := range rs {
		av, k, n := c16OwnerIdent(r.UID)
		out = append(out, metav1.OwnerReference{APIVersion: av, Kind: k, Name: n, UID: c16UID(r.UID), Controller: c16Tri(r.Ctrl), BlockOwnerDeletion: c16Tri(r.Block)})
	}
	return out
}

func c16SplitKey(key string) (kind, name string) {
	i := strings.IndexByte(key, '/')
	if i < 0 {
		return key, ""
	}
	return key[:i], key[i+1:]
}

const c16BodyAnn = "c16/body"

// c16Build builds the typed package object for key with the given body, as the
// package parser would return it (TypeMeta set).
func c16Build(key string, body int) client.Object {
	kind, name := c16SplitKey(key)
	ann := map[string]string{c16BodyAnn: fmt.Sprint(body)}
	switch kind {
	case "XRD":
		o := &xv1.CompositeResourceDefinition{}
		o.SetGroupVersionKind(xv1.CompositeResourceDefinitionGroupVersionKind)
		o.SetName(name)
		o.SetAnnotations(ann)
		o.Spec.Group = "example.org"
		o.Spec.Names.Kind = fmt.Sprintf("B%d", body)
		o.Spec.Names.Plural = fmt.Sprintf("b%ds", body)
		return o
	default:
		o := &xv1.Composition{}
		o.SetGroupVersionKind(xv1.CompositionGroupVersionKind)
		o.SetName(name)
		o.SetAnnotations(ann)
		o.Spec.CompositeTypeRef = xv1.TypeReference{APIVersion: "example.org/v1", Kind: fmt.Sprintf("B%d", body)}
		return o
	}
}

func c16KeyOf(gk, name string) string {
	if strings.HasPrefix(gk, "CompositeResourceDefinition") {
		return "XRD/" + name
	}
	if strings.HasPrefix(gk, "Composition.") || gk == "Composition" {
		return "Composition/" + name
	}
	return gk + "/" + name
}

func c16BodyOf(o metav1.Object) int {
	n := -1
	_, _ = fmt.Sscanf(o.GetAnnotations()[c16BodyAnn], "%d", &n)
	return n
}

func c16ParentObj(p c16Parent) *pkgv1.ConfigurationRevision {
	pr := &pkgv1.ConfigurationRevision{}
	pr.SetGroupVersionKind(pkgv1.ConfigurationRevisionGroupVersionKind)
	_, _, n := c16OwnerIdent(p.UID)
	pr.SetName(n)
	pr.SetUID(c16UID(p.UID))
	if p.Label != "" {
		pr.SetLabels(map[string]string{pkgv1.LabelParentPackage: p.Label})
	}
	var ors []metav1.OwnerReference
	for _, r := range p.Owners {
		av, k, _ := c16OwnerIdent(r.UID)
		ors = append(ors, metav1.OwnerReference{APIVersion: av, Kind: k, Name: r.Name, UID: c16UID(r.UID), Controller: c16Tri(r.Ctrl), BlockOwnerDeletion: c16Tri(r.Block)})
	}
	pr.SetOwnerReferences(ors)
	return pr
}

// c16Snapshot is the canonical view of the package-object part of the store.
func c16Snapshot(st *Store) []c16Obj {
	out := []c16Obj{}
	for _, u := range st.All() {
		gk := u.GroupVersionKind().GroupKind().String()
		key := c16KeyOf(gk, u.GetName())
		if !strings.HasPrefix(key, "Composition/") && !strings.HasPrefix(key, "XRD/") {
			continue
		}
		o := c16Obj{Key: key, Body: c16BodyOf(u), Owners: []c16Ref{}}
		for _, r := range u.GetOwnerReferences() {
			o.Owners = append(o.Owners, c16Ref{UID: c16UIDNum(r.UID), Ctrl: c16TriStr(r.Controller), Block: c16TriStr(r.BlockOwnerDeletion)})
		}
		out = append(out, o)
	}
	sort.Slice(out, func(i, j int) bool { return out[i].Key < out[j].Key })
	return out
}


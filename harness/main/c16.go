//go:build verif

package main

// C16: establishing package objects is all-or-nothing and respects the
// active/inactive role. Drives the REAL revision.APIEstablisher (Establish and
// ReleaseObjects) over simstore: object sets x pre-existing states (absent,
// uncontrolled, controlled by the previous revision of the same package,
// controlled by another package / a foreign owner), a deterministic API-server
// rejection predicate (by submitted body / key, identical for dry-run and real
// calls), transient faults at any call, and 1..4 concurrent goroutines.
//
// The observation is order independent (store and log are sorted); what the
// model has to be told (goroutine completion order, which release goroutines
// ran) is read off the call log and stored in the scenario ("vorder", "eorder",
// "ran").

import (
	"context"
	"fmt"
	"sort"
	"strings"
	"sync"

	metav1 "k8s.io/apimachinery/pkg/apis/meta/v1"
	"k8s.io/apimachinery/pkg/runtime"
	"k8s.io/apimachinery/pkg/types"
	"sigs.k8s.io/controller-runtime/pkg/client"

	xpv1 "github.com/crossplane/crossplane-runtime/apis/common/v1"

	xv1 "github.com/crossplane/crossplane/apis/apiextensions/v1"
	pkgv1 "github.com/crossplane/crossplane/apis/pkg/v1"
	"github.com/crossplane/crossplane/internal/controller/pkg/revision"
)

// ---------------------------------------------------------------- scenario

type c16Ref struct {
	UID   int    `json:"uid"`
	Ctrl  string `json:"ctrl"`  // "nil" | "false" | "true"
	Block string `json:"block"` // "nil" | "false" | "true"
}

type c16PRef struct {
	Name  string `json:"name"`
	UID   int    `json:"uid"`
	Ctrl  string `json:"ctrl"`
	Block string `json:"block"`
}

type c16Parent struct {
	UID    int       `json:"uid"`
	Label  string    `json:"label"`  // pkg.crossplane.io/package ("" = no label)
	Owners []c16PRef `json:"owners"` // owner references of the revision itself
}

type c16Obj struct {
	Key    string   `json:"key"` // "Composition/<name>" | "XRD/<name>"
	Body   int      `json:"body"`
	Owners []c16Ref `json:"owners"`
}

type c16Des struct {
	Key  string `json:"key"`
	Body int    `json:"body"`
}

type c16Fault struct {
	I     int    `json:"i"`     // object index (establish) / ref index (release)
	Phase string `json:"phase"` // get | dry | real
	Out   string `json:"out"`   // fail | conflict | crashBefore | crashAfter
}

type c16Step struct {
	Op        string     `json:"op"` // establish | release
	Parent    c16Parent  `json:"parent"`
	Control   bool       `json:"control"`
	Objs      []c16Des   `json:"objs"`
	Refs      []string   `json:"refs"` // release: status.objectRefs
	Faults    []c16Fault `json:"faults"`
	RejBodies []int      `json:"rejBodies"`
	RejKeys   []string   `json:"rejKeys"`
	Conc      int        `json:"conc"`
	// told to the model (filled in after the real run)
	VOrder []int  `json:"vorder"`
	EOrder []int  `json:"eorder"`
	Ran    []bool `json:"ran"`
}

type c16Scn struct {
	Store []c16Obj  `json:"store"`
	Steps []c16Step `json:"steps"`
}

// ---------------------------------------------------------------- observation

type c16Log struct {
	Verb    string `json:"verb"`
	Key     string `json:"key"`
	Err     string `json:"err"`
	Changed bool   `json:"changed"`
}

type c16StepObs struct {
	Result string   `json:"result"` // ok | err | crash
	Refs   []string `json:"refs"`
	Store  []c16Obj `json:"store"`
	Log    []c16Log `json:"log"` // non-dry-run writes of this step
}

type c16Obs struct {
	Steps []c16StepObs `json:"steps"`
}

// ---------------------------------------------------------------- world

var c16Scheme = func() *runtime.Scheme {
	s := runtime.NewScheme()
	_ = xv1.AddToScheme(s)
	_ = pkgv1.AddToScheme(s)
	return s
}()

func c16UID(n int) types.UID { return types.UID(fmt.Sprintf("u%d", n)) }

func c16UIDNum(u types.UID) int {
	n := -1
	_, _ = fmt.Sscanf(string(u), "u%d", &n)
	return n
}

func c16Tri(s string) *bool {
	switch s {
	case "true":
		t := true
		return &t
	case "false":
		f := false
		return &f
	}
	return nil
}

func c16TriStr(b *bool) string {
	if b == nil {
		return "nil"
	}
	if *b {
		return "true"
	}
	return "false"
}

// c16OwnerIdent gives every uid a fixed kind/name (never compared).
func c16OwnerIdent(uid int) (apiVersion, kind, name string) {
	switch {
	case uid < 10:
		return "pkg.crossplane.io/v1", "Configuration", fmt.Sprintf("pkg-%d", uid)
	case uid < 90:
		return "pkg.crossplane.io/v1", "ConfigurationRevision", fmt.Sprintf("pkg-%d-rev%d", uid/10, uid%10)
	}
	return "apps/v1", "Deployment", fmt.Sprintf("foreign-%d", uid)
}

func c16MkRefs(rs []c16Ref) []metav1.OwnerReference {
	var out []metav1.OwnerReference
	for _, r := range rs {
		av, k, n := c16OwnerIdent(r.UID)
		out = append(out, metav1.OwnerReference{APIVersion: av, Kind: k, Name: n, UID: c16UID(r.UID), Controller: c16Tri(r.Ctrl), BlockOwnerDeletion: c16Tri(r.Block)})
	}
	return out
}

func c16SplitKey(key string) (kind, name string) {
	i := strings.IndexByte(key, '/')
	if i < 0 {
		return key, ""
	}
	return key[:i], key[i+1:]
}

const c16BodyAnn = "c16/body"

// c16Build builds the typed package object for key with the given body, as the
// package parser would return it (TypeMeta set).
func c16Build(key string, body int) client.Object {
	kind, name := c16SplitKey(key)
	ann := map[string]string{c16BodyAnn: fmt.Sprint(body)}
	switch kind {
	case "XRD":
		o := &xv1.CompositeResourceDefinition{}
		o.SetGroupVersionKind(xv1.CompositeResourceDefinitionGroupVersionKind)
		o.SetName(name)
		o.SetAnnotations(ann)
		o.Spec.Group = "example.org"
		o.Spec.Names.Kind = fmt.Sprintf("B%d", body)
		o.Spec.Names.Plural = fmt.Sprintf("b%ds", body)
		return o
	default:
		o := &xv1.Composition{}
		o.SetGroupVersionKind(xv1.CompositionGroupVersionKind)
		o.SetName(name)
		o.SetAnnotations(ann)
		o.Spec.CompositeTypeRef = xv1.TypeReference{APIVersion: "example.org/v1", Kind: fmt.Sprintf("B%d", body)}
		return o
	}
}

func c16KeyOf(gk, name string) string {
	if strings.HasPrefix(gk, "CompositeResourceDefinition") {
		return "XRD/" + name
	}
	if strings.HasPrefix(gk, "Composition.") || gk == "Composition" {
		return "Composition/" + name
	}
	return gk + "/" + name
}

func c16BodyOf(o metav1.Object) int {
	n := -1
	_, _ = fmt.Sscanf(o.GetAnnotations()[c16BodyAnn], "%d", &n)
	return n
}

func c16ParentObj(p c16Parent) *pkgv1.ConfigurationRevision {
	pr := &pkgv1.ConfigurationRevision{}
	pr.SetGroupVersionKind(pkgv1.ConfigurationRevisionGroupVersionKind)
	_, _, n := c16OwnerIdent(p.UID)
	pr.SetName(n)
	pr.SetUID(c16UID(p.UID))
	if p.Label != "" {
		pr.SetLabels(map[string]string{pkgv1.LabelParentPackage: p.Label})
	}
	var ors []metav1.OwnerReference
	for _, r := range p.Owners {
		av, k, _ := c16OwnerIdent(r.UID)
		ors = append(ors, metav1.OwnerReference{APIVersion: av, Kind: k, Name: r.Name, UID: c16UID(r.UID), Controller: c16Tri(r.Ctrl), BlockOwnerDeletion: c16Tri(r.Block)})
	}
	pr.SetOwnerReferences(ors)
	return pr
}

// c16Snapshot is the canonical view of the package-object part of the store.
func c16Snapshot(st *Store) []c16Obj {
	out := []c16Obj{}
	for _, u := range st.All() {
		gk := u.GroupVersionKind().GroupKind().String()
		key := c16KeyOf(gk, u.GetName())
		if !strings.HasPrefix(key, "Composition/") && !strings.HasPrefix(key, "XRD/") {
			continue
		}
		o := c16Obj{Key: key, Body: c16BodyOf(u), Owners: []c16Ref{}}
		for _, r := range u.GetOwnerReferences() {
			o.Owners = append(o.Owners, c16Ref{UID: c16UIDNum(r.UID), Ctrl: c16TriStr(r.Controller), Block: c16TriStr(r.BlockOwnerDeletion)})
		}
		out = append(out, o)
	}
	sort.Slice(out, func(i, j int) bool { return out[i].Key < out[j].Key })
	return out
}

// ---------------------------------------------------------------- instrumented client

type c16Call struct {
	Verb  string
	Key   string
	Dry   bool
	Body  int
	Idx   int // object / ref index the call belongs to (-1 unknown)
	Phase string
}

// c16Client serialises calls into simstore and lets the fault plan see the
// submitted object (body) so that a deterministic "the API server rejects this
// object" predicate can be injected for dry-run and real calls alike.
type c16Client struct {
	*Store
	mu      sync.Mutex
	pending int // body of the object being submitted
	calls   []c16Call
	step    *c16Step
	seen    map[string]int // key|phase -> number of calls so far (duplicate resolution)
}

func (c *c16Client) Get(ctx context.Context, key client.ObjectKey, obj client.Object, opts ...client.GetOption) error {
	c.mu.Lock()
	defer c.mu.Unlock()
	c.pending = -1
	return c.Store.Get(ctx, key, obj, opts...)
}

func (c *c16Client) Create(ctx context.Context, obj client.Object, opts ...client.CreateOption) error {
	c.mu.Lock()
	defer c.mu.Unlock()
	c.pending = c16BodyOf(obj)
	return c.Store.Create(ctx, obj, opts...)
}

func (c *c16Client) Update(ctx context.Context, obj client.Object, opts ...client.UpdateOption) error {
	c.mu.Lock()
	defer c.mu.Unlock()
	c.pending = c16BodyOf(obj)
	return c.Store.Update(ctx, obj, opts...)
}

func c16Outcome(s string) Outcome {
	switch s {
	case "fail":
		return Fail
	case "conflict":
		return Conflict
	case "crashBefore":
		return CrashBefore
	case "crashAfter":
		return CrashAfter
	}
	return OK
}

// plan is installed as st.Plan for one step. Called with c.mu held.
func (c *c16Client) plan(ci CallInfo) Outcome {
	s := c.step
	key := c16KeyOf(ci.GK, ci.Name)
	phase := "real"
	if ci.Verb == "get" {
		phase = "get"
	} else if ci.DryRun {
		phase = "dry"
	}
	// which object / ref index does this call belong to?
	var cands []int
	if s.Op == "release" {
		for i, k := range s.Refs {
			if k == key {
				cands = append(cands, i)
			}
		}
	} else {
		for i, d := range s.Objs {
			if d.Key == key {
				cands = append(cands, i)
			}
		}
	}
	idx := -1
	if len(cands) > 0 {
		n := c.seen[key+"|"+phase]
		c.seen[key+"|"+phase] = n + 1
		if n < len(cands) {
			idx = cands[n]
		} else {
			idx = cands[len(cands)-1]
		}
	}
	c.calls = append(c.calls, c16Call{Verb: ci.Verb, Key: key, Dry: ci.DryRun, Body: c.pending, Idx: idx, Phase: phase})
	if ci.IsWrite() {
		for _, b := range s.RejBodies {
			if b == c.pending {
				return Fail
			}
		}
		for _, k := range s.RejKeys {
			if k == key {
				return Fail
			}
		}
	}
	for _, f := range s.Faults {
		if f.I == idx && f.Phase == phase {
			return c16Outcome(f.Out)
		}
	}
	return OK
}

// ---------------------------------------------------------------- running one scenario

func c16Seed(st *Store, objs []c16Obj) {
	for _, o := range objs {
		t := c16Build(o.Key, o.Body)
		t.SetOwnerReferences(c16MkRefs(o.Owners))
		st.Seed(t)
	}
}

func c16RefsOf(keys []string) []xpv1.TypedReference {
	var out []xpv1.TypedReference
	for _, k := range keys {
		kind, name := c16SplitKey(k)
		gvk := xv1.CompositionGroupVersionKind
		if kind == "XRD" {
			gvk = xv1.CompositeResourceDefinitionGroupVersionKind
		}
		av, kd := gvk.ToAPIVersionAndKind()
		out = append(out, xpv1.TypedReference{APIVersion: av, Kind: kd, Name: name})
	}
	return out
}

// firstOrder lists the indices in order of first appearance in calls of the
// given phase, then the remaining indices ascending.
func c16FirstOrder(calls []c16Call, phase string, n int) []int {
	out := []int{}
	seen := map[int]bool{}
	for _, c := range calls {
		if c.Phase == phase && c.Idx >= 0 && !seen[c.Idx] {
			seen[c.Idx] = true
			out = append(out, c.Idx)
		}
	}
	for i := 0; i < n; i++ {
		if !seen[i] {
			out = append(out, i)
		}
	}
	return out
}

func c16RunStep(st *Store, s *c16Step) (c16StepObs, []c16Call) {
	cl := &c16Client{Store: st, step: s, seen: map[string]int{}, pending: -1}
	st.Revive()
	st.Log = nil
	st.Plan = cl.plan
	conc := s.Conc
	if conc < 1 {
		conc = 1
	}
	e := revision.NewAPIEstablisher(cl, "crossplane-system", conc)
	parent := c16ParentObj(s.Parent)
	obs := c16StepObs{Refs: []string{}, Log: []c16Log{}}
	var err error
	var panicked string
	switch s.Op {
	case "release":
		parent.SetObjects(c16RefsOf(s.Refs))
		panicked = Guard(func() { err = e.ReleaseObjects(context.Background(), parent) })
	default:
		var objs []runtime.Object
		for _, d := range s.Objs {
			objs = append(objs, c16Build(d.Key, d.Body))
		}
		var refs []xpv1.TypedReference
		panicked = Guard(func() { refs, err = e.Establish(context.Background(), objs, parent, s.Control) })
		if err == nil {
			for _, r := range refs {
				// The kind of a reference is not compared: the typed client (and
				// simstore) clear TypeMeta on objects they decode into.
				obs.Refs = append(obs.Refs, r.Name)
			}
			sort.Strings(obs.Refs)
		}
	}
	st.Plan = nil
	switch {
	case panicked != "":
		obs.Result = "panic: " + panicked
	case st.Crashed():
		obs.Result = "crash"
		obs.Refs = []string{}
	case err != nil:
		obs.Result = "err"
	default:
		obs.Result = "ok"
	}
	for _, c := range st.Log {
		if !c.IsWrite() || c.DryRun {
			continue
		}
		obs.Log = append(obs.Log, c16Log{Verb: c.Verb, Key: c16KeyOf(c.GK, c.Name), Err: c.Err, Changed: c.Changed})
	}
	if conc > 1 {
		sort.SliceStable(obs.Log, func(i, j int) bool {
			a, b := obs.Log[i], obs.Log[j]
			if a.Key != b.Key {
				return a.Key < b.Key
			}
			return a.Verb < b.Verb
		})
	}
	st.Revive()
	obs.Store = c16Snapshot(st)
	// what the model must be told
	if s.Op == "release" {
		s.Ran = make([]bool, len(s.Refs))
		for _, c := range cl.calls {
			if c.Phase == "get" && c.Idx >= 0 {
				s.Ran[c.Idx] = true
			}
		}
		s.VOrder, s.EOrder = []int{}, []int{}
	} else {
		s.VOrder = c16FirstOrder(cl.calls, "get", len(s.Objs))
		s.EOrder = c16FirstOrder(cl.calls, "real", len(s.Objs))
		s.Ran = []bool{}
	}
	return obs, cl.calls
}

func c16Run(scn *c16Scn) (c16Obs, []Mon) {
	st := NewStore(c16Scheme)
	c16Seed(st, scn.Store)
	obs := c16Obs{Steps: []c16StepObs{}}
	var mons []Mon
	for i := range scn.Steps {
		before := c16Snapshot(st)
		so, calls := c16RunStep(st, &scn.Steps[i])
		obs.Steps = append(obs.Steps, so)
		mons = append(mons, c16Monitor(&scn.Steps[i], before, so, calls)...)
	}
	return obs, mons
}

// ---------------------------------------------------------------- direct monitors

func c16Find(objs []c16Obj, key string) *c16Obj {
	for i := range objs {
		if objs[i].Key == key {
			return &objs[i]
		}
	}
	return nil
}

func c16PkgRef(p c16Parent) (c16PRef, bool) {
	for _, r := range p.Owners {
		if r.Name == p.Label {
			return r, true
		}
	}
	return c16PRef{}, false
}

func c16Same(a, b c16Obj) bool { return mustJSON(a) == mustJSON(b) }

func c16HasUID(o *c16Obj, uid int) *c16Ref {
	for i := range o.Owners {
		if o.Owners[i].UID == uid {
			return &o.Owners[i]
		}
	}
	return nil
}

func c16InInts(xs []int, x int) bool {
	for _, y := range xs {
		if x == y {
			return true
		}
	}
	return false
}

func c16InStrs(xs []string, x string) bool {
	for _, y := range xs {
		if x == y {
			return true
		}
	}
	return false
}

// c16Monitor evaluates the property itself on the real run of one step.
func c16Monitor(s *c16Step, before []c16Obj, so c16StepObs, calls []c16Call) []Mon {
	var mons []Mon
	add := func(sig, why string) { mons = append(mons, Mon{Sig: sig, Why: why}) }
	if strings.HasPrefix(so.Result, "panic") {
		add("C16:panic", so.Result)
		return mons
	}
	after := so.Store
	pkg, hasPkg := c16PkgRef(s.Parent)
	changed := func(o c16Obj) bool {
		b := c16Find(before, o.Key)
		return b == nil || !c16Same(*b, o)
	}
	// nothing is ever deleted and no owner entry is ever dropped
	for _, b := range before {
		a := c16Find(after, b.Key)
		if a == nil {
			add("C16:object-deleted", b.Key+" disappeared")
			continue
		}
		for _, r := range b.Owners {
			if c16HasUID(a, r.UID) == nil {
				add("C16:owner-entry-dropped", fmt.Sprintf("%s lost its owner entry for uid %d (op %s)", b.Key, r.UID, s.Op))
			}
		}
	}
	if s.Op == "release" {
		for _, a := range after {
			if !changed(a) {
				continue
			}
			if r := c16HasUID(&a, s.Parent.UID); r == nil || r.Ctrl == "true" {
				add("C16:release-kept-control", a.Key+" written by ReleaseObjects but the revision is still controller or not an owner")
			}
		}
		if so.Result == "ok" {
			for _, k := range s.Refs {
				a := c16Find(after, k)
				if a == nil {
					continue
				}
				if r := c16HasUID(a, s.Parent.UID); r == nil || r.Ctrl == "true" {
					add("C16:release-kept-control", k+" after a successful release: revision is still controller or not an owner")
				}
			}
		}
		return mons
	}
	// establish ---------------------------------------------------------
	// (1) all-or-nothing, decided from the pre-state only
	blocked := ""
	for _, d := range s.Objs {
		cur := c16Find(before, d.Key)
		if s.Control && cur != nil {
			for _, r := range cur.Owners {
				if r.Ctrl == "true" && r.UID != s.Parent.UID && !(hasPkg && r.UID == pkg.UID) {
					blocked = fmt.Sprintf("%s is controlled by uid %d", d.Key, r.UID)
				}
			}
		}
		submits := cur != nil || s.Control
		if submits && c16InStrs(s.RejKeys, d.Key) {
			blocked = d.Key + " is rejected by the API server (key)"
		}
		body := d.Body
		if !s.Control && cur != nil {
			body = cur.Body
		}
		if submits && c16InInts(s.RejBodies, body) {
			blocked = fmt.Sprintf("%s is rejected by the API server (body %d)", d.Key, body)
		}
	}
	if blocked != "" {
		if so.Result == "ok" {
			add("C16:established-despite-blocked", blocked+" but Establish reported success")
		}
		if len(so.Log) > 0 || mustJSON(before) != mustJSON(after) {
			add("C16:partial-establish", blocked+" but objects were created or modified: "+mustJSON(so.Log))
		}
	}
	// (2) a failure in the dry-run phase means nothing was written
	realSeen := false
	for _, c := range calls {
		if c.Phase == "real" {
			realSeen = true
		}
		if c.Phase != "real" && realSeen && c.Verb != "get" && s.Conc == 1 {
			add("C16:dry-run-after-real", "a dry-run call was issued after a real write")
		}
	}
	// (3) role laws on every object the step wrote
	for _, a := range after {
		b := c16Find(before, a.Key)
		if b == nil {
			if !s.Control {
				add("C16:inactive-created", a.Key+" was created by an inactive revision")
			}
		}
		if !changed(a) {
			continue
		}
		me := c16HasUID(&a, s.Parent.UID)
		if s.Control {
			if me == nil || me.Ctrl != "true" {
				add("C16:active-not-controller", a.Key+" written by an active revision which is not its controller")
			}
		} else {
			if me == nil {
				add("C16:inactive-not-owner", a.Key+" written by an inactive revision which is not an owner")
			} else if me.Ctrl == "true" {
				add("C16:inactive-controls", a.Key+" written by an inactive revision which is its controller")
			}
			if b != nil && b.Body != a.Body {
				add("C16:inactive-modified-content", a.Key+" content changed by an inactive revision")
			}
		}
		if hasPkg && pkg.UID != s.Parent.UID {
			if pr := c16HasUID(&a, pkg.UID); pr == nil || pr.Ctrl == "true" {
				add("C16:package-owner-missing", a.Key+" was written without the package as non-controlling owner")
			}
		}
		n := 0
		for _, r := range a.Owners {
			if r.Ctrl == "true" {
				n++
			}
		}
		if n > 1 {
			add("C16:two-controllers", a.Key)
		}
	}
	// (4) a successful active establish controls every object of the package
	if so.Result == "ok" {
		for _, d := range s.Objs {
			a := c16Find(after, d.Key)
			if s.Control {
				if a == nil {
					add("C16:active-not-controller", d.Key+" missing after a successful establish")
				} else if me := c16HasUID(a, s.Parent.UID); me == nil || me.Ctrl != "true" {
					add("C16:active-not-controller", d.Key+" not controlled after a successful establish")
				}
			} else if a != nil {
				if me := c16HasUID(a, s.Parent.UID); me == nil || me.Ctrl == "true" {
					add("C16:inactive-not-owner", d.Key+" not plainly owned after a successful inactive establish")
				}
			}
		}
	}
	return mons
}

// ---------------------------------------------------------------- generator

var (
	c16Keys = []string{"Composition/a", "Composition/b", "Composition/c", "XRD/a", "XRD/d", "Composition/e"}
)

func c16GenParent(r *Rng, uid int) c16Parent {
	pkgUID := uid / 10
	_, _, pkgName := c16OwnerIdent(pkgUID)
	p := c16Parent{UID: uid, Label: pkgName, Owners: []c16PRef{}}
	switch r.Intn(10) {
	case 0: // no owner reference to the package at all
	case 1: // label does not match
		p.Owners = append(p.Owners, c16PRef{Name: pkgName, UID: pkgUID, Ctrl: "true", Block: "true"})
		p.Label = ""
	case 2: // an unrelated owner first
		p.Owners = append(p.Owners, c16PRef{Name: "someone", UID: 95, Ctrl: "nil", Block: "nil"}, c16PRef{Name: pkgName, UID: pkgUID, Ctrl: "true", Block: "true"})
	default:
		p.Owners = append(p.Owners, c16PRef{Name: pkgName, UID: pkgUID, Ctrl: "true", Block: "true"})
	}
	return p
}

// c16GenOwners draws a pre-existing owner state for an object, relative to the
// revision `me` (uid) of package me/10.
func c16GenOwners(r *Rng, me int) ([]c16Ref, string) {
	pkg := me / 10
	prev := pkg*10 + (me%10+1)%3
	otherPkg := 3 - pkg
	otherRev := otherPkg*10 + r.Intn(2)
	var out []c16Ref
	cls := ""
	switch r.Intn(9) {
	case 0:
		cls = "uncontrolled"
	case 1:
		cls = "uncontrolled+pkg"
		out = append(out, c16Ref{pkg, "false", "true"})
	case 2:
		cls = "prevrev"
		out = append(out, c16Ref{prev, "true", "true"}, c16Ref{pkg, "false", "true"})
	case 3:
		cls = "prevrev-released"
		out = append(out, c16Ref{prev, "false", "true"}, c16Ref{pkg, "false", "true"})
	case 4:
		cls = "otherpkg"
		out = append(out, c16Ref{otherRev, "true", "true"}, c16Ref{otherPkg, "false", "true"})
	case 5:
		cls = "self"
		out = append(out, c16Ref{me, "true", "true"}, c16Ref{pkg, "false", "true"})
	case 6:
		cls = "self-plain"
		out = append(out, c16Ref{pkg, "false", "true"}, c16Ref{me, Pick(r, []string{"nil", "false"}), Pick(r, []string{"nil", "true"})})
	case 7:
		cls = "foreign"
		out = append(out, c16Ref{90, "true", Pick(r, []string{"nil", "true"})})
	case 8:
		cls = "pkg-controls"
		out = append(out, c16Ref{pkg, "true", "true"})
	}
	if r.Chance(1, 6) {
		out = append(out, c16Ref{91, "nil", "nil"})
	}
	return out, cls
}

func c16GenFaults(r *Rng, n int, phases []string, crash bool) []c16Fault {
	fs := []c16Fault{}
	if n == 0 {
		return fs
	}
	outs := []string{"fail", "fail", "conflict"}
	if crash {
		outs = append(outs, "crashBefore", "crashAfter")
	}
	for k, m := 0, r.Range(1, 2); k < m; k++ {
		fs = append(fs, c16Fault{I: r.Intn(n), Phase: Pick(r, phases), Out: Pick(r, outs)})
	}
	return fs
}

func c16GenEstablish(r *Rng, store *[]c16Obj, cls *[]string) c16Step {
	me := Pick(r, []int{10, 11, 12, 20, 21})
	s := c16Step{Op: "establish", Parent: c16GenParent(r, me), Control: r.Chance(3, 5), Objs: []c16Des{}, Refs: []string{}, Faults: []c16Fault{}, RejBodies: []int{}, RejKeys: []string{}, VOrder: []int{}, EOrder: []int{}, Ran: []bool{}}
	s.Conc = Pick(r, []int{1, 1, 2, 4})
	n := r.Range(0, 5)
	perm := r.Perm(len(c16Keys))
	for i := 0; i < n; i++ {
		s.Objs = append(s.Objs, c16Des{Key: c16Keys[perm[i]], Body: r.Range(1, 4)})
	}
	dup := false
	if n > 0 && s.Conc == 1 && r.Chance(1, 12) {
		// a poorly formed package: the same object twice
		d := s.Objs[r.Intn(n)]
		if r.Bool() {
			d.Body = r.Range(1, 4)
		}
		s.Objs = append(s.Objs, d)
		dup = true
	}
	states := map[string]bool{}
	for _, d := range s.Objs {
		if c16Find(*store, d.Key) != nil {
			continue
		}
		if r.Chance(2, 5) {
			states["absent"] = true
			continue
		}
		ow, c := c16GenOwners(r, me)
		states[c] = true
		body := d.Body
		if r.Bool() {
			body = r.Range(1, 4)
		}
		*store = append(*store, c16Obj{Key: d.Key, Body: body, Owners: ow})
	}
	fk := "none"
	switch r.Intn(8) {
	case 0:
		s.RejBodies = append(s.RejBodies, r.Range(1, 4))
		fk = "rejBody"
	case 1:
		if len(s.Objs) > 0 {
			s.RejKeys = append(s.RejKeys, s.Objs[r.Intn(len(s.Objs))].Key)
			fk = "rejKey"
		}
	case 2, 3:
		// transient faults: keyed by (object, phase); crashes only sequentially
		s.Faults = c16GenFaults(r, len(s.Objs), []string{"get", "dry", "real", "real"}, s.Conc == 1)
		if len(s.Faults) > 0 {
			fk = "fault-" + s.Faults[0].Phase + "-" + s.Faults[0].Out
		}
	}
	var ks []string
	for k := range states {
		ks = append(ks, k)
	}
	sort.Strings(ks)
	*cls = append(*cls, fmt.Sprintf("est/ctl=%v/n=%d/conc=%d/dup=%v/%s/pre=%s", s.Control, len(s.Objs), s.Conc, dup, fk, strings.Join(ks, "+")))
	return s
}

func c16GenRelease(r *Rng, store *[]c16Obj, cls *[]string) c16Step {
	me := Pick(r, []int{10, 11, 12, 20, 21})
	s := c16Step{Op: "release", Parent: c16GenParent(r, me), Objs: []c16Des{}, Refs: []string{}, Faults: []c16Fault{}, RejBodies: []int{}, RejKeys: []string{}, VOrder: []int{}, EOrder: []int{}, Ran: []bool{}}
	n := r.Range(0, 5)
	perm := r.Perm(len(c16Keys))
	for i := 0; i < n; i++ {
		s.Refs = append(s.Refs, c16Keys[perm[i]])
	}
	for _, k := range s.Refs {
		if c16Find(*store, k) != nil || r.Chance(1, 5) {
			continue
		}
		ow, _ := c16GenOwners(r, me)
		*store = append(*store, c16Obj{Key: k, Body: r.Range(1, 4), Owners: ow})
	}
	fk := "none"
	s.Conc = Pick(r, []int{1, 2, 4})
	switch r.Intn(6) {
	case 0:
		if n > 0 {
			s.RejKeys = append(s.RejKeys, s.Refs[r.Intn(n)])
			fk = "rejKey"
			s.Conc = 1
		}
	case 1, 2:
		s.Faults = c16GenFaults(r, n, []string{"get", "real"}, true)
		if len(s.Faults) > 0 {
			fk = "fault-" + s.Faults[0].Phase + "-" + s.Faults[0].Out
			s.Conc = 1
		}
	}
	*cls = append(*cls, fmt.Sprintf("rel/n=%d/conc=%d/%s", n, s.Conc, fk))
	return s
}

func c16Gen(r *Rng) (c16Scn, string) {
	scn := c16Scn{Store: []c16Obj{}, Steps: []c16Step{}}
	var cls []string
	if r.Chance(1, 3) {
		scn.Steps = append(scn.Steps, c16GenRelease(r, &scn.Store, &cls))
	} else {
		scn.Steps = append(scn.Steps, c16GenEstablish(r, &scn.Store, &cls))
	}
	sort.Slice(scn.Store, func(i, j int) bool { return scn.Store[i].Key < scn.Store[j].Key })
	return scn, strings.Join(cls, ";")
}

func init() {
	Register("C16", func(c *Ctx) {
		for _, raw := range c.Corpus {
			var s c16Scn
			if err := jsonUnmarshalStrict(raw, &s); err == nil && len(s.Steps) > 0 {
				obs, mons := c16Run(&s)
				c.Emit(s, obs, mons, "corpus")
			}
		}
		for i := 0; i < c.N; i++ {
			s, cls := c16Gen(c.Rng)
			obs, mons := c16Run(&s)
			c.Emit(s, obs, mons, cls)
		}
	})
}

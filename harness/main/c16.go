//go:build verif

package main

// C16: establishing package objects is all-or-nothing and respects the
// active/inactive role. Drives the REAL revision.APIEstablisher (Establish and
// ReleaseObjects) over simstore: object sets x pre-existing states (absent,
// uncontrolled, controlled by the previous revision of the same package,
// controlled by another package / a foreign owner), a deterministic API-server
// rejection predicate (by submitted body / key, identical for dry-run and real
// calls), transient faults at any call, and 1..4 concurrent goroutines.
//
// The observation is order independent (store and log are sorted); what the
// model has to be told (goroutine completion order, which release goroutines
// ran) is read off the call log and stored in the scenario ("vorder", "eorder",
// "ran").

import (
	"fmt"
	"sort"
	"strings"

	corev1 "k8s.io/api/core/v1"
	extv1 "k8s.io/apiextensions-apiserver/pkg/apis/apiextensions/v1"
	metav1 "k8s.io/apimachinery/pkg/apis/meta/v1"
	"k8s.io/apimachinery/pkg/runtime"
	"k8s.io/apimachinery/pkg/types"
	"sigs.k8s.io/controller-runtime/pkg/client"

	xpmeta "github.com/crossplane/crossplane-runtime/pkg/meta"

	xv1 "github.com/crossplane/crossplane/apis/apiextensions/v1"
	pkgv1 "github.com/crossplane/crossplane/apis/pkg/v1"
	"github.com/crossplane/crossplane/internal/controller/pkg/revision"
)

// ---------------------------------------------------------------- scenario

type c16Ref struct {
	UID   int    `json:"uid"`
	Ctrl  string `json:"ctrl"`  // "nil" | "false" | "true"
	Block string `json:"block"` // "nil" | "false" | "true"
	// Name overrides the name c16OwnerIdent gives the uid: an owner entry that carries the
	// SAME kind and name as somebody else (an earlier incarnation of the revision, deleted and
	// re-created under its name) but another UID. Owner references are told apart by UID only;
	// the model never sees the name.
	Name string `json:"name,omitempty"`
}

type c16PRef struct {
	Name  string `json:"name"`
	UID   int    `json:"uid"`
	Ctrl  string `json:"ctrl"`
	Block string `json:"block"`
}

type c16Parent struct {
	UID    int       `json:"uid"`
	Label  string    `json:"label"`  // pkg.crossplane.io/package ("" = no label)
	Owners []c16PRef `json:"owners"` // owner references of the revision itself
	// webhook TLS server secret: "" / "noRuntime" = ConfigurationRevision parent; otherwise a
	// ProviderRevision whose spec.tlsServerSecretName is nil ("noName") or names a secret that is
	// "present", "missing" or has an "empty" tls.crt
	TLS string `json:"tls"`
}

type c16Obj struct {
	Key    string   `json:"key"` // "Composition/<name>" | "XRD/<name>"
	Body   int      `json:"body"`
	Owners []c16Ref `json:"owners"`
}

type c16Des struct {
	Key  string `json:"key"` // "Composition/<n>" | "XRD/<n>" | "CRD/<n>"
	Body int    `json:"body"`
	Conv bool   `json:"conv"` // CRD with conversion strategy Webhook (needs the CA bundle)
}

type c16Fault struct {
	I     int    `json:"i"`     // object index (establish) / ref index (release)
	Phase string `json:"phase"` // get | dry | real
	Out   string `json:"out"`   // fail | conflict | crashBefore | crashAfter
	// Class is the API error class an Out=="fail" is answered with ("" = InternalError):
	// notFound | alreadyExists | invalid | forbidden | timeout | tooMany | unavailable | deadline.
	// The code must treat every one of them as a plain failure of that call (the model does: `.fail`).
	Class string `json:"class,omitempty"`
}

// c16Stale: the informer cache behind the validate-phase Get of object I is not up to date: it
// misses the object (NotFound although it may exist) or serves an OLDER VERSION (Owners/Body,
// with a resourceVersion older than the stored one). Back > 0 asks the harness to take the
// version that many writes back out of simstore's history of the object (it then fills in
// Owners/Body - what the model is told - or drops the entry when there is no older version).
type c16Stale struct {
	I      int      `json:"i"`
	Miss   bool     `json:"miss"`
	Body   int      `json:"body"`
	Owners []c16Ref `json:"owners"`
	Back   int      `json:"back,omitempty"`
}

// c16StaleRefs: the reconciler's (cached) Get of the revision itself serves an older version:
// status.objectRefs = Refs and an old resourceVersion. Back > 0: take the list the revision had
// that many status writes ago (the harness fills in Refs, or drops the staleness).
type c16StaleRefs struct {
	Refs []c16XRef `json:"refs"`
	Back int       `json:"back,omitempty"`
}

// c16XRef is a status.objectRefs entry. Kinded=false: apiVersion/kind are empty
// (the typed client clears TypeMeta of an object it has created, and Establish
// builds the reference from that object).
type c16XRef struct {
	Key    string `json:"key"`
	Kinded bool   `json:"kinded"`
}

type c16RevState struct {
	UID  int       `json:"uid"`
	Refs []c16XRef `json:"refs"`
}

// c16Act is one write of a THIRD PARTY (garbage collector, administrator, another
// controller) interleaved with the Establish call of the step: it happens right
// before the real (non-dry-run) write that the goroutine of object I issues, i.e.
// after the validate phase has seen the object; I = -1: between the validate phase
// and the establish phase (before the first real write, whichever object it is for). "del" deletes the object with
// this key, "put" creates it or replaces it (fresh resourceVersion) with the given
// body and owner references.
type c16Act struct {
	I int `json:"i"`
	// At places the write: "" = right before the REAL write of object I (I = -1: between the
	// phases); "vget" / "vdry" = validate phase: right before the Get / between the Get and the
	// dry-run write of object I; "rget" / "rupd" = ReleaseObjects: right before the Get / between
	// the Get and the Update of reference I.
	At     string   `json:"at,omitempty"`
	Act    string   `json:"act"` // del | put
	Key    string   `json:"key"`
	Body   int      `json:"body"`
	Owners []c16Ref `json:"owners"`
}

type c16Step struct {
	Op        string        `json:"op"` // establish | release | reconcile
	Parent    c16Parent     `json:"parent"`
	Control   bool          `json:"control"` // establish: control; reconcile: desiredState == Active
	Objs      []c16Des      `json:"objs"`
	Refs      []c16XRef     `json:"refs"` // release: status.objectRefs
	Faults    []c16Fault    `json:"faults"`
	RejBodies []int         `json:"rejBodies"`
	RejKeys   []string      `json:"rejKeys"`
	Conc      int           `json:"conc"`
	TP        []c16Act      `json:"tp"` // third-party interference (see c16Act.At)
	Stale     []c16Stale    `json:"stale,omitempty"`
	StaleRefs *c16StaleRefs `json:"staleRefs,omitempty"`
	// DS (reconcile steps): spec.desiredState as the free-form string it is - "" for a revision
	// that was never activated (revisionActivationPolicy: Manual), a case variant, garbage. nil:
	// "Active" / "Inactive" according to Control. Control must say whether the string is exactly
	// "Active" (c16Normalize makes it so).
	DS *string `json:"ds,omitempty"`
	// told to the model (filled in after the real run)
	VOrder []int  `json:"vorder"`
	EOrder []int  `json:"eorder"`
	Ran    []bool `json:"ran"`
}

type c16Scn struct {
	Store []c16Obj      `json:"store"`
	Revs  []c16RevState `json:"revs"` // status.objectRefs of the revisions (reconcile steps)
	Steps []c16Step     `json:"steps"`
}

// ---------------------------------------------------------------- observation

type c16Log struct {
	Verb    string `json:"verb"`
	Key     string `json:"key"`
	Err     string `json:"err"`
	Changed bool   `json:"changed"`
}

type c16RefObs struct {
	Name   string `json:"name"`
	Kinded bool   `json:"kinded"`
}

type c16StepObs struct {
	Result string      `json:"result"` // ok | err | crash
	Refs   []c16RefObs `json:"refs"`   // establish: returned refs; reconcile: status.objectRefs afterwards (sorted)
	Store  []c16Obj    `json:"store"`
	Log    []c16Log    `json:"log"` // non-dry-run writes of this step
}

type c16Obs struct {
	Steps []c16StepObs `json:"steps"`
}

// ---------------------------------------------------------------- world

var c16Scheme = func() *runtime.Scheme {
	s := runtime.NewScheme()
	_ = xv1.AddToScheme(s)
	_ = pkgv1.AddToScheme(s)
	_ = extv1.AddToScheme(s)
	_ = corev1.AddToScheme(s)
	return s
}()

func c16UID(n int) types.UID { return types.UID(fmt.Sprintf("u%d", n)) }

func c16UIDNum(u types.UID) int {
	n := -1
	_, _ = fmt.Sscanf(string(u), "u%d", &n)
	return n
}

func c16Tri(s string) *bool {
	switch s {
	case "true":
		t := true
		return &t
	case "false":
		f := false
		return &f
	}
	return nil
}

func c16TriStr(b *bool) string {
	if b == nil {
		return "nil"
	}
	if *b {
		return "true"
	}
	return "false"
}

// c16OwnerIdent gives every uid a fixed kind/name (never compared).
func c16OwnerIdent(uid int) (apiVersion, kind, name string) {
	switch {
	case uid < 10:
		return "pkg.crossplane.io/v1", "Configuration", fmt.Sprintf("pkg-%d", uid)
	case uid >= 30 && uid < 40: // the revisions of package 3 are ProviderRevisions (parents with a runtime)
		return "pkg.crossplane.io/v1", "ProviderRevision", fmt.Sprintf("pkg-%d-rev%d", uid/10, uid%10)
	case uid < 90:
		return "pkg.crossplane.io/v1", "ConfigurationRevision", fmt.Sprintf("pkg-%d-rev%d", uid/10, uid%10)
	}
	return "apps/v1", "Deployment", fmt.Sprintf("foreign-%d", uid)
}

func c16MkRefs(rs []c16Ref) []metav1.OwnerReference {
	var out []metav1.OwnerReference
	for _, r := range rs {
		av, k, n := c16OwnerIdent(r.UID)
		if r.Name != "" {
			n = r.Name
		}
		out = append(out, metav1.OwnerReference{APIVersion: av, Kind: k, Name: n, UID: c16UID(r.UID), Controller: c16Tri(r.Ctrl), BlockOwnerDeletion: c16Tri(r.Block)})
	}
	return out
}

func c16SplitKey(key string) (kind, name string) {
	i := strings.IndexByte(key, '/')
	if i < 0 {
		return key, ""
	}
	return key[:i], key[i+1:]
}

const c16BodyAnn = "c16/body"

// c16Build builds the typed package object for key with the given body, as the
// package parser would return it (TypeMeta set).
func c16Build(key string, body int) client.Object { return c16BuildConv(key, body, false) }

func c16BuildConv(key string, body int, conv bool) client.Object {
	kind, name := c16SplitKey(key)
	ann := map[string]string{c16BodyAnn: fmt.Sprint(body)}
	switch kind {
	case "CRD":
		o := &extv1.CustomResourceDefinition{}
		o.SetGroupVersionKind(extv1.SchemeGroupVersion.WithKind("CustomResourceDefinition"))
		o.SetName(name)
		o.SetAnnotations(ann)
		o.Spec.Group = "example.org"
		o.Spec.Names.Kind = fmt.Sprintf("B%d", body)
		o.Spec.Names.Plural = fmt.Sprintf("b%ds", body)
		o.Spec.Scope = extv1.ClusterScoped
		if conv {
			o.Spec.Conversion = &extv1.CustomResourceConversion{Strategy: extv1.WebhookConverter}
		}
		return o
	case "XRD":
		o := &xv1.CompositeResourceDefinition{}
		o.SetGroupVersionKind(xv1.CompositeResourceDefinitionGroupVersionKind)
		o.SetName(name)
		o.SetAnnotations(ann)
		o.Spec.Group = "example.org"
		o.Spec.Names.Kind = fmt.Sprintf("B%d", body)
		o.Spec.Names.Plural = fmt.Sprintf("b%ds", body)
		return o
	default:
		o := &xv1.Composition{}
		o.SetGroupVersionKind(xv1.CompositionGroupVersionKind)
		o.SetName(name)
		o.SetAnnotations(ann)
		o.Spec.CompositeTypeRef = xv1.TypeReference{APIVersion: "example.org/v1", Kind: fmt.Sprintf("B%d", body)}
		return o
	}
}

func c16KeyOf(gk, name string) string {
	if strings.HasPrefix(gk, "CustomResourceDefinition") {
		return "CRD/" + name
	}
	if strings.HasPrefix(gk, "CompositeResourceDefinition") {
		return "XRD/" + name
	}
	if strings.HasPrefix(gk, "Composition.") || gk == "Composition" {
		return "Composition/" + name
	}
	return gk + "/" + name
}

func c16BodyOf(o metav1.Object) int {
	n := -1
	_, _ = fmt.Sscanf(o.GetAnnotations()[c16BodyAnn], "%d", &n)
	return n
}

const c16TLSSecret = "the-tls-server-secret"

func c16ParentObj(p c16Parent) pkgv1.PackageRevision {
	var pr pkgv1.PackageRevision
	if p.TLS == "" || p.TLS == "noRuntime" {
		c := &pkgv1.ConfigurationRevision{}
		c.SetGroupVersionKind(pkgv1.ConfigurationRevisionGroupVersionKind)
		pr = c
	} else {
		c := &pkgv1.ProviderRevision{}
		c.SetGroupVersionKind(pkgv1.ProviderRevisionGroupVersionKind)
		if p.TLS != "noName" {
			n := c16TLSSecret
			c.Spec.TLSServerSecretName = &n
		}
		pr = c
	}
	_, _, n := c16OwnerIdent(p.UID)
	pr.SetName(n)
	pr.SetUID(c16UID(p.UID))
	if p.Label != "" {
		pr.SetLabels(map[string]string{pkgv1.LabelParentPackage: p.Label})
	}
	var ors []metav1.OwnerReference
	for _, r := range p.Owners {
		av, k, _ := c16OwnerIdent(r.UID)
		ors = append(ors, metav1.OwnerReference{APIVersion: av, Kind: k, Name: r.Name, UID: c16UID(r.UID), Controller: c16Tri(r.Ctrl), BlockOwnerDeletion: c16Tri(r.Block)})
	}
	pr.SetOwnerReferences(ors)
	return pr
}

// c16SetTLS puts the webhook TLS server secret into the state the scenario asks for.
func c16SetTLS(st *Store, state string) {
	st.Remove(corev1.SchemeGroupVersion.WithKind("Secret").GroupKind(), "crossplane-system", c16TLSSecret)
	if state != "present" && state != "empty" {
		return
	}
	s := &corev1.Secret{}
	s.SetName(c16TLSSecret)
	s.SetNamespace("crossplane-system")
	if state == "present" {
		s.Data = map[string][]byte{"tls.crt": []byte("CERT")}
	} else {
		s.Data = map[string][]byte{"tls.crt": {}}
	}
	st.Seed(s)
}

// c16Snapshot is the canonical view of the package-object part of the store.
func c16Snapshot(st *Store) []c16Obj {
	out := []c16Obj{}
	for _, u := range st.All() {
		gk := u.GroupVersionKind().GroupKind().String()
		key := c16KeyOf(gk, u.GetName())
		if !c16IsPkgKey(key) {
			continue
		}
		o := c16Obj{Key: key, Body: c16BodyOf(u), Owners: []c16Ref{}}
		for _, r := range u.GetOwnerReferences() {
			o.Owners = append(o.Owners, c16Ref{UID: c16UIDNum(r.UID), Ctrl: c16TriStr(r.Controller), Block: c16TriStr(r.BlockOwnerDeletion)})
		}
		out = append(out, o)
	}
	sort.Slice(out, func(i, j int) bool { return out[i].Key < out[j].Key })
	return out
}

// ---------------------------------------------------------------- regenerated facts (lean/Xp/Gen/C16.lean)

func c16LeanTri(b *bool) string {
	if b == nil {
		return "none"
	}
	if *b {
		return "(some true)"
	}
	return "(some false)"
}

func c16LeanRef(r metav1.OwnerReference) string {
	return fmt.Sprintf("(%d, %s, %s)", c16UIDNum(r.UID), c16LeanTri(r.Controller), c16LeanTri(r.BlockOwnerDeletion))
}

func c16LeanRefs(rs []metav1.OwnerReference) string {
	xs := make([]string, len(rs))
	for i, r := range rs {
		xs[i] = c16LeanRef(r)
	}
	return "[" + strings.Join(xs, ", ") + "]"
}

func init() {
	RegisterDump("C16", func() string {
		// every owner reference over uids {1,2} x controller in {nil,false,true}
		var univ []metav1.OwnerReference
		for _, u := range []int{1, 2} {
			for _, c := range []string{"nil", "false", "true"} {
				univ = append(univ, metav1.OwnerReference{UID: c16UID(u), Controller: c16Tri(c)})
			}
		}
		// every list of at most two of them
		lists := [][]metav1.OwnerReference{{}}
		for _, a := range univ {
			lists = append(lists, []metav1.OwnerReference{a})
			for _, b := range univ {
				lists = append(lists, []metav1.OwnerReference{a, b})
			}
		}
		var sb strings.Builder
		sb.WriteString("/-- owner reference as (uid, controller, blockOwnerDeletion) -/\nabbrev C16Ref := Nat × Option Bool × Option Bool\n\n")
		sb.WriteString("/-- `v1.PackageRevisionActive` / `v1.PackageRevisionInactive`: the two values of spec.desiredState the reconciler compares with -/\ndef c16DesiredActive : String := " + leanStr(string(pkgv1.PackageRevisionActive)) + "\ndef c16DesiredInactive : String := " + leanStr(string(pkgv1.PackageRevisionInactive)) + "\n\n")
		// the flags meta.AsController / meta.AsOwner put on a reference
		parent := c16ParentObj(c16Parent{UID: 7})
		tr := xpmeta.TypedReferenceTo(parent, parent.GetObjectKind().GroupVersionKind())
		sb.WriteString("/-- `meta.AsController(TypedReferenceTo(parent))` for a parent with uid 7 -/\ndef c16AsController : C16Ref := " + c16LeanRef(xpmeta.AsController(tr)) + "\n")
		sb.WriteString("/-- `meta.AsOwner(TypedReferenceTo(parent))` for a parent with uid 7 -/\ndef c16AsOwner : C16Ref := " + c16LeanRef(xpmeta.AsOwner(tr)) + "\n\n")
		// meta.AddOwnerReference
		sb.WriteString("/-- (references, new reference, references after `meta.AddOwnerReference`), run on the real function -/\ndef c16AddOwnerTable : List (List C16Ref × C16Ref × List C16Ref) := [\n")
		first := true
		for _, l := range lists {
			for _, r := range univ {
				o := &xv1.Composition{}
				o.SetOwnerReferences(append([]metav1.OwnerReference{}, l...))
				xpmeta.AddOwnerReference(o, r)
				if !first {
					sb.WriteString(",\n")
				}
				first = false
				sb.WriteString("  (" + c16LeanRefs(l) + ", " + c16LeanRef(r) + ", " + c16LeanRefs(o.GetOwnerReferences()) + ")")
			}
		}
		sb.WriteString("]\n\n")
		// meta.AddControllerReference (none = error) and metav1.GetControllerOf
		sb.WriteString("/-- (references, new controller reference, result of `meta.AddControllerReference`; none = error) -/\ndef c16AddControllerTable : List (List C16Ref × C16Ref × Option (List C16Ref)) := [\n")
		first = true
		for _, l := range lists {
			for _, u := range []int{1, 2} {
				t := true
				r := metav1.OwnerReference{UID: c16UID(u), Controller: &t, BlockOwnerDeletion: &t}
				o := &xv1.Composition{}
				o.SetOwnerReferences(append([]metav1.OwnerReference{}, l...))
				res := "none"
				if err := xpmeta.AddControllerReference(o, r); err == nil {
					res = "(some " + c16LeanRefs(o.GetOwnerReferences()) + ")"
				}
				if !first {
					sb.WriteString(",\n")
				}
				first = false
				sb.WriteString("  (" + c16LeanRefs(l) + ", " + c16LeanRef(r) + ", " + res + ")")
			}
		}
		sb.WriteString("]\n\n")
		// GetPackageOwnerReference: which owner reference of a revision is its package
		sb.WriteString("/-- (label, owner names, index GetPackageOwnerReference picks; none = not found) -/\ndef c16PkgRefTable : List (String × List String × Option Nat) := [\n")
		first = true
		names := []string{"", "p", "q", "pq"} // "p" is a prefix of "pq"
		var nameLists [][]string
		nameLists = append(nameLists, []string{})
		for _, a := range names {
			nameLists = append(nameLists, []string{a})
			for _, b := range names {
				nameLists = append(nameLists, []string{a, b})
			}
		}
		for _, label := range names {
			for _, nl := range nameLists {
				pr := &pkgv1.ConfigurationRevision{}
				if label != "" {
					pr.SetLabels(map[string]string{pkgv1.LabelParentPackage: label})
				}
				var ors []metav1.OwnerReference
				for i, n := range nl {
					ors = append(ors, metav1.OwnerReference{Name: n, UID: c16UID(i)})
				}
				pr.SetOwnerReferences(ors)
				res := "none"
				if got, ok := revision.GetPackageOwnerReference(pr); ok {
					res = fmt.Sprintf("(some %d)", c16UIDNum(got.UID))
				}
				if !first {
					sb.WriteString(",\n")
				}
				first = false
				sb.WriteString("  (" + leanStr(label) + ", " + leanStrList(nl) + ", " + res + ")")
			}
		}
		sb.WriteString("]\n")
		return sb.String()
	})
}

//go:build verif

package main

// C09 world: ONE APIFilteredSecretPublisher (Setup builds one per XRD) and ONE
// APIConnectionPropagator (one per claim kind) serve a SEQUENCE of different owners over a store of
// many secrets. Every API call of an operation can fail with an error of a given class (or lose the
// answer of a write that took effect); identities vary in every component (same secret name in
// another namespace, names extending one another, an owner re-created under the same name with a new
// UID, secret types next to the connection type). The Lean model (Model/C09World.lean) is per call;
// state carried from one call to the next by the real objects shows up as a disagreement and in the
// per-call monitors, which are evaluated on the real secrets only.

import (
	"context"
	"errors"
	"fmt"
	"sort"
	"strings"

	corev1 "k8s.io/api/core/v1"
	kerrors "k8s.io/apimachinery/pkg/api/errors"
	metav1 "k8s.io/apimachinery/pkg/apis/meta/v1"
	"k8s.io/apimachinery/pkg/apis/meta/v1/unstructured"
	"k8s.io/apimachinery/pkg/runtime"
	"k8s.io/apimachinery/pkg/runtime/schema"
	"k8s.io/apimachinery/pkg/types"
	"sigs.k8s.io/controller-runtime/pkg/client"

	xpv1 "github.com/crossplane/crossplane-runtime/apis/common/v1"
	"github.com/crossplane/crossplane-runtime/pkg/reconciler/managed"
	"github.com/crossplane/crossplane-runtime/pkg/resource"
	uclaim "github.com/crossplane/crossplane-runtime/pkg/resource/unstructured/claim"
	ucomposite "github.com/crossplane/crossplane-runtime/pkg/resource/unstructured/composite"

	"github.com/crossplane/crossplane/internal/controller/apiextensions/claim"
	"github.com/crossplane/crossplane/internal/controller/apiextensions/composite"
)

type c09Key struct {
	NS   string `json:"ns"`
	Name string `json:"name"`
}

func (k c09Key) String() string { return k.NS + "/" + k.Name }

// c09ASecret is a secret with its absolute identity: controller UID ("" = none), the UIDs of
// its plain (non-controller) owner references, its type string.
type c09ASecret struct {
	NS    string   `json:"ns"`
	Name  string   `json:"name"`
	Type  string   `json:"type"`
	Ctrl  string   `json:"ctrl"`
	Plain []string `json:"plain"`
	Data  []c09KV  `json:"data"`
}

func (s c09ASecret) key() c09Key { return c09Key{s.NS, s.Name} }

type c09Fault struct {
	Idx  int    `json:"idx"`  // index of the failing call among the operation's API calls
	Cls  string `json:"cls"`  // error class
	Lost bool   `json:"lost"` // (writes) the request took effect, the answer is the error
}

type c09WOp struct {
	Kind    string    `json:"kind"` // pub | prop
	Me      string    `json:"me"`   // UID of the XR (pub) / of the claim (prop)
	Ref     *c09Key   `json:"ref"`  // pub: the XR's writeConnectionSecretToRef
	Details []c09KV   `json:"details"`
	CNS     string    `json:"cns"`  // prop: the claim's namespace
	CRef    *string   `json:"cref"` // prop: the claim's writeConnectionSecretToRef name
	XR      string    `json:"xr"`   // prop: UID of the bound XR
	XRef    *c09Key   `json:"xref"` // prop: the XR's writeConnectionSecretToRef
	Fault   *c09Fault `json:"fault"`
	Swap    bool      `json:"swap"`
	// prop: status.connectionDetails.lastPublishedTime of the claim / of the XR (0 = unset)
	CTime int `json:"ctime,omitempty"`
	XTime int `json:"xtime,omitempty"`
}

type c09WorldScn struct {
	Op      string       `json:"op"` // "world"
	Filter  []string     `json:"filter"`
	Secrets []c09ASecret `json:"secrets"`
	Ops     []c09WOp     `json:"ops"`
}

type c09CallObs struct {
	Published bool `json:"published"`
	Err       bool `json:"err"`
	Writes    int  `json:"writes"`
}

type c09WorldObs struct {
	Calls   []c09CallObs `json:"calls"`
	Secrets []c09ASecret `json:"secrets"`
}

const c09ConnType = string(resource.SecretTypeConnection)

var c09ErrClasses = []string{"notFound", "conflict", "alreadyExists", "invalid", "forbidden", "temporary", "deadline"}

type c09TransportErr struct{}

func (c09TransportErr) Error() string   { return "dial tcp 10.96.0.1:443: i/o timeout" }
func (c09TransportErr) Temporary() bool { return true }
func (c09TransportErr) Timeout() bool   { return true }

func c09ClassErr(cls, name string) error {
	gr := schema.GroupResource{Resource: "secrets"}
	switch cls {
	case "notFound":
		return kerrors.NewNotFound(gr, name)
	case "conflict":
		return kerrors.NewConflict(gr, name, errors.New("the object has been modified; please apply your changes to the latest version and try again"))
	case "alreadyExists":
		return kerrors.NewAlreadyExists(gr, name)
	case "invalid":
		return kerrors.NewInvalid(schema.GroupKind{Kind: "Secret"}, name, nil)
	case "forbidden":
		return kerrors.NewForbidden(gr, name, errors.New("RBAC: access denied"))
	case "temporary":
		return c09TransportErr{}
	case "deadline":
		return context.DeadlineExceeded
	}
	return errors.New("unclassified error")
}

// c09Ident derives the kind and name of an owner from its UID "<k>:<name>:<generation>": two
// UIDs can share kind and name (an owner deleted and re-created).
func c09Ident(uid string) (kind, name string) {
	p := strings.Split(uid, ":")
	if len(p) < 2 {
		return "Else", "e"
	}
	switch p[0] {
	case "x":
		return xwXRGVK.Kind, p[1]
	case "c":
		return "Thing", p[1]
	}
	return "Else", p[1]
}

func c09OwnerRef(uid string, ctrl bool) metav1.OwnerReference {
	kind, name := c09Ident(uid)
	o := metav1.OwnerReference{APIVersion: xwGroup + "/v1", Kind: kind, Name: name, UID: types.UID(uid)}
	if ctrl {
		tr := true
		o.Controller, o.BlockOwnerDeletion = &tr, &tr
	}
	return o
}

func c09SeedA(st *Store, s c09ASecret) {
	sec := &corev1.Secret{ObjectMeta: metav1.ObjectMeta{Namespace: s.NS, Name: s.Name}, Data: c09Map(s.Data), Type: corev1.SecretType(s.Type)}
	if s.Ctrl != "" {
		sec.OwnerReferences = append(sec.OwnerReferences, c09OwnerRef(s.Ctrl, true))
	}
	for _, u := range s.Plain {
		sec.OwnerReferences = append(sec.OwnerReferences, c09OwnerRef(u, false))
	}
	st.Seed(sec)
}

// c09WorldView is the canonical view of every stored secret, sorted by namespace and name.
func c09WorldView(st *Store) []c09ASecret {
	out := []c09ASecret{}
	for _, u := range st.OfKind(schema.GroupKind{Kind: "Secret"}) {
		sec := &corev1.Secret{}
		_ = runtime.DefaultUnstructuredConverter.FromUnstructured(u.Object, sec)
		v := c09ASecret{NS: sec.Namespace, Name: sec.Name, Type: string(sec.Type), Plain: []string{}, Data: c09KVs(sec.Data)}
		for _, o := range sec.OwnerReferences {
			if o.Controller != nil && *o.Controller {
				if v.Ctrl == "" {
					v.Ctrl = string(o.UID)
				}
				continue
			}
			v.Plain = append(v.Plain, string(o.UID))
		}
		sort.Strings(v.Plain)
		out = append(out, v)
	}
	sort.Slice(out, func(i, j int) bool {
		if out[i].NS != out[j].NS {
			return out[i].NS < out[j].NS
		}
		return out[i].Name < out[j].Name
	})
	return out
}

func c09ViewMap(v []c09ASecret) map[c09Key]c09ASecret {
	m := map[c09Key]c09ASecret{}
	for _, s := range v {
		m[s.key()] = s
	}
	return m
}

// c09MayControl is resource.ConnectionSecretMustBeControllableBy restated on the view.
func c09MayControl(me string, s c09ASecret) bool {
	if s.Ctrl != "" {
		return s.Ctrl == me
	}
	return s.Type == c09ConnType
}

// c09Faulty is the client of the long-lived objects: it numbers the API calls of the current
// operation and lets call number fault.Idx fail with the class error (a write whose answer is
// lost is performed first). It also counts the write requests addressed to the operation's target.
type c09Faulty struct {
	*Store
	// off: the publisher is not at work (flows: the composers share this client); calls are not
	// numbered, and the Get of the secret fetchKey fails with class fetchCls
	off      bool
	fetchKey *c09Key
	fetchCls string

	fault     *c09Fault
	n         int
	hit       bool // the failing call was reached and the request did not take effect
	target    *c09Key
	writes    int // write requests addressed to the target
	allWrites int // write requests of any kind
}

func (c *c09Faulty) arm(f *c09Fault, target *c09Key) {
	c.fault, c.n, c.hit, c.target, c.writes, c.allWrites = f, 0, false, target, 0, 0
}

func (c *c09Faulty) failing() bool {
	k := c.n
	c.n++
	return c.fault != nil && c.fault.Idx == k
}

func (c *c09Faulty) Get(ctx context.Context, key client.ObjectKey, obj client.Object, opts ...client.GetOption) error {
	if c.off {
		if _, ok := obj.(*corev1.Secret); ok && c.fetchKey != nil && key.Namespace == c.fetchKey.NS && key.Name == c.fetchKey.Name {
			return c09ClassErr(c.fetchCls, key.Name)
		}
		return c.Store.Get(ctx, key, obj, opts...)
	}
	if c.failing() {
		c.hit = true
		return c09ClassErr(c.fault.Cls, key.Name)
	}
	return c.Store.Get(ctx, key, obj, opts...)
}

func (c *c09Faulty) write(obj client.Object, do func() error) error {
	if c.off {
		if _, ok := obj.(*corev1.Secret); ok {
			c.allWrites++ // nobody but the publisher has any business writing secrets
		}
		return do()
	}
	c.allWrites++
	if c.target != nil && obj.GetNamespace() == c.target.NS && obj.GetName() == c.target.Name {
		c.writes++
	}
	if c.failing() {
		if c.fault.Lost {
			_ = do()
		} else {
			c.hit = true
		}
		return c09ClassErr(c.fault.Cls, obj.GetName())
	}
	return do()
}

func (c *c09Faulty) Create(ctx context.Context, obj client.Object, opts ...client.CreateOption) error {
	return c.write(obj, func() error { return c.Store.Create(ctx, obj, opts...) })
}

func (c *c09Faulty) Update(ctx context.Context, obj client.Object, opts ...client.UpdateOption) error {
	return c.write(obj, func() error { return c.Store.Update(ctx, obj, opts...) })
}

func (c *c09Faulty) Patch(ctx context.Context, obj client.Object, p client.Patch, opts ...client.PatchOption) error {
	return c.write(obj, func() error { return c.Store.Patch(ctx, obj, p, opts...) })
}

func (c *c09Faulty) Delete(ctx context.Context, obj client.Object, opts ...client.DeleteOption) error {
	return c.write(obj, func() error { return c.Store.Delete(ctx, obj, opts...) })
}

func c09Allowed(filter []string, k string) bool {
	if len(filter) == 0 {
		return true
	}
	for _, f := range filter {
		if f == k {
			return true
		}
	}
	return false
}

func c09SameSecret(a, b c09ASecret) bool { return mustJSON(a) == mustJSON(b) }

func c09SameData(a, b []c09KV) bool { return mustJSON(c09KVs(c09Map(a))) == mustJSON(c09KVs(c09Map(b))) }

// c09TargetApplied: did a write request addressed to k take effect on the store?
func c09TargetApplied(st *Store, k c09Key) bool {
	for _, c := range st.Log {
		if c.IsWrite() && c.GK == "Secret" && c.NS == k.NS && c.Name == k.Name && !c.DryRun && c.Applied {
			return true
		}
	}
	return false
}

// c09FrameMons: no secret but the target differs; a target that differs was one the writer may
// control and belongs to the writer afterwards.
func c09FrameMons(mon func(sig, why string), me string, target *c09Key, before, after map[c09Key]c09ASecret, except *c09Key, applied bool) (changed bool) {
	keys := map[c09Key]bool{}
	for k := range before {
		keys[k] = true
	}
	for k := range after {
		keys[k] = true
	}
	for k := range keys {
		b, bok := before[k]
		a, aok := after[k]
		same := bok == aok && (!bok || c09SameSecret(b, a))
		if target != nil && k == *target {
			changed = !same
			continue
		}
		if except != nil && k == *except {
			continue
		}
		if !same {
			mon("C09:wrote-other-secret", fmt.Sprintf("secret %s changed although the operation of %s addresses %v", k, me, target))
		}
	}
	if target == nil {
		return false
	}
	b, bok := before[*target]
	a, aok := after[*target]
	if (changed || applied) && bok && !c09MayControl(me, b) {
		mon("C09:wrote-foreign-secret", "write addressed to a secret controlled by someone else / uncontrolled non-connection secret")
	}
	if changed && aok && (a.Ctrl != me || a.Type != c09ConnType) {
		mon("C09:written-secret-not-owners", fmt.Sprintf("the written secret %s is controlled by %q (type %q), not by its writer %q", *target, a.Ctrl, a.Type, me))
	}
	return changed
}

func c09WorldRun(s c09WorldScn) (c09WorldObs, []Mon) {
	sch := runtime.NewScheme()
	_ = corev1.AddToScheme(sch)
	st := NewStore(sch)
	for _, sec := range s.Secrets {
		c09SeedA(st, sec)
	}
	obs := c09WorldObs{Calls: []c09CallObs{}}
	var mons []Mon
	cl := &c09Faulty{Store: st}
	// the long-lived objects, built once as Setup does
	pub := composite.NewAPIFilteredSecretPublisher(cl, s.Filter)
	prop := claim.NewAPIConnectionPropagator(cl)
	gk := schema.GroupKind{Kind: "Secret"}
	for i, op := range s.Ops {
		mon := func(sig, why string) {
			mons = append(mons, Mon{Sig: sig, Why: fmt.Sprintf("op %d (%s by %s): %s", i, op.Kind, op.Me, why)})
		}
		st.Log = nil
		st.Before = nil
		before := c09ViewMap(c09WorldView(st))
		var p bool
		var err error
		switch op.Kind {
		case "pub":
			_, name := c09Ident(op.Me)
			xr := ucomposite.New(ucomposite.WithGroupVersionKind(xwXRGVK))
			xr.SetName(name)
			xr.SetUID(types.UID(op.Me))
			if op.Ref != nil {
				xr.SetWriteConnectionSecretToReference(&xpv1.SecretReference{Namespace: op.Ref.NS, Name: op.Ref.Name})
			}
			cl.arm(op.Fault, op.Ref)
			if pn := Guard(func() { p, err = pub.PublishConnection(context.Background(), xr, managed.ConnectionDetails(c09Map(op.Details))) }); pn != "" {
				mon("C09:panic", pn)
			}
			after := c09ViewMap(c09WorldView(st))
			obs.Calls = append(obs.Calls, c09CallObs{Published: p, Err: err != nil, Writes: cl.writes})
			// --- direct monitors (on the real secrets only) ---
			if op.Ref == nil {
				if cl.allWrites > 0 || mustJSON(c09WorldView(st)) != mustJSON(c09sorted(before)) {
					mon("C09:published-unasked", "a secret was written although the XR has no writeConnectionSecretToRef")
				}
				c09FrameMons(mon, op.Me, nil, before, after, nil, false)
				continue
			}
			changed := c09FrameMons(mon, op.Me, op.Ref, before, after, nil, c09TargetApplied(st, *op.Ref))
			b, bok := before[*op.Ref]
			a, aok := after[*op.Ref]
			det := c09Map(op.Details)
			old := c09Map(b.Data)
			if changed && aok {
				for _, kv := range a.Data {
					if ov, was := old[kv.K]; was && string(ov) == kv.V {
						continue
					}
					dv, produced := det[kv.K]
					if !(produced && c09Allowed(s.Filter, kv.K) && string(dv) == kv.V) {
						mon("C09:key-not-allowed", fmt.Sprintf("secret key %q=%q is neither what was stored before nor an allowed key produced by the composition in this call", kv.K, kv.V))
					}
				}
			}
			need := false
			for k, v := range det {
				if c09Allowed(s.Filter, k) {
					if sv, ok := old[k]; !ok || string(sv) != string(v) {
						need = true
					}
				}
			}
			if op.Fault == nil && bok && c09MayControl(op.Me, b) && !need && (cl.writes > 0 || p) {
				mon("C09:rewrote-identical", fmt.Sprintf("all published keys already stored with equal values, yet writes=%d published=%v", cl.writes, p))
			}
			if p && err == nil {
				cur := c09Map(a.Data)
				for k, v := range det {
					if c09Allowed(s.Filter, k) {
						if sv, ok := cur[k]; !aok || !ok || string(sv) != string(v) {
							mon("C09:published-not-stored", fmt.Sprintf("published reported, but key %q of the secret does not hold the published value", k))
						}
					}
				}
			}
			if cl.hit && p && !(op.Fault.Idx == 0 && op.Fault.Cls == "notFound" && !bok) {
				mon("C09:published-despite-failed-call", fmt.Sprintf("call %d failed with %s, yet the operation reports success", op.Fault.Idx, op.Fault.Cls))
			}
		case "prop":
			_, xname := c09Ident(op.XR)
			xr := ucomposite.New(ucomposite.WithGroupVersionKind(xwXRGVK))
			xr.SetName(xname)
			xr.SetUID(types.UID(op.XR))
			if op.XRef != nil {
				xr.SetWriteConnectionSecretToReference(&xpv1.SecretReference{Namespace: op.XRef.NS, Name: op.XRef.Name})
			}
			_, cname := c09Ident(op.Me)
			cm := uclaim.New(uclaim.WithGroupVersionKind(schema.GroupVersionKind{Group: xwGroup, Version: "v1", Kind: "Thing"}))
			cm.SetName(cname)
			cm.SetNamespace(op.CNS)
			cm.SetUID(types.UID(op.Me))
			var target *c09Key
			if op.CRef != nil {
				cm.SetWriteConnectionSecretToReference(&xpv1.LocalSecretReference{Name: *op.CRef})
				target = &c09Key{op.CNS, *op.CRef}
			}
			c09SetTimes(cm, xr, op.CTime, op.XTime)
			swapped := false
			if op.Swap && target != nil && op.XRef != nil {
				// the concurrent writer: when the write to the claim's secret is attempted it has just
				// replaced the XR's secret by one it controls and touched the claim's secret
				st.Before = func(c CallInfo) {
					if swapped || !c.IsWrite() || c.GK != "Secret" || c.NS != target.NS || c.Name != target.Name {
						return
					}
					swapped = true
					tp := c09ConnType
					if old, ok := before[*op.XRef]; ok {
						tp = old.Type
					}
					st.Remove(gk, op.XRef.NS, op.XRef.Name)
					c09SeedA(st, c09ASecret{NS: op.XRef.NS, Name: op.XRef.Name, Type: tp, Ctrl: "intruder-uid", Data: []c09KV{{K: c09SwapKey, V: c09SwapVal}}})
					st.Mutate(gk, target.NS, target.Name, func(u *unstructured.Unstructured) {
						l := u.GetLabels()
						if l == nil {
							l = map[string]string{}
						}
						l["touched-by"] = fmt.Sprintf("someone-else-%d", i) // a change every time
						u.SetLabels(l)
					})
				}
			}
			cl.arm(op.Fault, target)
			if pn := Guard(func() { p, err = prop.PropagateConnection(context.Background(), cm, xr) }); pn != "" {
				mon("C09:panic", pn)
			}
			st.Before = nil
			after := c09ViewMap(c09WorldView(st))
			obs.Calls = append(obs.Calls, c09CallObs{Published: p, Err: err != nil, Writes: cl.writes})
			// --- direct monitors ---
			if target == nil || op.XRef == nil {
				if cl.allWrites > 0 || mustJSON(c09WorldView(st)) != mustJSON(c09sorted(before)) {
					mon("C09:published-unasked", "a secret was written although the claim or its XR has no writeConnectionSecretToRef")
				}
				c09FrameMons(mon, op.Me, nil, before, after, nil, false)
				continue
			}
			var except *c09Key
			if swapped {
				except = op.XRef
			}
			applied := c09TargetApplied(st, *target)
			changed := c09FrameMons(mon, op.Me, target, before, after, except, applied)
			sb, sok := before[*op.XRef]
			srcOK := sok && sb.Ctrl == op.XR
			b, bok := before[*target]
			a, aok := after[*target]
			if (changed || applied) && !srcOK {
				mon("C09:propagated-unowned-source", "claim secret written although the source secret is not controlled by the bound XR")
			}
			if (changed || (p && err == nil)) && !swapped && !(aok && srcOK && c09SameData(a.Data, sb.Data)) {
				mon("C09:copy-not-exact", "claim secret data differs from the XR secret data after a propagation that wrote / reported success")
			}
			if err == nil && !swapped && srcOK && !(aok && c09SameData(a.Data, sb.Data)) {
				mon("C09:claim-secret-stale", fmt.Sprintf("PropagateConnection returned (%v, nil) but the claim's secret (present=%v) is not a copy of its XR's secret (claim lastPublishedTime=%d, XR lastPublishedTime=%d)", p, aok, op.CTime, op.XTime))
			}
			if swapped && aok {
				for _, kv := range a.Data {
					if kv.K == c09SwapKey && kv.V == c09SwapVal {
						mon("C09:foreign-source-copied", "the claim's secret holds data of a secret that is not controlled by the bound XR (it replaced the XR's secret while the claim's secret was being written)")
					}
				}
			}
			if op.Fault == nil && !op.Swap && srcOK && bok && c09MayControl(op.Me, b) && c09SameData(b.Data, sb.Data) && (cl.writes > 0 || p) {
				mon("C09:rewrote-identical", fmt.Sprintf("the claim's secret already holds the XR's data, yet writes=%d propagated=%v", cl.writes, p))
			}
			if cl.hit && p && !(op.Fault.Idx == 1 && op.Fault.Cls == "notFound" && !bok) {
				mon("C09:published-despite-failed-call", fmt.Sprintf("call %d failed with %s, yet the operation reports success", op.Fault.Idx, op.Fault.Cls))
			}
		}
	}
	obs.Secrets = c09WorldView(st)
	return obs, mons
}

func c09sorted(m map[c09Key]c09ASecret) []c09ASecret {
	out := []c09ASecret{}
	for _, s := range m {
		out = append(out, s)
	}
	sort.Slice(out, func(i, j int) bool {
		if out[i].NS != out[j].NS {
			return out[i].NS < out[j].NS
		}
		return out[i].Name < out[j].Name
	})
	return out
}

// ---- generator ----

var (
	c09XRs      = []string{"x:xr:1", "x:xr:2", "x:xr-2:1"}     // xr:2 = xr re-created (same name, new UID); xr-2 extends the name
	c09Claims   = []string{"c:claim:1", "c:claim:2", "c:xr:1"} // c:xr:1 = a claim called like the XR
	c09Others   = []string{"e:else:1", "x:xr:0"}               // a stranger, and a former incarnation of xr
	c09NSs      = []string{"ns", "ns2", "xrns"}
	c09Names    = []string{"conn", "conn-2", "co"}
	c09Types    = []string{c09ConnType, c09ConnType, "Opaque", "", "connection.crossplane.io/v1", "kubernetes.io/tls"}
	c09DataKeys = []string{"user", "pass", "host", "username", "User", "stale"}
)

func c09GenData(r *Rng, tag string, keys []string, p int) []c09KV {
	out := []c09KV{}
	for _, k := range keys {
		if r.Chance(p, 4) {
			v := Pick(r, []string{"1", "2", ""})
			if tag != "" && r.Bool() {
				v = tag + "-" + k
			}
			out = append(out, c09KV{K: k, V: v})
		}
	}
	return out
}

func c09GenFilter(r *Rng) []string {
	f := []string{}
	if r.Chance(1, 3) {
		return f
	}
	// a list that is NOT empty but holds only blank entries (connectionSecretKeys: [""]): it
	// allows nothing - "all keys" is for an XRD that lists none
	if r.Chance(1, 7) {
		return Pick(r, [][]string{{""}, {"", ""}, {"", "", ""}})
	}
	for _, k := range []string{"user", "pass", "host", "username"} {
		if r.Chance(3, 5) {
			f = append(f, k)
		}
	}
	if len(f) > 0 && r.Chance(1, 4) {
		f = append(f, f[0]) // a duplicate entry
	}
	if r.Chance(1, 6) {
		f = append(f, "unused")
	}
	// blank entries next to real keys (once or twice): they allow nothing more
	if r.Chance(1, 5) {
		f = append(f, "")
		if r.Bool() {
			f = append(f, "")
		}
	}
	// not in name order
	p := r.Perm(len(f))
	g := make([]string, len(f))
	for i, j := range p {
		g[i] = f[j]
	}
	return g
}

func c09GenFault(r *Rng, maxIdx int) *c09Fault {
	return &c09Fault{Idx: r.Range(0, maxIdx), Cls: Pick(r, c09ErrClasses), Lost: r.Chance(1, 4)}
}

func c09WorldGen(r *Rng) c09WorldScn {
	s := c09WorldScn{Op: "world", Filter: c09GenFilter(r), Secrets: []c09ASecret{}, Ops: []c09WOp{}}
	// a few keys the sequence keeps coming back to
	var hot []c09Key
	for len(hot) < 3 {
		k := c09Key{Pick(r, c09NSs), Pick(r, c09Names)}
		hot = append(hot, k)
	}
	pickKey := func() c09Key {
		if r.Chance(3, 4) {
			return Pick(r, hot)
		}
		return c09Key{Pick(r, c09NSs), Pick(r, c09Names)}
	}
	all := append(append(append([]string{}, c09XRs...), c09Claims...), c09Others...)
	seen := map[c09Key]bool{}
	for i, n := 0, r.Range(0, 4); i < n; i++ {
		k := pickKey()
		if seen[k] {
			continue
		}
		seen[k] = true
		sec := c09ASecret{NS: k.NS, Name: k.Name, Type: Pick(r, c09Types), Plain: []string{}, Data: c09GenData(r, fmt.Sprintf("pre%d", i), c09DataKeys, 2)}
		if r.Chance(2, 3) {
			sec.Ctrl = Pick(r, all)
		}
		if r.Chance(1, 4) {
			sec.Plain = append(sec.Plain, Pick(r, all))
			if sec.Plain[0] == sec.Ctrl {
				sec.Plain = []string{}
			}
		}
		s.Secrets = append(s.Secrets, sec)
	}
	var last *c09WOp
	for i, n := 0, r.Range(3, 8); i < n; i++ {
		var op c09WOp
		if last != nil && r.Chance(1, 5) {
			// the same operation again (identical data must not be rewritten)
			op = *last
			op.Fault, op.Swap = nil, false
		} else if r.Chance(3, 5) {
			op = c09WOp{Kind: "pub", Me: Pick(r, c09XRs), Details: c09GenData(r, fmt.Sprintf("o%d", i), c09DataKeys[:5], 3)}
			if !r.Chance(1, 8) {
				k := pickKey()
				op.Ref = &k
			}
		} else {
			op = c09WOp{Kind: "prop", Me: Pick(r, c09Claims), CNS: Pick(r, c09NSs[:2]), XR: Pick(r, c09XRs), Details: []c09KV{}}
			if r.Bool() {
				op.CTime, op.XTime = r.Intn(4), r.Intn(4)
			}
			if !r.Chance(1, 8) {
				n := Pick(r, c09Names)
				op.CRef = &n
			}
			if !r.Chance(1, 8) {
				k := pickKey()
				op.XRef = &k
			}
			// mostly: the claim is bound to an XR that has published before (or whose secret is seeded)
			var cands [][2]any
			for _, q := range s.Ops {
				if q.Kind == "pub" && q.Ref != nil {
					cands = append(cands, [2]any{q.Me, *q.Ref})
				}
			}
			for _, sec := range s.Secrets {
				if strings.HasPrefix(sec.Ctrl, "x:") {
					cands = append(cands, [2]any{sec.Ctrl, sec.key()})
				}
			}
			if len(cands) > 0 && r.Chance(3, 4) {
				c := Pick(r, cands)
				k := c[1].(c09Key)
				op.XR, op.XRef = c[0].(string), &k
				if r.Chance(1, 8) {
					op.XR = Pick(r, c09XRs) // ... or to another XR that names the same secret
				}
			}
		}
		if r.Chance(1, 3) {
			mx := 1
			if op.Kind == "prop" {
				mx = 2
			}
			op.Fault = c09GenFault(r, mx)
		} else if op.Kind == "prop" && r.Chance(1, 5) {
			op.Swap = true
		}
		s.Ops = append(s.Ops, op)
		last = &s.Ops[len(s.Ops)-1]
	}
	return s
}

func c09WorldCls(s c09WorldScn, o c09WorldObs) string {
	pubs, props, faults, ok := 0, 0, 0, 0
	owners := map[string]bool{}
	for i, op := range s.Ops {
		if op.Kind == "pub" {
			pubs++
		} else {
			props++
		}
		if op.Fault != nil {
			faults++
		}
		owners[op.Me] = true
		if i < len(o.Calls) && o.Calls[i].Published {
			ok++
		}
	}
	b := func(n int) string {
		if n > 2 {
			return "3+"
		}
		return fmt.Sprint(n)
	}
	return fmt.Sprintf("world/owners=%s/pub=%s/prop=%s/faults=%s/ok=%s/filter=%s", b(len(owners)), b(pubs), b(props), b(faults), b(ok), b(len(s.Filter)))
}

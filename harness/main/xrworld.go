//go:build verif

package main

// xrworld: one XR, its composed resources and a scripted function pipeline or
// named P&T templates, reconciled by the REAL composite.Reconciler with the REAL
// composers over simstore, round by round, under fault plans. Shared by the
// C01/C03 (and later C02/C04/C09) drivers.

import (
	"context"
	"encoding/json"
	"errors"
	"fmt"
	"sort"
	"strings"

	"google.golang.org/protobuf/types/known/structpb"
	corev1 "k8s.io/api/core/v1"
	kerrors "k8s.io/apimachinery/pkg/api/errors"
	kmeta "k8s.io/apimachinery/pkg/api/meta"
	metav1 "k8s.io/apimachinery/pkg/apis/meta/v1"
	"k8s.io/apimachinery/pkg/apis/meta/v1/unstructured"
	"k8s.io/apimachinery/pkg/runtime"
	"k8s.io/apimachinery/pkg/runtime/schema"
	"k8s.io/apimachinery/pkg/types"
	"sigs.k8s.io/controller-runtime/pkg/client"
	"sigs.k8s.io/controller-runtime/pkg/client/apiutil"
	"sigs.k8s.io/controller-runtime/pkg/reconcile"

	"github.com/crossplane/crossplane-runtime/pkg/resource"
	ucomposite "github.com/crossplane/crossplane-runtime/pkg/resource/unstructured/composite"

	fnv1 "github.com/crossplane/crossplane/apis/apiextensions/fn/proto/v1"
	v1 "github.com/crossplane/crossplane/apis/apiextensions/v1"
	"github.com/crossplane/crossplane/internal/controller/apiextensions/composite"
	"github.com/crossplane/crossplane/internal/names"
)

const (
	xwInvalidContent = 9 // spec.content value the simulated API server rejects as invalid
	xwGroup          = "example.org"
	// a second API group that serves a kind with the SAME Kind name as xwGroup's "KA": the
	// model kind "KA2" is Kind "KA" of this group (sorts before xwGroup, like "KA2x.." < "KAx..")
	xwGroup2     = "aaa.example.org"
	xwXRName     = "xr"
	xwForeignUID = "foreign-uid"
	xwAnnot      = "crossplane.io/composition-resource-name"
)

var (
	xwXRGVK = schema.GroupVersionKind{Group: xwGroup, Version: "v1", Kind: "XThing"}
	xwKinds = []string{"KA", "KB", "KA2"}
)

// xwObj is the abstract view of a composed-kind object.
type xwObj struct {
	Kind     string `json:"kind"`
	Name     string `json:"name"`
	Annot    string `json:"annot"`    // composition-resource-name annotation
	Ctrl     string `json:"ctrl"`     // "xr" | "other" | "none"
	Fin      bool   `json:"fin"`      // carries a (provider) finalizer
	Deleting bool   `json:"deleting"` // deletionTimestamp set
	Content  int    `json:"content"`  // spec.content
	SSA      bool   `json:"ssa"`      // managed by this XR's server-side-apply field manager
}

type xwRef struct {
	Kind string `json:"kind"`
	Name string `json:"name"`
}

type xwDesired struct {
	RName   string `json:"rname"`
	Kind    string `json:"kind"`
	Content int    `json:"content"`
	Ready   bool   `json:"ready"`
}

type xwFault struct {
	K int    `json:"k"`
	O string `json:"o"` // fail | conflict | crashBefore | crashAfter
}

type xwRound struct {
	// Ver is the API version every desired resource is emitted with in this round ("" = v1).
	// The kind of a resource name is fixed, its version may change between reconciles.
	Ver     string      `json:"ver,omitempty"`
	Desired []xwDesired `json:"desired"`
	FnErr   string      `json:"fnErr"` // "" | "error" | "fatal" (pipeline failure, C03)
	Fault   *xwFault    `json:"fault"`
	// Miss: composed resources that exist but are missing from the informer cache during this
	// reconcile: the CACHED client answers NotFound for them, the uncached client and all writes
	// see them (absent = none).
	Miss []xwRef `json:"miss,omitempty"`
	// MissSel (generator only, not part of the scenario): selectors from which Miss is picked
	// when the round starts, among the objects that exist then (generated names are random).
	MissSel []int `json:"-"`
	// Hints: nondeterministic choices observed on the real run and told to the model.
	Hints *xwHints `json:"hints"`
}

// xwHints carries Go map-iteration orders and generated names of one round.
type xwHints struct {
	Gen     [][2]string `json:"gen"`     // (rname, generated name) in generation order
	GC      []string    `json:"gc"`      // rnames in garbage-collection order
	Upgrade []string    `json:"upgrade"` // rnames in managed-fields-upgrade order
	Apply   []string    `json:"apply"`   // rnames in apply order
}

type xwScn struct {
	Mode string `json:"mode"` // "fn" | "pt"
	Fin  bool   `json:"fin"`  // XR already carries the composite finalizer
	// the function composer's field manager has never applied this XR's references (a
	// first apply by a new manager bumps the resourceVersion even when no value changes)
	Fresh  bool      `json:"fresh,omitempty"`
	Refs   []xwRef   `json:"refs"`
	Objs   []xwObj   `json:"objs"`
	Rounds []xwRound `json:"rounds"`
}

type xwRoundObs struct {
	Calls  []string `json:"calls"` // "verb Kind/name[/sub] outcome>err"
	Refs   []xwRef  `json:"refs"`
	Objs   []xwObj  `json:"objs"`
	Result string   `json:"result"` // success | handled | error | crashed
	XRFin  bool     `json:"xrFin"`
}

type xwWorld struct {
	St    *Store
	XRUID string
	mons  []Mon
	seen  map[string]bool
	// live name per rname at the previous instant (name-stability monitor)
	prevName map[string]string
	// the reconciler and its composer are long-lived objects of one process: built once, used
	// for every reconcile, rebuilt only after a crash (process restart) or a mode change
	rec     *composite.Reconciler
	recMode string
	cur     *xwRound // the round the long-lived function runner / fetcher serve
	// composed resources missing from the informer cache in the current round (key: GroupKind/name)
	miss   map[string]bool
	curRev *v1.CompositionRevision
	gen    *[][2]string // names generated in the current round
	// model kind of each name generated in the current round, parallel to *gen (two kinds may be
	// handed the same random suffix)
	genKind *[]string
}

func xwKindGVK(kind string) schema.GroupVersionKind {
	if kind == "KA2" {
		return schema.GroupVersionKind{Group: xwGroup2, Version: "v1", Kind: "KA"}
	}
	return schema.GroupVersionKind{Group: xwGroup, Version: "v1", Kind: kind}
}

// xwAPIVersion is the apiVersion of model kind `kind` at version `ver`.
func xwAPIVersion(kind, ver string) string { return xwKindGVK(kind).Group + "/" + xwVer(ver) }

// xwModelKind maps a real (group, Kind) back to the model's kind string.
func xwModelKind(group, kind string) string {
	if group == xwGroup2 {
		return kind + "2"
	}
	return kind
}

// xwCache is the CACHED client the real reconciler and composers are built with
// (NewReconciler(c, uc, …), NewFunctionComposer(cached, uncached, …), NewPTComposer(cached,
// uncached)): the simstore itself, except that a Get of a composed resource that is missing from
// the informer cache in the current round answers NotFound. The call is still issued to simstore,
// so it is counted, logged and subject to the fault plan; only the answer is replaced. Writes
// and every other read go straight through. The UNCACHED client is the simstore.
type xwCache struct {
	*Store
	w *xwWorld
}

func xwMissKey(gk schema.GroupKind, name string) string { return gk.String() + "/" + name }

func (c *xwCache) Get(ctx context.Context, key client.ObjectKey, obj client.Object, opts ...client.GetOption) error {
	gvk, err := apiutil.GVKForObject(obj, c.Store.Scheme())
	if err != nil || !c.w.miss[xwMissKey(gvk.GroupKind(), key.Name)] {
		return c.Store.Get(ctx, key, obj, opts...)
	}
	var before map[string]any
	ru, isU := obj.(runtime.Unstructured)
	if isU {
		before = runtime.DeepCopyJSON(ru.UnstructuredContent())
	}
	n0 := len(c.Store.Log)
	err = c.Store.Get(ctx, key, obj, opts...)
	if len(c.Store.Log) == n0 {
		return err // the process is dead: the call never happened
	}
	last := &c.Store.Log[len(c.Store.Log)-1]
	if last.Outcome != "ok" || err != nil {
		return err // injected fault, or the object does not exist at all
	}
	// the object exists but the informer has not delivered it yet
	if isU {
		ru.SetUnstructuredContent(before) // a failed Get leaves the object untouched
	}
	last.Err = "notFound"
	return kerrors.NewNotFound(schema.GroupResource{Group: gvk.Group, Resource: gvk.Kind}, key.Name)
}

// setMiss installs the round's cache misses.
func (w *xwWorld) setMiss(miss []xwRef) {
	w.miss = map[string]bool{}
	for _, r := range miss {
		w.miss[xwMissKey(xwKindGVK(r.Kind).GroupKind(), r.Name)] = true
	}
}

// pickMiss turns generator selectors into a set of cache misses for the round about to start:
// existing referenced composed resources and, for odd selectors, resources created in the previous
// round (`created`), which is the situation the live fallback read exists for.
func (w *xwWorld) pickMiss(sel []int, created []xwRef) []xwRef {
	refs, objs, _ := w.view()
	inRefs := map[string]bool{}
	for _, r := range refs {
		inRefs[r.Kind+"/"+r.Name] = true
	}
	exists := map[string]bool{}
	cands := []xwRef{}
	for _, o := range objs {
		exists[o.Kind+"/"+o.Name] = true
		if inRefs[o.Kind+"/"+o.Name] {
			cands = append(cands, xwRef{Kind: o.Kind, Name: o.Name})
		}
	}
	fresh := []xwRef{}
	for _, r := range created {
		if exists[r.Kind+"/"+r.Name] {
			fresh = append(fresh, r)
		}
	}
	out := []xwRef{}
	seen := map[string]bool{}
	for _, s := range sel {
		from := cands
		if s%2 == 1 && len(fresh) > 0 {
			from = fresh
		}
		if len(from) == 0 {
			continue
		}
		r := from[(s/2)%len(from)]
		if !seen[r.Kind+"/"+r.Name] {
			seen[r.Kind+"/"+r.Name] = true
			out = append(out, r)
		}
	}
	if len(out) == 0 {
		return nil
	}
	return out
}

func xwFieldOwner(xrUID string) string {
	xr := ucomposite.New(ucomposite.WithGroupVersionKind(xwXRGVK))
	xr.SetName(xwXRName)
	xr.SetUID(types.UID(xrUID))
	return composite.ComposedFieldOwnerName(xr)
}

func (w *xwWorld) mon(sig, why string) {
	if w.seen[sig] {
		return
	}
	w.seen[sig] = true
	w.mons = append(w.mons, Mon{Sig: sig, Why: why})
}

func xwNewWorld(s xwScn) *xwWorld {
	st := NewStore(runtime.NewScheme())
	// the API server rejects (422 Invalid) composed resources whose spec.content is xwInvalidContent
	st.Reject = func(m map[string]any) bool {
		if k, _ := m["kind"].(string); k != "KA" && k != "KB" {
			return false
		}
		c, _, _ := unstructured.NestedInt64(m, "spec", "content")
		return c == xwInvalidContent
	}
	w := &xwWorld{St: st, seen: map[string]bool{}, prevName: map[string]string{}}
	xr := ucomposite.New(ucomposite.WithGroupVersionKind(xwXRGVK))
	xr.SetName(xwXRName)
	xr.SetLabels(map[string]string{"crossplane.io/composite": xwXRName})
	xr.SetCompositionReference(&corev1.ObjectReference{Name: "comp"})
	if s.Fin {
		xr.SetFinalizers([]string{"composite.apiextensions.crossplane.io"})
	}
	refs := []corev1.ObjectReference{}
	for _, r := range s.Refs {
		refs = append(refs, corev1.ObjectReference{APIVersion: xwAPIVersion(r.Kind, "v1"), Kind: xwKindGVK(r.Kind).Kind, Name: r.Name})
	}
	xr.SetResourceReferences(refs)
	st.Seed(xr)
	if s.Mode == "fn" && !s.Fresh {
		rl := []any{}
		for _, r := range refs {
			rl = append(rl, map[string]any{"apiVersion": r.APIVersion, "kind": r.Kind, "name": r.Name})
		}
		st.SeedApplied(xwXRGVK.GroupKind(), "", xwXRName, composite.FieldOwnerXR,
			map[string]any{"metadata": map[string]any{"name": xwXRName}, "spec": map[string]any{"resourceRefs": rl}})
	}
	w.XRUID = string(st.Peek(xwXRGVK.GroupKind(), "", xwXRName).GetUID())
	for _, o := range s.Objs {
		u := &unstructured.Unstructured{}
		u.SetGroupVersionKind(xwKindGVK(o.Kind))
		u.SetName(o.Name)
		if o.Annot != "" {
			u.SetAnnotations(map[string]string{xwAnnot: o.Annot})
		}
		u.SetGenerateName(xwXRName + "-")
		tr := true
		switch o.Ctrl {
		case "xr":
			u.SetLabels(map[string]string{"crossplane.io/composite": xwXRName, "crossplane.io/claim-name": "", "crossplane.io/claim-namespace": ""})
			u.SetOwnerReferences([]metav1.OwnerReference{{APIVersion: xwGroup + "/v1", Kind: xwXRGVK.Kind, Name: xwXRName, UID: types.UID(w.XRUID), Controller: &tr, BlockOwnerDeletion: &tr}})
		case "other":
			// the foreign controller is another XR of the same kind or an object of another kind
			fk, fv := xwXRGVK.Kind, xwGroup+"/v1"
			if o.Content%2 == 1 {
				fk, fv = "Deployment", "apps/v1"
			}
			u.SetOwnerReferences([]metav1.OwnerReference{{APIVersion: fv, Kind: fk, Name: "someone-else", UID: xwForeignUID, Controller: &tr, BlockOwnerDeletion: &tr}})
		}
		_ = unstructured.SetNestedField(u.Object, int64(o.Content), "spec", "content")
		if o.Fin || o.Deleting {
			u.SetFinalizers([]string{"provider.example.org/finalizer"})
		}
		if o.Deleting {
			ts := metav1.Unix(1600000000, 0)
			u.SetDeletionTimestamp(&ts)
		}
		if o.SSA {
			st.SeedSSA(u, xwFieldOwner(w.XRUID))
		} else {
			st.Seed(u)
		}
	}
	return w
}

func (w *xwWorld) view() ([]xwRef, []xwObj, bool) {
	xr := ucomposite.New()
	xr.SetUnstructuredContent(w.St.Peek(xwXRGVK.GroupKind(), "", xwXRName).Object)
	refs := []xwRef{}
	for _, r := range xr.GetResourceReferences() {
		gv, _ := schema.ParseGroupVersion(r.APIVersion)
		refs = append(refs, xwRef{Kind: xwModelKind(gv.Group, r.Kind), Name: r.Name})
	}
	sort.Slice(refs, func(i, j int) bool { return refs[i].Kind+"/"+refs[i].Name < refs[j].Kind+"/"+refs[j].Name })
	objs := []xwObj{}
	owner := xwFieldOwner(w.XRUID)
	for _, k := range xwKinds {
		for _, u := range w.St.OfKind(xwKindGVK(k).GroupKind()) {
			o := xwObj{Kind: k, Name: u.GetName(), Annot: u.GetAnnotations()[xwAnnot], Ctrl: "none"}
			if c := metav1.GetControllerOf(u); c != nil {
				if string(c.UID) == w.XRUID {
					o.Ctrl = "xr"
				} else {
					o.Ctrl = "other"
				}
			}
			o.Fin = len(u.GetFinalizers()) > 0
			o.Deleting = u.GetDeletionTimestamp() != nil
			c, _, _ := unstructured.NestedInt64(u.Object, "spec", "content")
			o.Content = int(c)
			for _, mf := range u.GetManagedFields() {
				if mf.Manager == owner {
					o.SSA = true
				}
			}
			objs = append(objs, o)
		}
	}
	sort.Slice(objs, func(i, j int) bool { return objs[i].Kind+"/"+objs[i].Name < objs[j].Kind+"/"+objs[j].Name })
	fin := false
	for _, f := range xr.GetFinalizers() {
		if f == "composite.apiextensions.crossplane.io" {
			fin = true
		}
	}
	return refs, objs, fin
}

// checkInstant evaluates the C01 invariants on the real store (called after every API call).
func (w *xwWorld) checkInstant() {
	refs, objs, _ := w.view()
	inRefs := map[string]bool{}
	for _, r := range refs {
		inRefs[r.Kind+"/"+r.Name] = true
	}
	perName := map[string][]string{}
	for _, o := range objs {
		if o.Ctrl != "xr" || o.Deleting {
			continue
		}
		if !inRefs[o.Kind+"/"+o.Name] {
			w.mon("C01:leak", fmt.Sprintf("live composed resource %s/%s controlled by the XR is not in spec.resourceRefs", o.Kind, o.Name))
		}
		if o.Annot != "" {
			perName[o.Annot] = append(perName[o.Annot], o.Name)
		}
	}
	cur := map[string]string{}
	for n, names := range perName {
		if len(names) > 1 {
			w.mon("C01:duplicate", fmt.Sprintf("desired resource name %q has %d live composed resources: %v", n, len(names), names))
			continue
		}
		cur[n] = names[0]
		if p, ok := w.prevName[n]; ok && p != names[0] {
			w.mon("C01:name-changed", fmt.Sprintf("composed resource for %q changed metadata.name %s -> %s", n, p, names[0]))
		}
	}
	w.prevName = cur
}

func desiredHas(ds []xwDesired, rn string) bool {
	for _, d := range ds {
		if d.RName == rn {
			return true
		}
	}
	return false
}

func rnameTaken(g [][2]string, rn string) bool {
	for _, p := range g {
		if p[0] == rn {
			return true
		}
	}
	return false
}

func genHas(g [][2]string, rn string) bool { return rnameTaken(g, rn) }

type xwRecordingNamer struct {
	inner names.NameGenerator
	w     *xwWorld
}

func (n xwRecordingNamer) GenerateName(ctx context.Context, cd resource.Object) error {
	had := cd.GetName()
	err := n.inner.GenerateName(ctx, cd)
	if err == nil && had == "" && cd.GetName() != "" {
		*n.w.gen = append(*n.w.gen, [2]string{cd.GetAnnotations()[xwAnnot], cd.GetName()})
		gvk := cd.GetObjectKind().GroupVersionKind()
		*n.w.genKind = append(*n.w.genKind, xwModelKind(gvk.Group, gvk.Kind))
	}
	return err
}

// xwServerError is the error an injected "fail" outcome returns: all of these are errors of
// the request, not statements about the object (errClass maps every one of them to "other").
func xwServerError(flavour int, c CallInfo) error {
	pgk := schema.ParseGroupKind(c.GK)
	switch flavour {
	case 2:
		return &kmeta.NoKindMatchError{GroupKind: pgk, SearchedVersions: []string{"v1"}}
	case 3:
		return kerrors.NewTimeoutError("simstore: injected timeout", 1)
	case 4:
		return kerrors.NewServiceUnavailable("simstore: injected unavailable")
	case 5:
		return kerrors.NewTooManyRequests("simstore: injected too many requests", 1)
	case 6:
		return &kmeta.NoResourceMatchError{PartialResource: schema.GroupVersionResource{Group: pgk.Group, Resource: strings.ToLower(pgk.Kind) + "s"}}
	case 7:
		return context.DeadlineExceeded
	}
	return nil // the generic internal server error
}

func xwOutcome(s string) Outcome {
	switch s {
	case "fail":
		return Fail
	case "conflict":
		return Conflict
	case "crashBefore":
		return CrashBefore
	case "crashAfter":
		return CrashAfter
	}
	return OK
}

// xwPTRevision builds a resources-mode revision with one named template per desired entry.
func xwVer(v string) string {
	if v == "" {
		return "v1"
	}
	return v
}

func xwPTRevision(ds []xwDesired, ver string) *v1.CompositionRevision {
	rev := &v1.CompositionRevision{}
	mode := v1.CompositionModeResources
	rev.Spec.Mode = &mode
	for _, d := range ds {
		name := d.RName
		base := map[string]any{"apiVersion": xwAPIVersion(d.Kind, ver), "kind": xwKindGVK(d.Kind).Kind, "spec": map[string]any{"content": d.Content}}
		raw, _ := json.Marshal(base)
		t := v1.ComposedTemplate{Name: &name, Base: runtime.RawExtension{Raw: raw}}
		if !d.Ready {
			// a readiness check that never matches
			fp := "status.neverSet"
			t.ReadinessChecks = []v1.ReadinessCheck{{Type: v1.ReadinessCheckTypeNonEmpty, FieldPath: fp}}
		} else {
			t.ReadinessChecks = []v1.ReadinessCheck{{Type: v1.ReadinessCheckTypeNone}}
		}
		rev.Spec.Resources = append(rev.Spec.Resources, t)
	}
	return rev
}

// newReconciler builds the real reconciler with the real composer of `mode`, wired to the
// world's current round through pointers (the function runner answers with w.cur's desired
// state, the revision fetcher returns w.curRev, generated names are recorded in *w.gen).
func (w *xwWorld) newReconciler(mode string) *composite.Reconciler {
	st := w.St
	// the cached client: misses the current round's not-yet-informed composed resources
	cached := &xwCache{Store: st, w: w}
	runner := composite.FunctionRunnerFn(func(_ context.Context, _ string, req *fnv1.RunFunctionRequest) (*fnv1.RunFunctionResponse, error) {
		rd := w.cur
		if rd.FnErr == "error" {
			return nil, errors.New("function failed")
		}
		rsp := &fnv1.RunFunctionResponse{Desired: &fnv1.State{Resources: map[string]*fnv1.Resource{}}}
		for _, d := range rd.Desired {
			s, _ := structpb.NewStruct(map[string]any{"apiVersion": xwAPIVersion(d.Kind, rd.Ver), "kind": xwKindGVK(d.Kind).Kind, "spec": map[string]any{"content": d.Content}})
			rdy := fnv1.Ready_READY_FALSE
			if d.Ready {
				rdy = fnv1.Ready_READY_TRUE
			}
			rsp.Desired.Resources[d.RName] = &fnv1.Resource{Resource: s, Ready: rdy}
		}
		if rd.FnErr == "fatal" {
			rsp.Results = []*fnv1.Result{{Severity: fnv1.Severity_SEVERITY_FATAL, Message: "fatal"}}
		}
		return rsp, nil
	})
	var composer composite.Composer
	wrap := func(g names.NameGenerator) names.NameGenerator { return xwRecordingNamer{inner: g, w: w} }
	if mode == "fn" {
		fc := composite.NewFunctionComposer(cached, st, runner)
		composite.VerifWrapFnNameGenerator(fc, wrap)
		composer = fc
	} else {
		pc := composite.NewPTComposer(cached, st)
		composite.VerifWrapPTNameGenerator(pc, wrap)
		composer = pc
	}
	return composite.NewReconciler(cached, st, resource.CompositeKind(xwXRGVK),
		composite.WithComposer(composer),
		composite.WithCompositionSelector(composite.CompositionSelectorFn(func(context.Context, resource.Composite) error { return nil })),
		composite.WithCompositionRevisionFetcher(composite.CompositionRevisionFetcherFn(func(context.Context, resource.Composite) (*v1.CompositionRevision, error) { return w.curRev, nil })),
		composite.WithCompositionRevisionValidator(composite.CompositionRevisionValidatorFn(func(*v1.CompositionRevision) error { return nil })),
		composite.WithConfigurator(composite.ConfiguratorFn(func(context.Context, resource.Composite, *v1.CompositionRevision) error { return nil })),
	)
}

// xwRunRound performs one reconcile. Hints are filled from the observation.
func (w *xwWorld) xwRunRound(mode string, rd *xwRound, extraCheck func()) xwRoundObs {
	st := w.St
	st.Revive()
	st.Log = nil
	gen := [][2]string{}
	genKind := []string{}
	startRefs := map[string]bool{}
	startObserved := map[string]bool{}
	refs0, objs0, startFin := w.view()
	for _, r := range refs0 {
		startRefs[r.Kind+"/"+r.Name] = true
	}
	for _, o := range objs0 {
		if startRefs[o.Kind+"/"+o.Name] && o.Ctrl != "other" && o.Annot != "" {
			startObserved[o.Annot] = true
		}
	}
	w.cur = rd
	w.setMiss(rd.Miss)
	w.gen = &gen
	w.genKind = &genKind
	if mode == "fn" {
		rev := &v1.CompositionRevision{}
		m := v1.CompositionModePipeline
		rev.Spec.Mode = &m
		rev.Spec.Pipeline = []v1.PipelineStep{{Step: "s0", FunctionRef: v1.FunctionReference{Name: "fn0"}}}
		w.curRev = rev
	} else {
		w.curRev = xwPTRevision(rd.Desired, rd.Ver)
	}
	if w.rec == nil || w.recMode != mode {
		w.rec, w.recMode = w.newReconciler(mode), mode
	}
	r := w.rec
	if rd.Fault != nil {
		f := *rd.Fault
		st.Plan = func(c CallInfo) Outcome {
			if c.Index == f.K {
				return xwOutcome(f.O)
			}
			return OK
		}
		// The model knows one "server error" outcome. The real run draws its class from the
		// scenario (deterministically, so that a scenario replays): classes that the code under
		// test must all treat alike - none of them means "the object does not exist".
		flavour := (f.K*7 + len(rd.Desired)*3 + len(objs0)) % 8
		st.FailErr = func(c CallInfo) error { return xwServerError(flavour, c) }
	} else {
		st.FailErr = nil
	}
	st.After = func(CallInfo) {
		w.checkInstant()
		if extraCheck != nil {
			extraCheck()
		}
	}
	var rerr error
	if p := Guard(func() {
		_, rerr = r.Reconcile(context.Background(), reconcile.Request{NamespacedName: types.NamespacedName{Name: xwXRName}})
	}); p != "" {
		w.mon("C01:panic", p)
	}
	st.After = nil
	crashed := st.Crashed()
	if crashed {
		w.rec = nil // process restart: the next reconcile runs in a new process
	}
	obs := xwRoundObs{Calls: []string{}}
	// name -> rname map for hints (objects + this round's generated names)
	rnameOf := map[string]string{}
	for i, g := range gen {
		rnameOf["*"+genKind[i]+"/"+g[1]] = g[0]
	}
	_, objs, _ := w.view()
	for _, o := range append(objs, objs0...) {
		if o.Annot != "" {
			if _, ok := rnameOf[o.Kind+"/"+o.Name]; !ok {
				rnameOf[o.Kind+"/"+o.Name] = o.Annot
			}
		}
	}
	h := &xwHints{Gen: [][2]string{}, GC: []string{}, Upgrade: []string{}, Apply: []string{}}
	// obsNames: composition resource names that have an observable object at round start
	refWritten := false
	xrUpdates := 0
	genSeen := map[string]bool{}
	for _, c := range st.Log {
		pgk := schema.ParseGroupKind(c.GK)
		gk := xwModelKind(pgk.Group, pgk.Kind)
		e := fmt.Sprintf("%s %s/%s", c.Verb, gk, c.Name)
		if c.Sub != "" {
			e += "/" + c.Sub
		}
		if c.PatchType != "" {
			e += " " + c.PatchType
		}
		e += " " + c.Outcome + ">" + c.Err
		obs.Calls = append(obs.Calls, e)
		if gk == xwXRGVK.Kind {
			if c.Sub == "" && c.Verb == "update" {
				xrUpdates++
				if startFin || xrUpdates > 1 {
					refWritten = true
				}
			}
			if c.Sub == "" && c.Verb == "patch" {
				refWritten = true
			}
			continue
		}
		rn := rnameOf["*"+gk+"/"+c.Name] // generated in this round for this kind
		if rn == "" {
			rn = rnameOf[gk+"/"+c.Name]
		}
		switch {
		case c.Verb == "get" && !refWritten && !startRefs[gk+"/"+c.Name] && !genSeen[gk+"/"+c.Name]:
			// a name-availability probe of the name generator
			genSeen[gk+"/"+c.Name] = true
			if rn == "" || !desiredHas(rd.Desired, rn) {
				// the probe failed (fault): attribute it to a desired resource of that kind
				// that has no observed object and no generated name yet
				rn = ""
				for _, d := range rd.Desired {
					if d.Kind == gk && !startObserved[d.RName] && !rnameTaken(h.Gen, d.RName) && !genHas(gen, d.RName) {
						rn = d.RName
						break
					}
				}
			}
			h.Gen = append(h.Gen, [2]string{rn, c.Name})
		case c.Verb == "update":
			h.GC = append(h.GC, rn)
		case c.Verb == "patch" && c.PatchType == "json":
			h.Upgrade = append(h.Upgrade, rn)
		case c.Verb == "patch" && c.PatchType == "apply":
			h.Apply = append(h.Apply, rn)
		}
	}
	rd.Hints = h
	st.Revive()
	obs.Refs, obs.Objs, obs.XRFin = w.view()
	synced := false
	{
		xr := ucomposite.New()
		xr.SetUnstructuredContent(w.St.Peek(xwXRGVK.GroupKind(), "", xwXRName).Object)
		for _, c := range xr.GetConditions() {
			if c.Type == "Synced" && c.Status == corev1.ConditionTrue {
				synced = true
			}
		}
	}
	last := ""
	if n := len(obs.Calls); n > 0 {
		last = obs.Calls[n-1]
	}
	switch {
	case crashed:
		obs.Result = "crashed"
	case rerr != nil:
		obs.Result = "error"
	case synced && last == "update XThing/xr/status ok>":
		// Compose succeeded, every resource was applied, and the status write went through
		obs.Result = "success"
	default:
		obs.Result = "handled"
	}
	if obs.Result == "success" {
		for _, d := range rd.Desired {
			if d.Content == xwInvalidContent {
				w.mon("C05:synced-despite-rejected-apply", fmt.Sprintf("XR reported Synced=True although the apply of desired resource %q was rejected as invalid in this reconcile", d.RName))
			}
		}
	}
	return obs
}

//go:build verif

package main

// C11 scenario generator: structured, mostly valid XRDs (1-3 versions, schemas
// with properties named like machinery fields, name length limits, oneOf, CEL
// rules, preserve-unknown-fields, claim names with and without collisions,
// default policies, conversion settings) plus a malformed stream, and
// (old, new) pairs for updates. Every choice comes from the scenario's Rng.

import (
	"encoding/json"
	"fmt"
	"sort"
	"strings"

	extv1 "k8s.io/apiextensions-apiserver/pkg/apis/apiextensions/v1"

	"github.com/crossplane/crossplane/internal/xcrd"
)

var c11MachineryNames = []string{
	"compositionRef", "compositionSelector", "compositionRevisionRef", "compositionRevisionSelector", "compositionUpdatePolicy",
	"claimRef", "resourceRefs", "resourceRef", "compositeDeletePolicy", "publishConnectionDetailsTo", "writeConnectionSecretToRef",
}
var c11StatusMachineryNames = []string{"conditions", "connectionDetails", "claimConditionTypes"}
var c11AuthorNames = []string{"region", "size", "parameters", "storageGB", "engine", "nodes", "name", "metadata", "spec", "status", "apiVersion", "kind"}
var c11Kinds = []string{"XDatabase", "XCluster", "XNetwork", "Database", "Cluster", "Bucket"}

func c11Leaf(r *Rng) map[string]any {
	switch r.Intn(8) {
	case 0:
		return map[string]any{"type": "string"}
	case 1:
		m := map[string]any{"type": "string", "enum": []any{"small", "large"}}
		if r.Bool() {
			m["default"] = "small"
		}
		return m
	case 2:
		m := map[string]any{"type": "integer", "minimum": r.Intn(5), "maximum": 10 + r.Intn(90)}
		if r.Chance(1, 3) {
			m["default"] = r.Intn(5)
		}
		if r.Chance(1, 4) {
			m["multipleOf"] = 2.5
		}
		return m
	case 3:
		return map[string]any{"type": "boolean", "default": r.Bool()}
	case 4:
		return map[string]any{"type": "string", "maxLength": r.Intn(80), "pattern": "^[a-z]+$", "format": "hostname", "description": "a leaf"}
	case 5:
		return map[string]any{"x-kubernetes-int-or-string": true}
	case 6:
		return map[string]any{"type": "object", "x-kubernetes-preserve-unknown-fields": true}
	}
	return map[string]any{"type": "string", "nullable": true}
}

// c11Sub is an arbitrary sub-schema (what an author may put under any property name).
func c11Sub(r *Rng, depth int) map[string]any {
	if depth <= 0 || r.Chance(1, 2) {
		return c11Leaf(r)
	}
	switch r.Intn(5) {
	case 0:
		return map[string]any{"type": "array", "items": c11Sub(r, depth-1), "x-kubernetes-list-type": Pick(r, []string{"atomic", "set"})}
	case 1:
		return map[string]any{"type": "object", "additionalProperties": c11Leaf(r)}
	case 2:
		return map[string]any{"type": "object", "additionalProperties": true}
	}
	m := map[string]any{"type": "object"}
	props := map[string]any{}
	var names []string
	for i, n := 0, r.Range(1, 3); i < n; i++ {
		k := Pick(r, c11AuthorNames)
		if r.Chance(1, 5) {
			k = Pick(r, c11MachineryNames)
		}
		props[k] = c11Sub(r, depth-1)
		names = append(names, k)
	}
	m["properties"] = props
	if r.Bool() {
		m["required"] = []any{names[0]}
	}
	if r.Chance(1, 4) {
		m["x-kubernetes-validations"] = []any{map[string]any{"rule": "self.size() > 0", "message": "nested"}}
	}
	if r.Chance(1, 6) {
		m["oneOf"] = []any{map[string]any{"required": []any{names[0]}}}
	}
	if r.Chance(1, 6) {
		m["description"] = "nested object"
	}
	return m
}

func c11Rules(r *Rng, what string) []any {
	var out []any
	for i, n := 0, r.Range(1, 2); i < n; i++ {
		rule := map[string]any{"rule": fmt.Sprintf("self.%s%d == oldSelf.%s%d", what, i, what, i)}
		if r.Bool() {
			rule["message"] = what + " is immutable"
		}
		if r.Chance(1, 3) {
			rule["reason"] = "FieldValueForbidden"
		}
		if r.Chance(1, 4) {
			rule["fieldPath"] = "." + what
		}
		out = append(out, rule)
	}
	return out
}

// c11Node is the author's spec or status node.
func c11Node(r *Rng, mach []string, isSpec bool) map[string]any {
	m := map[string]any{}
	if r.Chance(4, 5) {
		m["type"] = "object"
	} else if r.Chance(1, 3) {
		m["type"] = "array" // ignored by the derivation
	}
	props := map[string]any{}
	var names []string
	for i, n := 0, r.Intn(6); i < n; i++ {
		var k string
		if r.Chance(2, 5) {
			k = Pick(r, mach)
		} else {
			k = Pick(r, c11AuthorNames)
		}
		if _, dup := props[k]; dup {
			continue
		}
		props[k] = c11Sub(r, 2)
		names = append(names, k)
	}
	if len(props) > 0 || r.Chance(1, 5) {
		m["properties"] = props
	}
	if len(names) > 0 && r.Chance(3, 5) {
		req := []any{}
		for _, k := range names {
			if r.Bool() {
				req = append(req, k)
			}
		}
		if r.Chance(1, 5) {
			req = append(req, Pick(r, mach))
		}
		m["required"] = req
	}
	if r.Chance(2, 5) {
		m["x-kubernetes-validations"] = c11Rules(r, "f")
	}
	if r.Chance(1, 3) && len(names) > 0 {
		alts := []any{}
		for i, n := 0, r.Range(1, 3); i < n; i++ {
			alts = append(alts, map[string]any{"required": []any{Pick(r, names)}})
		}
		m["oneOf"] = alts
	}
	if r.Chance(1, 3) {
		m["x-kubernetes-preserve-unknown-fields"] = r.Chance(3, 4)
	}
	if r.Chance(1, 3) {
		m["description"] = Pick(r, []string{"The desired state.", "Observed state", "späcial \"quoted\" <tag> & more"})
	}
	// fields of the node the derivation does not read
	if r.Chance(1, 6) {
		m["default"] = map[string]any{}
	}
	if r.Chance(1, 8) {
		m["minProperties"] = 1
	}
	if r.Chance(1, 8) {
		m["anyOf"] = []any{map[string]any{"required": []any{"region"}}}
	}
	if r.Chance(1, 10) {
		m["additionalProperties"] = false
	}
	_ = isSpec
	return m
}

func c11SchemaDoc(r *Rng) map[string]any {
	root := map[string]any{}
	if r.Chance(3, 4) {
		root["type"] = "object"
	}
	if r.Chance(1, 3) {
		root["description"] = Pick(r, []string{"A database.", "XCluster is the Schema for the clusters API"})
	}
	props := map[string]any{}
	if r.Chance(9, 10) {
		props["spec"] = c11Node(r, c11MachineryNames, true)
	}
	if r.Chance(3, 5) {
		props["status"] = c11Node(r, c11StatusMachineryNames, false)
	}
	if r.Chance(2, 5) {
		name := map[string]any{}
		if r.Chance(4, 5) {
			name["maxLength"] = Pick(r, []int{10, 62, 63, 64, 100, 253, 0, -1, 30})
		}
		if r.Bool() {
			name["type"] = Pick(r, []string{"string", "integer"})
		}
		if r.Chance(1, 4) {
			name["pattern"] = "^x-"
		}
		md := map[string]any{"type": "object", "properties": map[string]any{"name": name}}
		if r.Chance(1, 4) {
			md["properties"].(map[string]any)["labels"] = map[string]any{"type": "object"}
		}
		props["metadata"] = md
	}
	if r.Chance(1, 6) {
		props[Pick(r, []string{"extra", "apiVersion", "kind", "data"})] = c11Leaf(r)
	}
	if len(props) > 0 || r.Chance(1, 3) {
		root["properties"] = props
	}
	if r.Chance(1, 5) {
		root["required"] = []any{Pick(r, []string{"spec", "status", "extra"})}
	}
	if r.Chance(1, 8) {
		root["x-kubernetes-validations"] = c11Rules(r, "top")
	}
	if r.Chance(1, 10) {
		root["x-verif-unknown-field"] = map[string]any{"a": 1}
	}
	return root
}

var c11BadRaws = []string{`{`, `[]`, `"schema"`, `{"type": 5}`, `{"properties": []}`, `{"properties": {"spec": {"required": "region"}}}`,
	`{"properties": {"metadata": {"properties": {"name": {"maxLength": 5.5}}}}}`, `{"properties": {"spec": {"x-kubernetes-validations": {}}}}`, ``, `{"type": "object"} trailing`}

func c11GenSchema(r *Rng) c11SchemaS {
	switch {
	case r.Chance(1, 25):
		return c11SchemaS{Present: false}
	case r.Chance(1, 40):
		return c11SchemaS{Present: true, RawNil: true}
	case r.Chance(1, 14):
		return c11SchemaS{Present: true, Raw: Pick(r, c11BadRaws)}
	case r.Chance(1, 40):
		return c11SchemaS{Present: true, Raw: Pick(r, []string{`null`, `{}`, ` {"properties":{}} `})}
	}
	b, _ := json.Marshal(c11SchemaDoc(r))
	return c11SchemaS{Present: true, Raw: string(b)}
}

func c11GenColumns(r *Rng) []json.RawMessage {
	n := 0
	switch {
	case r.Chance(1, 2):
		n = 0
	case r.Chance(1, 12):
		n = r.Range(8, 12)
	default:
		n = r.Range(1, 3)
	}
	out := []json.RawMessage{}
	for i := 0; i < n; i++ {
		col := extv1.CustomResourceColumnDefinition{Name: fmt.Sprintf("COL%d", i), Type: Pick(r, []string{"string", "integer", "date"}), JSONPath: fmt.Sprintf(".spec.f%d", i)}
		if r.Chance(1, 3) {
			col.Priority = int32(r.Intn(3))
		}
		if r.Chance(1, 3) {
			col.Description = "author column"
		}
		if r.Chance(1, 6) {
			col.Name = Pick(r, []string{"READY", "SYNCED", "AGE"}) // same name as a machinery column
		}
		b, _ := json.Marshal(col)
		out = append(out, b)
	}
	return out
}

func c11NamesFor(kind string) c11Names {
	l := strings.ToLower(kind)
	return c11Names{Kind: kind, Plural: l + "s", Singular: l, ListKind: kind + "List", ShortNames: []string{}, Categories: []string{}}
}

func c11GenNames(r *Rng, kind string) c11Names {
	n := c11NamesFor(kind)
	if r.Chance(1, 3) {
		n.Singular = ""
	}
	if r.Chance(1, 3) {
		n.ListKind = ""
	}
	if r.Chance(1, 4) {
		n.ShortNames = []string{strings.ToLower(kind[:2])}
	}
	if r.Chance(1, 3) {
		n.Categories = []string{Pick(r, []string{"crossplane", "all", "composite", "claim"})}
		if r.Chance(1, 3) {
			n.Categories = append(n.Categories, "example")
		}
	}
	return n
}

func c11GenConversion(r *Rng) json.RawMessage {
	switch r.Intn(9) {
	case 0:
		return json.RawMessage(`{"strategy":"None"}`)
	case 1:
		return json.RawMessage(`{"strategy":"Webhook"}`)
	case 2:
		return json.RawMessage(`{"strategy":"Webhook","webhook":{"conversionReviewVersions":["v1"]}}`)
	case 3:
		return json.RawMessage(`{"strategy":"Webhook","webhook":{"clientConfig":{"service":{"name":"conv","namespace":"crossplane-system","path":"/convert","port":443}},"conversionReviewVersions":["v1","v1beta1"]}}`)
	case 4:
		return json.RawMessage(`{"strategy":"None","webhook":{"conversionReviewVersions":["v1"]}}`)
	}
	return json.RawMessage("null")
}

func c11GenXrd(r *Rng, tier string) c11XrdS {
	kind := Pick(r, c11Kinds)
	group := Pick(r, []string{"example.org", "acme.io", "db.example.org"})
	x := c11XrdS{Group: group, Names: c11GenNames(r, kind), UID: fmt.Sprintf("uid-%d", r.Intn(1000)),
		Labels: map[string]string{}, MetaLabels: map[string]string{}, MetaAnnotations: map[string]string{}}
	x.Name = x.Names.Plural + "." + group
	if r.Chance(1, 12) {
		x.Name = "other-name"
	}
	// claim names
	switch {
	case r.Chance(3, 10):
	default:
		ck := Pick(r, c11Kinds)
		for ck == kind {
			ck = Pick(r, c11Kinds)
		}
		c := c11GenNames(r, ck)
		if r.Chance(1, 4) {
			switch r.Intn(6) {
			case 0:
				c.Kind = x.Names.Kind
			case 1:
				c.Plural = x.Names.Plural
			case 2:
				c.Singular = x.Names.Singular
			case 3:
				c.ListKind = x.Names.ListKind
			case 4: // cross-field collision only (not rejected by validateClaimNames)
				c.Singular = x.Names.Plural
			case 5: // several at once
				c.Kind, c.Plural = x.Names.Kind, x.Names.Plural
			}
		} else if r.Chance(1, 6) {
			// near misses (no collision): case, prefix / extension, trailing separator
			switch r.Intn(4) {
			case 0:
				c.Kind = c11Near(r, x.Names.Kind)
			case 1:
				c.Plural = c11Near(r, x.Names.Plural)
			case 2:
				c.Singular = c11Near(r, x.Names.Singular)
			case 3:
				c.ListKind = c11Near(r, x.Names.ListKind)
			}
		}
		x.ClaimNames = &c
	}
	for _, k := range []string{"app", "team", "crossplane.io/owner"} {
		if r.Chance(1, 4) {
			x.Labels[k] = Pick(r, []string{"a", "b"})
		}
	}
	if r.Chance(2, 5) {
		x.HasMeta = true
		for _, k := range []string{"app", "tier", "example.org/l"} {
			if r.Chance(1, 3) {
				x.MetaLabels[k] = Pick(r, []string{"m", "n"})
			}
		}
		for _, k := range []string{"note", "example.org/a"} {
			if r.Chance(1, 3) {
				x.MetaAnnotations[k] = Pick(r, []string{"x", "y"})
			}
		}
	}
	nv := r.Range(1, 3)
	if r.Chance(1, 40) {
		nv = Pick(r, []int{0, 4})
	}
	ref := r.Intn(nv + 1)
	if nv > 0 {
		ref = r.Intn(nv)
	}
	// version names: "v1" is a prefix of two others; the order in the XRD is any order (half of the
	// time not the canonical one), and (rarely) a name occurs twice
	vnames := []string{"v1alpha1", "v1beta1", "v1", "v2"}
	if r.Bool() {
		pm := r.Perm(len(vnames))
		vnames = []string{vnames[pm[0]], vnames[pm[1]], vnames[pm[2]], vnames[pm[3]]}
	}
	if nv >= 2 && r.Chance(1, 30) {
		vnames[1] = vnames[0]
	}
	// a sequence in which LATER versions lack what earlier ones have (and the other way round)
	shape := r.Intn(6)
	for i := 0; i < nv; i++ {
		v := c11Version{Name: vnames[i], Served: r.Chance(5, 6), Referenceable: i == ref,
			Columns: c11GenColumns(r), Schema: c11GenSchema(r)}
		if nv >= 2 && ((shape == 0 && i > 0) || (shape == 1 && i < nv-1)) {
			v.Schema = c11SchemaS{Present: true, Raw: Pick(r, []string{`{"type":"object"}`, `{}`, `{"type":"object","properties":{"spec":{"type":"object"}}}`,
				`{"type":"object","properties":{"spec":{"type":"object","properties":{"region":{"type":"string"}}},"status":{"type":"object"}}}`})}
			v.Columns = []json.RawMessage{}
		}
		if r.Chance(1, 12) { // outside the quantifier (zero or several referenceable versions): the model is total
			v.Referenceable = !v.Referenceable
		}
		if r.Chance(1, 4) {
			b := r.Bool()
			v.Deprecated = &b
			if r.Bool() {
				w := "use a newer version"
				v.DeprecationWarning = &w
			}
		}
		if r.Chance(1, 3) {
			v.ColCap = Pick(r, []int{1, 4, 5, 8, 16})
		}
		x.Versions = append(x.Versions, v)
	}
	x.Conversion = c11GenConversion(r)
	if r.Chance(1, 3) {
		p := Pick(r, []string{"Automatic", "Manual", "Manual", "Other"})
		x.DefCUP = &p
	}
	if r.Chance(1, 3) {
		p := Pick(r, []string{"Background", "Foreground"})
		x.DefCDP = &p
	}
	_ = tier
	x.Meta = c11GenMeta(r)
	return x
}

var c11XRDFinalizers = []string{"defined.apiextensions.crossplane.io", "offered.apiextensions.crossplane.io"}

// c11GenMeta draws metadata / status of the XRD object a shortcut in the validation could key on:
// terminating (deletionTimestamp, held by finalizers), finalizers present / absent, the paused
// annotation, the generation, the status conditions.
func c11GenMeta(r *Rng) *c11ObjMeta {
	if r.Chance(2, 5) {
		return nil
	}
	m := &c11ObjMeta{Finalizers: []string{}, Deleted: r.Chance(2, 5), Paused: r.Chance(1, 5), Generation: int64(r.Intn(4)), Established: r.Bool()}
	switch r.Intn(4) {
	case 0:
		m.Finalizers = append(m.Finalizers, c11XRDFinalizers[0])
	case 1:
		m.Finalizers = append(m.Finalizers, c11XRDFinalizers...)
	case 2:
		m.Finalizers = append(m.Finalizers, "example.org/custom")
	}
	if m.Deleted && len(m.Finalizers) == 0 {
		m.Finalizers = append(m.Finalizers, c11XRDFinalizers...)
	}
	return m
}

const c11ConvWebhook = `{"strategy":"Webhook","webhook":{"clientConfig":{"service":{"name":"conv","namespace":"crossplane-system","path":"/convert","port":443}},"conversionReviewVersions":["v1","v1beta1"]}}`

// c11GenRecon draws the state the reconcilers find: the CRDs derived from an EARLIER state of the
// XRD that had optional settings the current one no longer has (and sometimes lacked some).
func c11GenRecon(r *Rng, x c11XrdS) *c11Recon {
	rc := &c11Recon{ExtraLabels: map[string]string{}, ExtraAnnotations: map[string]string{}, Rounds: r.Range(1, 2)}
	if r.Chance(1, 3) {
		rc.ExtraLabels[Pick(r, []string{"team", "app", "example.org/by-hand"})] = "ops"
	}
	if r.Chance(1, 3) {
		rc.ExtraAnnotations[Pick(r, []string{"note", "example.org/by-hand"})] = "kept?"
	}
	if r.Chance(1, 6) {
		return rc // no CRD yet
	}
	// what the API server says about the stored CRDs: usually established; sometimes not (yet), or
	// with several conditions of which the FIRST of type Established counts
	if r.Chance(2, 5) {
		rc.StoredConds = Pick(r, c11StoredCondVariants)
	}
	p := c11CloneXrd(x)
	p.Meta = nil
	names := func(n *c11Names, kind string) {
		switch r.Intn(4) {
		case 0:
			n.ShortNames = append(n.ShortNames, "old"+strings.ToLower(kind[:1]))
		case 1:
			if n.Singular == "" {
				n.Singular = strings.ToLower(kind)
			}
		case 2:
			if n.ListKind == "" {
				n.ListKind = kind + "List"
			}
		case 3:
			n.Categories = append(n.Categories, "retired")
		}
	}
	for i, k := 0, r.Range(1, 4); i < k; i++ {
		switch r.Intn(10) {
		case 0, 1:
			p.Conversion = json.RawMessage(c11ConvWebhook)
		case 2:
			names(&p.Names, p.Names.Kind)
		case 3:
			if p.ClaimNames != nil {
				names(p.ClaimNames, p.ClaimNames.Kind)
			}
		case 4:
			p.HasMeta = true
			p.MetaLabels[Pick(r, []string{"tier", "example.org/l", "retired"})] = "m"
		case 5:
			p.HasMeta = true
			p.MetaAnnotations[Pick(r, []string{"note", "example.org/a", "retired"})] = "x"
		case 6:
			p.Labels[Pick(r, []string{"app", "team", "retired"})] = "a"
		case 7:
			if len(p.Versions) < 4 {
				p.Versions = append(p.Versions, c11Version{Name: "v0retired", Served: true, Columns: c11GenColumns(r), Schema: c11GenSchema(r)})
			}
		case 8:
			if len(p.Versions) > 0 {
				p.Versions[r.Intn(len(p.Versions))].Schema = c11GenSchema(r)
			}
		case 9:
			q := "Manual"
			p.DefCUP, p.DefCDP = &q, nil
			if r.Bool() {
				p.ClaimNames = nil // the claim was not offered then
			}
		}
	}
	rc.Prev = &p
	switch r.Intn(6) {
	case 0, 1:
		// the stored CRDs lack the controller reference; in half of these they equal the derived CRDs in
		// everything else (restored from a backup, orphaned and re-applied, reference removed by hand)
		rc.StoredOwners = Pick(r, []string{"none", "plain"})
		if r.Bool() {
			q := c11CloneXrd(x)
			q.Meta = nil
			rc.Prev = &q
			rc.ExtraLabels, rc.ExtraAnnotations = map[string]string{}, map[string]string{}
		}
	case 2:
		// one long-lived process: an earlier, different XRD of the same name and generation came and went
		rc.Live = true
	}
	return rc
}

var c11StoredCondVariants = [][][]string{
	{},
	{{"Established", "False"}},
	{{"Established", "Unknown"}},
	{{"NamesAccepted", "True"}},
	{{"NamesAccepted", "True"}, {"Established", "True"}},
	{{"NamesAccepted", "False"}, {"Established", "False"}},
	{{"Established", "False"}, {"Established", "True"}},
	{{"Established", "True"}, {"Established", "False"}},
	{{"Terminating", "True"}, {"NamesAccepted", "True"}, {"Established", "True"}},
	{{"established", "True"}},
}

func c11CloneXrd(x c11XrdS) c11XrdS {
	b, _ := json.Marshal(x)
	var y c11XrdS
	_ = json.Unmarshal(b, &y)
	return y
}

// c11GenOld derives the previous state of the XRD from the new one.
// c11Near returns a string that differs from s only in one identity dimension: case, a
// suffix, a missing last character (s is then a proper extension of it), a trailing separator.
func c11Near(r *Rng, s string) string {
	if s == "" {
		return "x"
	}
	switch r.Intn(6) {
	case 0:
		if u := strings.ToUpper(s); u != s {
			return u
		}
		return strings.ToLower(s[:1]) + s[1:]
	case 1:
		if l := strings.ToLower(s); l != s {
			return l
		}
		return strings.ToUpper(s[:1]) + s[1:]
	case 2:
		return s + "s"
	case 3:
		if len(s) > 1 {
			return s[:len(s)-1]
		}
		return s + "x"
	case 4:
		return s + "."
	}
	return s + " "
}

func c11GenOld(r *Rng, n c11XrdS) c11XrdS {
	o := c11CloneXrd(n)
	if r.Bool() {
		o.Meta = c11GenMeta(r) // otherwise old and new agree in metadata (generation unchanged, ...)
	}
	for i, k := 0, r.Range(0, 2); i < k; i++ {
		switch r.Intn(18) {
		case 12:
			o.Group = c11Near(r, o.Group)
		case 13:
			o.Names.Kind = c11Near(r, o.Names.Kind)
		case 14:
			o.Names.Plural = c11Near(r, o.Names.Plural)
		case 15:
			if o.ClaimNames != nil {
				o.ClaimNames.Kind = c11Near(r, o.ClaimNames.Kind)
			}
		case 16:
			if o.ClaimNames != nil {
				o.ClaimNames.Plural = c11Near(r, o.ClaimNames.Plural)
			}
		case 17: // the names of the composite and of the claim swapped
			if o.ClaimNames != nil {
				o.Names.Kind, o.ClaimNames.Kind = o.ClaimNames.Kind, o.Names.Kind
				o.Names.Plural, o.ClaimNames.Plural = o.ClaimNames.Plural, o.Names.Plural
			}
		case 0:
			o.Group = "old." + o.Group
		case 1:
			o.Names.Kind = "Old" + o.Names.Kind
		case 2:
			o.Names.Plural = "old" + o.Names.Plural
		case 3:
			o.Names.Singular = "old" + o.Names.Singular // allowed
		case 4:
			o.ClaimNames = nil // claim names added by the update: allowed
		case 5:
			if o.ClaimNames == nil {
				c := c11NamesFor("OldClaim") // claim names removed by the update: allowed
				o.ClaimNames = &c
			} else {
				o.ClaimNames.Kind = "Old" + o.ClaimNames.Kind
			}
		case 6:
			if o.ClaimNames != nil {
				o.ClaimNames.Plural = "old" + o.ClaimNames.Plural
			}
		case 7:
			if o.ClaimNames != nil {
				o.ClaimNames.ListKind = "Old" + o.ClaimNames.ListKind // allowed
			}
		case 8:
			if len(o.Versions) > 1 {
				o.Versions = o.Versions[:len(o.Versions)-1] // version added: allowed
			}
		case 9:
			o.Conversion = c11GenConversion(r)
		case 10:
			o.DefCUP, o.DefCDP = nil, nil
		case 11:
			o.Names.Kind, o.Group = "Old"+o.Names.Kind, "old."+o.Group
		}
	}
	return o
}

// c11Sweep is a deterministic stream run before the random one in every tier, so
// that each branch the property names is exercised whatever the seed: every
// machinery key of the live tables shadowed by an author property (spec and
// status, several sub-schemas), every claim-name collision field, every kind of
// update, schema absent / unparsable in each position.
func c11Sweep() []c11Scn {
	var out []c11Scn
	base := func() c11XrdS {
		c := c11NamesFor("Database")
		return c11XrdS{Name: "xdatabases.example.org", UID: "uid-sweep", Group: "example.org", Names: c11NamesFor("XDatabase"), ClaimNames: &c,
			Labels: map[string]string{}, MetaLabels: map[string]string{}, MetaAnnotations: map[string]string{}, Conversion: json.RawMessage("null")}
	}
	version := func(name string, ref bool, schema any) c11Version {
		b, _ := json.Marshal(schema)
		return c11Version{Name: name, Served: true, Referenceable: ref, Columns: []json.RawMessage{}, Schema: c11SchemaS{Present: true, Raw: string(b)}}
	}
	subs := []map[string]any{
		{"type": "string"},
		{"type": "object", "properties": map[string]any{"name": map[string]any{"type": "integer"}}, "required": []any{"name"}, "x-kubernetes-preserve-unknown-fields": true},
		{"type": "array", "items": map[string]any{"type": "string"}, "description": "author's own"},
	}
	keys := map[string]bool{}
	for _, k := range c11MachineryNames {
		keys[k] = true
	}
	for k := range xcrd.CompositeResourceSpecProps() {
		keys[k] = true
	}
	for k := range xcrd.CompositeResourceClaimSpecProps() {
		keys[k] = true
	}
	var specKeys []string
	for k := range keys {
		specKeys = append(specKeys, k)
	}
	sort.Strings(specKeys)
	statusKeys := append([]string{}, c11StatusMachineryNames...)
	for k := range xcrd.CompositeResourceStatusProps() {
		if !c11Contains(statusKeys, k) {
			statusKeys = append(statusKeys, k)
		}
	}
	sort.Strings(statusKeys)
	for _, k := range specKeys {
		for i, sub := range subs {
			x := base()
			doc := map[string]any{"type": "object", "properties": map[string]any{
				"spec": map[string]any{"type": "object", "properties": map[string]any{k: sub, "region": map[string]any{"type": "string"}}, "required": []any{k, "region"}}}}
			x.Versions = []c11Version{version("v1", true, doc)}
			if i == 1 {
				x.Versions = []c11Version{version("v1alpha1", false, map[string]any{"type": "object"}), version("v1", true, doc)}
				p := "Manual"
				q := "Foreground"
				x.DefCUP, x.DefCDP = &p, &q
			}
			out = append(out, c11Scn{Xrd: x})
		}
	}
	for _, k := range statusKeys {
		for _, sub := range subs {
			x := base()
			doc := map[string]any{"type": "object", "properties": map[string]any{
				"status": map[string]any{"type": "object", "properties": map[string]any{k: sub, "address": map[string]any{"type": "string"}}, "required": []any{"address"},
					"x-kubernetes-validations": []any{map[string]any{"rule": "has(self.address)"}}, "oneOf": []any{map[string]any{"required": []any{"address"}}}}}}
			x.Versions = []c11Version{version("v1", true, doc)}
			out = append(out, c11Scn{Xrd: x})
		}
	}
	// name limits
	for _, ml := range []int{-1, 0, 1, 62, 63, 64, 253} {
		x := base()
		x.Versions = []c11Version{version("v1", true, map[string]any{"properties": map[string]any{"metadata": map[string]any{"properties": map[string]any{"name": map[string]any{"maxLength": ml}}}}})}
		out = append(out, c11Scn{Xrd: x})
	}
	// claim-name collisions, field by field, with and without the optional names
	for i := 0; i < 8; i++ {
		x := base()
		x.Versions = []c11Version{version("v1", true, map[string]any{"type": "object"})}
		c := x.ClaimNames
		switch i {
		case 0:
			c.Kind = x.Names.Kind
		case 1:
			c.Plural = x.Names.Plural
		case 2:
			c.Singular = x.Names.Singular
		case 3:
			c.ListKind = x.Names.ListKind
		case 4:
			c.Singular, x.Names.Singular = "", ""
		case 5:
			c.ListKind, x.Names.ListKind = "", ""
		case 6:
			c.Singular = x.Names.Plural // cross-field: not rejected by validateClaimNames
		case 7:
			x.ClaimNames = nil
		}
		out = append(out, c11Scn{Xrd: x})
	}
	// schema absent / unparsable in each position of a three-version XRD
	for pos := 0; pos < 3; pos++ {
		for _, bad := range []c11SchemaS{{Present: false}, {Present: true, RawNil: true}, {Present: true, Raw: `{"type": 5}`}} {
			x := base()
			x.Versions = []c11Version{version("v1alpha1", false, map[string]any{}), version("v1beta1", false, map[string]any{}), version("v1", true, map[string]any{})}
			x.Versions[pos].Schema = bad
			out = append(out, c11Scn{Xrd: x})
		}
	}
	// updates: every immutable field, and the changes that are allowed
	for i := 0; i < 10; i++ {
		n := base()
		n.Versions = []c11Version{version("v1", true, map[string]any{"type": "object"})}
		o := c11CloneXrd(n)
		switch i {
		case 0:
			o.Group = "old.example.org"
		case 1:
			o.Names.Kind = "XOld"
		case 2:
			o.Names.Plural = "xolds"
		case 3:
			o.ClaimNames.Kind = "Old"
		case 4:
			o.ClaimNames.Plural = "olds"
		case 5:
			o.ClaimNames = nil
		case 6:
			n.ClaimNames = nil
		case 7:
			o.Names.Singular, o.Names.ListKind, o.Names.ShortNames, o.Names.Categories = "xold", "XOldList", []string{"xo"}, []string{"all"}
		case 8:
			n.Conversion = json.RawMessage(`{"strategy":"Webhook"}`)
		case 9:
		}
		for _, srv := range []c11Server{{}, {ExistsXR: true, ExistsClaim: true}, {ExistsXR: true}, {ExistsXR: true, RejectClaim: true}, {RejectXR: true}} {
			oc := c11CloneXrd(o)
			out = append(out, c11Scn{Xrd: c11CloneXrd(n), Old: &oc, Server: srv})
		}
	}
	// identity dimensions of the immutable names: case, extension, truncation, trailing separator
	for i := 0; i < 5; i++ {
		for _, f := range []func(string) string{strings.ToUpper, strings.ToLower, func(s string) string { return s + "s" },
			func(s string) string { return s[:len(s)-1] }, func(s string) string { return s + "." }} {
			n := base()
			n.Versions = []c11Version{version("v1", true, map[string]any{"type": "object"})}
			o := c11CloneXrd(n)
			switch i {
			case 0:
				o.Group = f(o.Group)
			case 1:
				o.Names.Kind = f(o.Names.Kind)
			case 2:
				o.Names.Plural = f(o.Names.Plural)
			case 3:
				o.ClaimNames.Kind = f(o.ClaimNames.Kind)
			case 4:
				o.ClaimNames.Plural = f(o.ClaimNames.Plural)
			}
			out = append(out, c11Scn{Xrd: n, Old: &o, Server: c11Server{ExistsXR: true, ExistsClaim: true}})
		}
	}
	// three versions of which only one is rich (spec / status properties, required, rules, oneOf,
	// preserve-unknown-fields, descriptions, a name limit, columns), in each position
	rich := map[string]any{"type": "object", "description": "rich", "properties": map[string]any{
		"spec": map[string]any{"type": "object", "description": "rich spec", "properties": map[string]any{"region": map[string]any{"type": "string"}, "size": map[string]any{"type": "integer"}},
			"required": []any{"region"}, "x-kubernetes-validations": []any{map[string]any{"rule": "self.size > 0"}}, "oneOf": []any{map[string]any{"required": []any{"size"}}},
			"x-kubernetes-preserve-unknown-fields": true},
		"status": map[string]any{"type": "object", "description": "rich status", "properties": map[string]any{"address": map[string]any{"type": "string"}},
			"required": []any{"address"}, "x-kubernetes-validations": []any{map[string]any{"rule": "has(self.address)"}}, "oneOf": []any{map[string]any{"required": []any{"address"}}}},
		"metadata": map[string]any{"type": "object", "properties": map[string]any{"name": map[string]any{"maxLength": 20}}}}}
	for pos := 0; pos < 3; pos++ {
		for _, order := range [][]string{{"v1alpha1", "v1beta1", "v1"}, {"v2", "v1", "v1beta1"}} {
			x := base()
			for i, vn := range order {
				doc := any(map[string]any{"type": "object"})
				if i == pos {
					doc = rich
				}
				v := version(vn, i == (pos+1)%3, doc)
				if i == pos {
					v.Columns = []json.RawMessage{json.RawMessage(`{"name":"REGION","type":"string","jsonPath":".spec.region"}`)}
				}
				x.Versions = append(x.Versions, v)
			}
			out = append(out, c11Scn{Xrd: x})
		}
	}
	// metadata-only states of old / new a shortcut could key on, for every immutable change, a claim
	// collision, a refused CRD and an unchanged XRD (status-only / metadata-only difference)
	{
		fins := append([]string{}, c11XRDFinalizers...)
		del := &c11ObjMeta{Deleted: true, Finalizers: fins, Generation: 2, Established: true}
		live := &c11ObjMeta{Finalizers: fins, Generation: 2, Established: true}
		bare := &c11ObjMeta{Finalizers: []string{}, Generation: 1}
		paused := &c11ObjMeta{Finalizers: fins, Paused: true, Generation: 2, Established: true}
		type mm struct{ o, n *c11ObjMeta }
		for _, m := range []mm{{live, del}, {del, del}, {del, live}, {bare, live}, {live, bare}, {live, paused}, {paused, paused}, {nil, del}, {bare, nil}} {
			for i := 0; i < 8; i++ {
				n := base()
				n.Versions = []c11Version{version("v1", true, map[string]any{"type": "object", "properties": map[string]any{"spec": map[string]any{"type": "object", "properties": map[string]any{"size": map[string]any{"type": "string"}}}}})}
				o := c11CloneXrd(n)
				srv := c11Server{ExistsXR: true, ExistsClaim: true}
				switch i {
				case 0:
					o.Group = "old.example.org"
				case 1:
					o.Names.Kind = "XOld"
				case 2:
					o.Names.Plural = "xolds"
				case 3:
					o.ClaimNames.Kind = "Old"
				case 4:
					o.ClaimNames.Plural = "olds"
				case 5: // the update introduces a collision
					n.ClaimNames.Kind = n.Names.Kind
				case 6: // the server refuses the new CRDs
					srv.RejectProp = "size"
				case 7: // nothing but metadata / status differs
				}
				n.Meta, o.Meta = m.n, m.o
				out = append(out, c11Scn{Xrd: n, Old: &o, Server: srv})
			}
		}
	}
	// the reconcilers write the CRDs: stored CRDs derived from an earlier state that had a conversion
	// webhook, short names, singular / listKind, categories, spec.metadata, labels, an extra version
	{
		cur := base()
		cur.Names.Singular, cur.Names.ListKind = "", ""
		cur.ClaimNames.Singular, cur.ClaimNames.ListKind = "", ""
		cur.Versions = []c11Version{version("v1", true, map[string]any{"type": "object"})}
		edits := []func(p *c11XrdS){
			func(p *c11XrdS) { p.Conversion = json.RawMessage(c11ConvWebhook) },
			func(p *c11XrdS) { p.Names.ShortNames, p.ClaimNames.ShortNames = []string{"xdb"}, []string{"db"} },
			func(p *c11XrdS) { p.Names.Singular, p.ClaimNames.Singular = "xdatabase", "database" },
			func(p *c11XrdS) { p.Names.ListKind, p.ClaimNames.ListKind = "XDatabaseList", "DatabaseList" },
			func(p *c11XrdS) { p.Names.Categories, p.ClaimNames.Categories = []string{"retired"}, []string{"retired"} },
			func(p *c11XrdS) { p.HasMeta, p.MetaLabels, p.MetaAnnotations = true, map[string]string{"tier": "m"}, map[string]string{"note": "x"} },
			func(p *c11XrdS) { p.Labels = map[string]string{"app": "a"} },
			func(p *c11XrdS) {
				p.Versions = append(p.Versions, version("v0", false, map[string]any{"type": "object"}))
			},
			func(p *c11XrdS) { q := "Manual"; p.DefCUP = &q },
			func(p *c11XrdS) { p.ClaimNames = nil },
			func(p *c11XrdS) {},
		}
		for _, e := range edits {
			p := c11CloneXrd(cur)
			e(&p)
			out = append(out,
				c11Scn{Xrd: c11CloneXrd(cur), Recon: &c11Recon{Prev: &p, ExtraLabels: map[string]string{}, ExtraAnnotations: map[string]string{}, Rounds: 2}},
				// and the other way round: the setting is new
				c11Scn{Xrd: c11CloneXrd(p), Recon: &c11Recon{Prev: func() *c11XrdS { c := c11CloneXrd(cur); return &c }(), ExtraLabels: map[string]string{"team": "ops"}, ExtraAnnotations: map[string]string{"note": "by hand"}, Rounds: 1}})
		}
		out = append(out, c11Scn{Xrd: c11CloneXrd(cur), Recon: &c11Recon{ExtraLabels: map[string]string{}, ExtraAnnotations: map[string]string{}, Rounds: 2}})
		for _, owners := range []string{"none", "plain"} {
			// equal to the derived CRDs in everything but the owner reference
			pp := c11CloneXrd(cur)
			out = append(out, c11Scn{Xrd: c11CloneXrd(cur), Recon: &c11Recon{Prev: &pp, ExtraLabels: map[string]string{}, ExtraAnnotations: map[string]string{}, Rounds: 2, StoredOwners: owners}})
			// ... and differing in a label as well
			out = append(out, c11Scn{Xrd: c11CloneXrd(cur), Recon: &c11Recon{Prev: &pp, ExtraLabels: map[string]string{"team": "ops"}, ExtraAnnotations: map[string]string{}, Rounds: 1, StoredOwners: owners}})
		}
		// one long-lived process: an earlier XRD of the same name and generation with another schema /
		// an extra version was reconciled and deleted before the current one was created
		for _, e := range []func(p *c11XrdS){
			func(p *c11XrdS) {
				p.Versions = []c11Version{version("v1", true, map[string]any{"type": "object", "properties": map[string]any{"spec": map[string]any{"type": "object", "properties": map[string]any{"earlier": map[string]any{"type": "string"}}}}})}
			},
			func(p *c11XrdS) {
				p.Versions = append(p.Versions, version("v0", false, map[string]any{"type": "object"}))
			},
		} {
			pp := c11CloneXrd(cur)
			e(&pp)
			out = append(out, c11Scn{Xrd: c11CloneXrd(cur), Recon: &c11Recon{Prev: &pp, ExtraLabels: map[string]string{}, ExtraAnnotations: map[string]string{}, Rounds: 2, Live: true}})
		}
		for _, conds := range c11StoredCondVariants {
			pp := c11CloneXrd(cur)
			out = append(out, c11Scn{Xrd: c11CloneXrd(cur), Recon: &c11Recon{Prev: &pp, ExtraLabels: map[string]string{}, ExtraAnnotations: map[string]string{}, Rounds: 2, StoredConds: conds}})
		}
	}
	// the author's top-level schema tries to alter the envelope
	for _, top := range []map[string]any{
		{"apiVersion": map[string]any{"type": "integer"}},
		{"kind": map[string]any{"type": "string", "enum": []any{"Mine"}}},
		{"metadata": map[string]any{"type": "string"}},
		{"metadata": map[string]any{"type": "object", "properties": map[string]any{"name": map[string]any{"type": "integer", "maxLength": 12}, "labels": map[string]any{"type": "object"}}}},
		{"extra": map[string]any{"type": "string"}, "data": map[string]any{"type": "object", "x-kubernetes-preserve-unknown-fields": true}},
	} {
		x := base()
		x.Versions = []c11Version{version("v1", true, map[string]any{"type": "array", "properties": top, "required": []any{"extra", "status"},
			"x-kubernetes-validations": []any{map[string]any{"rule": "has(self.extra)"}}, "x-kubernetes-preserve-unknown-fields": true})}
		out = append(out, c11Scn{Xrd: x})
	}
	// the same process handles a sequence of requests: the same XRD with another schema, the claim
	// offered later, an unrelated XRD; the API server refuses the property only the later state has
	{
		doc := func(prop string) map[string]any {
			return map[string]any{"type": "object", "properties": map[string]any{"spec": map[string]any{"type": "object",
				"properties": map[string]any{prop: map[string]any{"type": "string"}}, "required": []any{prop}}}}
		}
		a := base()
		a.Versions = []c11Version{version("v1", true, doc("region"))}
		b := c11CloneXrd(a)
		b.Versions = []c11Version{version("v1", true, doc("size"))}
		c := c11CloneXrd(b)
		c.ClaimNames = nil
		d := base()
		d.Name, d.UID, d.Names = "xbuckets.example.org", "uid-other", c11NamesFor("XBucket")
		cn := c11NamesFor("Bucket")
		d.ClaimNames = &cn
		d.Versions = []c11Version{version("v1", true, map[string]any{"type": "object"})}
		both := c11Server{ExistsXR: true, ExistsClaim: true}
		refuse := c11Server{ExistsXR: true, ExistsClaim: true, RejectProp: "size"}
		ac, bc, cc := c11CloneXrd(a), c11CloneXrd(b), c11CloneXrd(c)
		out = append(out,
			c11Scn{Xrd: a, More: []c11Scn{{Xrd: b, Old: &ac, Server: refuse}, {Xrd: d, Server: both}, {Xrd: a, Old: &bc, Server: refuse}}},
			c11Scn{Xrd: c, Old: &ac, Server: both, More: []c11Scn{{Xrd: b, Old: &cc, Server: both}, {Xrd: b, Old: &cc, Server: refuse}}},
			c11Scn{Xrd: d, More: []c11Scn{{Xrd: a, Server: both}, {Xrd: d, Server: both}, {Xrd: b, Server: refuse}}})
	}
	// the world of an update: every error class in every call position, and the races between the
	// webhook's read and its write (cache behind / missing, created, deleted, re-created, modified
	// once, modified every time) for each of the two CRDs
	{
		n := base()
		n.Versions = []c11Version{version("v1", true, map[string]any{"type": "object"})}
		xr, cl := n.Name, c11ClaimCRDName(n)
		mk := func(exists []string, acts ...c11Act) c11Scn {
			o := c11CloneXrd(n)
			return c11Scn{Xrd: c11CloneXrd(n), Old: &o, Server: c11Server{
				WorldC: &c11World{Exists: []string{}, Acts: append([]c11Act{}, acts...)},
				WorldU: &c11World{Exists: exists, Acts: append([]c11Act{}, acts...)}}}
		}
		for _, class := range c11ErrClasses {
			for k := 0; k < 4; k++ {
				out = append(out, mk([]string{xr, cl}, c11Act{K: k, Do: "err", Class: class}))
			}
			out = append(out, mk([]string{}, c11Act{K: 1, Do: "err", Class: class}))
		}
		for _, t := range []string{xr, cl} {
			out = append(out,
				mk([]string{xr, cl}, c11Act{K: 0, Do: "bump", Name: t}),
				mk([]string{xr, cl}, c11Act{K: 0, Do: "bump", Name: t}, c11Act{K: 4, Do: "sync", Name: t}),
				mk([]string{xr, cl}, c11Act{K: 1, Do: "bump", Name: t}, c11Act{K: 2, Do: "sync", Name: t}),
				mk([]string{xr, cl}, c11Act{K: 3, Do: "bump", Name: t}, c11Act{K: 4, Do: "sync", Name: t}),
				mk([]string{xr, cl}, c11Act{K: 1, Do: "delete", Name: t}),
				mk([]string{xr, cl}, c11Act{K: 3, Do: "delete", Name: t}, c11Act{K: 3, Do: "sync", Name: t}),
				mk([]string{xr, cl}, c11Act{K: 1, Do: "delete", Name: t}, c11Act{K: 1, Do: "create", Name: t}, c11Act{K: 2, Do: "sync", Name: t}),
				mk([]string{}, c11Act{K: 0, Do: "create", Name: t}),
				mk([]string{}, c11Act{K: 1, Do: "create", Name: t}),
				mk([]string{}, c11Act{K: 3, Do: "create", Name: t}),
				mk([]string{xr}, c11Act{K: 3, Do: "create", Name: t}, c11Act{K: 4, Do: "sync", Name: t}))
		}
	}
	return out
}

// c11SpecPropNames lists the property names the author declares under spec in any version.
func c11SpecPropNames(x c11XrdS) []string {
	seen := map[string]bool{}
	for _, v := range x.Versions {
		if _, p := c11Parse(v.Schema); p != nil {
			for k := range p.Properties["spec"].Properties {
				seen[k] = true
			}
		}
	}
	var out []string
	for k := range seen {
		out = append(out, k)
	}
	sort.Strings(out)
	return out
}

func c11CRDNames(x c11XrdS) []string {
	out := []string{x.Name}
	if cn := c11ClaimCRDName(x); cn != "" && cn != x.Name {
		out = append(out, cn)
	}
	return out
}

// c11GenWorld draws the world of one admission request: which CRDs exist, what third parties
// and the informer cache do before which API call, which call fails with which error class.
func c11GenWorld(r *Rng, x c11XrdS, update bool) *c11World {
	w := &c11World{Exists: []string{}, Acts: []c11Act{}}
	names := c11CRDNames(x)
	if update {
		if r.Chance(2, 3) {
			w.Exists = append(w.Exists, names[0])
		}
		if len(names) > 1 && r.Chance(1, 2) {
			w.Exists = append(w.Exists, names[1])
		}
	} else if r.Chance(1, 10) {
		w.Exists = append(w.Exists, Pick(r, names))
	}
	if r.Chance(3, 5) {
		return w // a quiet world
	}
	n := Pick(r, names)
	act := func(k int, do, name, class string) { w.Acts = append(w.Acts, c11Act{K: k, Do: do, Name: name, Class: class}) }
	switch r.Intn(9) {
	case 0: // the cache is behind: the CRD was modified and the informer has not caught up (yet)
		act(0, "bump", n, "")
		if r.Bool() {
			act(r.Range(1, 8), "sync", n, "")
		}
	case 1: // a CRD created a moment ago that the cache does not have (yet)
		act(0, "create", n, "")
		if r.Bool() {
			act(r.Range(1, 4), "sync", n, "")
		}
	case 2: // created by somebody else between the webhook's read and its write
		act(r.Range(1, 3), "create", n, "")
	case 3: // deleted by somebody else (garbage collector, user) between read and write; maybe still cached
		act(r.Range(0, 3), "delete", n, "")
		if r.Bool() {
			act(r.Range(1, 4), "sync", n, "")
		}
	case 4: // modified by somebody else between read and write, once or again and again
		for i, k := 0, r.Range(1, 6); i < k; i++ {
			act(1+2*i+r.Intn(2), "bump", n, "")
			if r.Chance(2, 3) {
				act(2+2*i, "sync", n, "")
			}
		}
	case 5: // deleted and re-created (same name, another object)
		k := r.Range(0, 2)
		act(k, "delete", n, "")
		act(k, "create", n, "")
		if r.Bool() {
			act(k+1, "sync", n, "")
		}
	case 6, 7: // one API call fails
		act(r.Intn(5), "err", "", Pick(r, c11ErrClasses))
		if r.Chance(1, 3) {
			act(r.Intn(6), "err", "", Pick(r, c11ErrClasses))
		}
	case 8: // anything
		for i, k := 0, r.Range(1, 4); i < k; i++ {
			do := Pick(r, []string{"bump", "delete", "create", "sync", "err"})
			cl := ""
			if do == "err" {
				cl = Pick(r, c11ErrClasses)
			}
			act(r.Intn(6), do, Pick(r, names), cl)
		}
	}
	sort.SliceStable(w.Acts, func(i, j int) bool { return w.Acts[i].K < w.Acts[j].K })
	return w
}

func c11GenServer(r *Rng, x c11XrdS, hasOld bool) c11Server {
	srv := c11Server{RejectXR: r.Chance(1, 8), RejectClaim: r.Chance(1, 8)}
	if r.Chance(1, 6) {
		ps := append(c11SpecPropNames(x), "region")
		srv.RejectProp = Pick(r, ps)
	}
	srv.WorldC = c11GenWorld(r, x, false)
	if hasOld {
		srv.WorldU = c11GenWorld(r, x, true)
	} else {
		srv.WorldU = &c11World{Exists: []string{}, Acts: []c11Act{}}
	}
	for _, n := range srv.WorldU.Exists {
		if n == x.Name {
			srv.ExistsXR = true
		} else {
			srv.ExistsClaim = true
		}
	}
	return srv
}

// c11GenNext is the next request the same process sees after `prev`: usually a new state of the
// SAME XRD (same name and UID; a version's schema replaced, a version added or dropped, claim names
// offered / withdrawn, a policy changed), sometimes an unrelated XRD.
func c11GenNext(r *Rng, prev c11XrdS, tier string) c11Scn {
	if r.Chance(1, 3) {
		s := c11Scn{Xrd: c11GenXrd(r, tier)}
		if r.Bool() {
			o := c11GenOld(r, s.Xrd)
			s.Old = &o
		}
		s.Server = c11GenServer(r, s.Xrd, s.Old != nil)
		return s
	}
	n := c11CloneXrd(prev)
	for i, k := 0, r.Range(1, 2); i < k; i++ {
		switch r.Intn(6) {
		case 0, 1:
			if len(n.Versions) > 0 {
				n.Versions[r.Intn(len(n.Versions))].Schema = c11GenSchema(r)
			}
		case 2:
			if len(n.Versions) > 1 {
				n.Versions = n.Versions[:len(n.Versions)-1]
			}
		case 3:
			if len(n.Versions) < 4 {
				n.Versions = append(n.Versions, c11Version{Name: fmt.Sprintf("v%d", 3+len(n.Versions)), Served: true, Columns: c11GenColumns(r), Schema: c11GenSchema(r)})
			}
		case 4:
			if n.ClaimNames == nil {
				c := c11GenNames(r, "Offered")
				n.ClaimNames = &c
			} else {
				n.ClaimNames = nil
			}
		case 5:
			p := Pick(r, []string{"Automatic", "Manual"})
			n.DefCUP = &p
		}
	}
	o := c11CloneXrd(prev)
	s := c11Scn{Xrd: n, Old: &o}
	s.Server = c11GenServer(r, s.Xrd, true)
	return s
}

func c11Gen(r *Rng, tier string) c11Scn {
	s := c11Scn{Xrd: c11GenXrd(r, tier)}
	if r.Chance(1, 2) {
		o := c11GenOld(r, s.Xrd)
		s.Old = &o
	}
	s.Server = c11GenServer(r, s.Xrd, s.Old != nil)
	s.More = []c11Scn{}
	if r.Chance(1, 3) {
		s.Recon = c11GenRecon(r, s.Xrd)
	}
	if r.Chance(1, 4) {
		prev := s.Xrd
		for i, k := 0, r.Range(1, 3); i < k; i++ {
			m := c11GenNext(r, prev, tier)
			m.More = []c11Scn{}
			s.More = append(s.More, m)
			prev = m.Xrd
		}
	}
	return s
}

//go:build verif

package main

// C20, supporting run (no model counterpart): the real initializer over the REAL
// directories cluster/crds and cluster/webhookconfigurations of the tree under
// test, twice, from an empty cluster. Monitors: both runs complete, the second
// one changes nothing and generates nothing, every webhook carries tls.crt of
// the webhook TLS secret, issued certificates verify (x509).

import (
	"bytes"
	"context"
	"fmt"
	"os"
	"path/filepath"
	"reflect"

	admv1 "k8s.io/api/admissionregistration/v1"
	corev1 "k8s.io/api/core/v1"
	"k8s.io/apimachinery/pkg/types"

	"github.com/crossplane/crossplane/internal/initializer"
)

type c20RealObs struct {
	Runs []string `json:"runs"`
	CRDs int      `json:"crds"`
	WHCs int      `json:"whcs"`
}

func c20RealDirs() (c20RealObs, []Mon, bool) {
	crds := filepath.Join(c20RepoDir(), "cluster", "crds")
	whcs := filepath.Join(c20RepoDir(), "cluster", "webhookconfigurations")
	if _, err := os.Stat(crds); err != nil {
		return c20RealObs{}, nil, false
	}
	var mons []Mon
	s := &c20Scn{Kind: "realdirs", NS: "crossplane-system", Fresh: 100, Real: true}
	c20Normalize(s)
	s.Steps = []c20Step{{T: "tls", CA: "crossplane-root-ca",
		Server: &c20TLSRef{Name: "crossplane-tls-server", DNS: initializer.DNSNamesForService("crossplane-webhooks", "crossplane-system")},
		Client: &c20TLSRef{Name: "crossplane-tls-client", DNS: []string{"crossplane.crossplane-system"}}}}
	w := c20NewWorld(s)
	nn := types.NamespacedName{Name: "crossplane-tls-server", Namespace: s.NS}
	port := int32(9443)
	mk := func() []initializer.Step {
		steps := c20RealSteps(w, s.NS, s.Steps)
		steps = append(steps,
			initializer.NewCoreCRDs(crds, w.scheme, initializer.WithWebhookTLSSecretRef(nn)),
			initializer.NewWebhookConfigurations(whcs, w.scheme, nn, admv1.ServiceReference{Name: "crossplane-webhooks", Namespace: s.NS, Port: &port}))
		for _, m := range c20Migrators() {
			steps = append(steps, initializer.NewCoreCRDsMigrator(m[0], m[1]))
		}
		return append(steps, initializer.NewLockObject(), initializer.NewPackageInstaller(nil, nil, nil),
			initializer.NewStoreConfigObject(s.NS), initializer.StepFunc(initializer.DefaultDeploymentRuntimeConfig))
	}
	obs := c20RealObs{Runs: []string{}}
	var prev map[string]string
	for i := 0; i < 2; i++ {
		st := w.st
		st.Revive()
		st.Log = nil
		gen0 := w.crypto.calls
		w.watch(s, -1, &mons)
		done := 0
		var err error
		if p := Guard(func() { err = initializer.New(st, c20Logger{&done}, mk()...).Init(context.Background()) }); p != "" {
			mons = append(mons, Mon{Sig: "C20:panic", Why: p})
		}
		st.After = nil
		st.Before = nil
		if err != nil {
			obs.Runs = append(obs.Runs, "err")
			mons = append(mons, Mon{Sig: "C20:real-dirs-failed", Why: "initialisation over the real cluster/ directories failed: " + err.Error()})
			break
		}
		obs.Runs = append(obs.Runs, "ok")
		cur := c20Content(c20Snap(st))
		if i == 1 {
			changed := 0
			for _, ci := range st.Log {
				if ci.Changed {
					changed++
				}
			}
			if !reflect.DeepEqual(prev, cur) || changed != 0 {
				why := fmt.Sprintf("a second complete run over the real cluster/ directories changed the store (%d changing writes):", changed)
				for k, v := range cur {
					if prev[k] != v {
						why += " " + k
					}
				}
				mons = append(mons, Mon{Sig: "C20:not-idempotent", Why: why})
			}
			if w.crypto.calls != gen0 {
				mons = append(mons, Mon{Sig: "C20:not-idempotent", Why: "a second complete run generated certificates"})
			}
		}
		prev = cur
	}
	// bundle
	var crt []byte
	if u := w.st.Peek(c20GKSecret, s.NS, "crossplane-tls-server"); u != nil {
		sec := &corev1.Secret{}
		c20From(u, sec)
		crt = sec.Data[corev1.TLSCertKey]
	}
	obs.CRDs = len(w.st.OfKind(c20GKCRD))
	for _, u := range w.st.OfKind(c20GKV) {
		o := &admv1.ValidatingWebhookConfiguration{}
		c20From(u, o)
		obs.WHCs++
		for _, h := range o.Webhooks {
			if len(crt) == 0 || !bytes.Equal(h.ClientConfig.CABundle, crt) {
				mons = append(mons, Mon{Sig: "C20:ca-bundle-missing", Why: "webhook " + h.Name + " of " + o.Name + " does not carry the current CA bundle (real directories)"})
			}
		}
	}
	return obs, mons, true
}

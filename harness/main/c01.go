//go:build verif

package main

// C01: composed resources are never leaked or duplicated, whatever fails
// mid-reconcile and whatever is missing from the informer cache; names are stable; a steady
// state is quiescent.

import (
	"encoding/json"
	"fmt"
)

type c01Obs struct {
	Rounds    []xwRoundObs `json:"rounds"`
	Quiescent bool         `json:"-"` // last round changed no object (all resourceVersions equal); monitor only
}

// "e" is of kind KA2: the same Kind name as KA, served by another API group
var c01KindOf = map[string]string{"a": "KA", "b": "KB", "c": "KA", "d": "KB", "e": "KA2"}
var c01RNames = []string{"a", "b", "c", "d", "e"}

func c01Desired(r *Rng) []xwDesired {
	ds := []xwDesired{}
	for _, n := range c01RNames {
		if r.Chance(1, 2) {
			d := xwDesired{RName: n, Kind: c01KindOf[n], Content: r.Intn(3), Ready: r.Chance(3, 4)}
			if r.Chance(1, 12) {
				d.Content = xwInvalidContent // the API server will reject this one as invalid
			}
			ds = append(ds, d)
		}
	}
	return ds
}

func c01Gen(r *Rng) xwScn {
	s := xwScn{Mode: Pick(r, []string{"fn", "fn", "pt"}), Fin: r.Bool(), Refs: []xwRef{}, Objs: []xwObj{}}
	s.Fresh = s.Mode == "fn" && r.Chance(1, 3)
	// pre-existing state
	if r.Chance(2, 3) {
		i := 0
		for _, n := range c01RNames {
			if !r.Chance(1, 2) {
				continue
			}
			i++
			o := xwObj{Kind: c01KindOf[n], Name: fmt.Sprintf("xr-pre%d", i), Annot: n, Ctrl: "xr", Content: r.Intn(3), SSA: s.Mode == "fn"}
			if o.Kind == "KA2" && r.Chance(2, 3) {
				// the same metadata.name as an object of Kind KA in the other group
				for _, p := range s.Objs {
					if p.Kind == "KA" {
						o.Name = p.Name
					}
				}
			}
			switch r.Intn(10) {
			case 0:
				o.Ctrl = "other"
			case 1:
				o.Ctrl = "none"
			case 2:
				o.Fin, o.Deleting = true, true
			case 3:
				o.Fin = true
			}
			switch r.Intn(8) {
			case 0: // referenced but missing
				s.Refs = append(s.Refs, xwRef{Kind: o.Kind, Name: o.Name})
			case 1: // exists (foreign/uncontrolled only) but not referenced
				if o.Ctrl != "xr" {
					s.Objs = append(s.Objs, o)
				} else {
					s.Objs = append(s.Objs, o)
					s.Refs = append(s.Refs, xwRef{Kind: o.Kind, Name: o.Name})
				}
			default:
				s.Objs = append(s.Objs, o)
				s.Refs = append(s.Refs, xwRef{Kind: o.Kind, Name: o.Name})
			}
		}
	}
	n := r.Range(1, 3)
	for i := 0; i < n; i++ {
		rd := xwRound{Desired: c01Desired(r)}
		if r.Chance(1, 4) {
			rd.Ver = Pick(r, []string{"v2", "v1beta1"})
		}
		if r.Chance(1, 2) {
			rd.Fault = &xwFault{K: r.Intn(14), O: Pick(r, []string{"fail", "conflict", "crashBefore", "crashAfter"})}
		}
		if s.Mode == "fn" && r.Chance(1, 8) {
			rd.FnErr = Pick(r, []string{"error", "fatal"})
		}
		// informer-cache misses: some referenced resources that exist when the round starts (odd
		// selectors: preferably ones created in the previous round) are missing from the cache
		if r.Chance(1, 3) {
			rd.MissSel = []int{r.Intn(1000)}
			if r.Chance(1, 3) {
				rd.MissSel = append(rd.MissSel, r.Intn(1000))
			}
			if r.Chance(1, 2) {
				// aim the fault at the reads in front of the first write (the cached read, the live
				// fallback read, the name probes)
				rd.Fault = &xwFault{K: r.Intn(7), O: Pick(r, []string{"fail", "fail", "conflict", "crashBefore", "crashAfter"})}
			}
		}
		s.Rounds = append(s.Rounds, rd)
	}
	// fault-free rounds to quiescence with the last desired state
	last := s.Rounds[len(s.Rounds)-1]
	for i := 0; i < 3; i++ {
		rd := xwRound{Desired: last.Desired, Ver: last.Ver}
		if r.Chance(1, 6) {
			// a steady state stays quiescent (function composer) when resources are missing from the cache
			rd.MissSel = []int{r.Intn(1000)}
		}
		s.Rounds = append(s.Rounds, rd)
	}
	return s
}

func c01Run(s *xwScn) (c01Obs, []Mon) {
	w := xwNewWorld(*s)
	obs := c01Obs{}
	var before map[string]string
	created := []xwRef{} // composed resources created in the previous round
	for i := range s.Rounds {
		if i == len(s.Rounds)-1 {
			before = w.St.Snapshot()
		}
		rd := &s.Rounds[i]
		if rd.Miss == nil && len(rd.MissSel) > 0 {
			rd.Miss = w.pickMiss(rd.MissSel, created)
		}
		rd.MissSel = nil
		_, objs0, _ := w.view()
		had := map[string]bool{}
		for _, o := range objs0 {
			had[o.Kind+"/"+o.Name] = true
		}
		obs.Rounds = append(obs.Rounds, w.xwRunRound(s.Mode, rd, nil))
		created = created[:0]
		_, objs1, _ := w.view()
		for _, o := range objs1 {
			if !had[o.Kind+"/"+o.Name] {
				created = append(created, xwRef{Kind: o.Kind, Name: o.Name})
			}
		}
	}
	after := w.St.Snapshot()
	obs.Quiescent = len(before) == len(after)
	for k, v := range before {
		if after[k] != v {
			obs.Quiescent = false
		}
	}
	// the quiescence clause applies when the trailing fault-free rounds (>=3 identical ones) exist
	n := len(s.Rounds)
	steady := n >= 3 && s.Rounds[n-1].Fault == nil && s.Rounds[n-2].Fault == nil && s.Rounds[n-3].Fault == nil &&
		s.Rounds[n-1].FnErr == "" && s.Rounds[n-2].FnErr == "" && mustJSON(s.Rounds[n-1].Desired) == mustJSON(s.Rounds[n-2].Desired) &&
		mustJSON(s.Rounds[n-2].Desired) == mustJSON(s.Rounds[n-3].Desired) && s.Rounds[n-1].Ver == s.Rounds[n-2].Ver && s.Rounds[n-2].Ver == s.Rounds[n-3].Ver
	if steady && !obs.Quiescent && obs.Rounds[n-1].Result == "success" && obs.Rounds[n-2].Result == "success" {
		diff := ""
		for k, v := range before {
			if after[k] != v {
				diff = k
			}
		}
		w.mon("C01:not-quiescent", "a steady-state reconcile changed an object: "+diff)
	}
	return obs, w.mons
}

func c01Cls(s *xwScn, o c01Obs) string {
	faults, crashed, errs, missed := 0, 0, 0, 0
	for i, r := range s.Rounds {
		if r.Fault != nil {
			faults++
		}
		if len(r.Miss) > 0 {
			missed++
		}
		switch o.Rounds[i].Result {
		case "crashed":
			crashed++
		case "error":
			errs++
		}
	}
	return fmt.Sprintf("%s/pre=%d/rounds=%d/faults=%d/crashed=%d/err=%d/miss=%d", s.Mode, len(s.Objs), len(s.Rounds), faults, crashed, errs, missed)
}

func init() {
	Register("C01", func(c *Ctx) {
		for _, raw := range c.Corpus {
			var s xwScn
			if err := json.Unmarshal(raw, &s); err == nil && len(s.Rounds) > 0 {
				obs, mons := c01Run(&s)
				c.Emit(s, obs, mons, "corpus")
			}
		}
		for i := 0; i < c.N; i++ {
			s := c01Gen(c.Rng)
			if c.Tier == "thorough" && i%4 == 0 {
				// exhaustive single-fault sweep of the first round: every call index x outcome
				base := s
				base.Rounds = append([]xwRound{}, s.Rounds...)
				base.Rounds[0].Fault = nil
				probe := base
				probe.Rounds = append([]xwRound{}, base.Rounds...)
				o, _ := c01Run(&probe)
				// the swept (first) reconcile keeps the cache misses picked in the fault-free probe run;
				// later reconciles pick theirs in every run (their objects carry fresh random names)
				base.Rounds[0].Miss, base.Rounds[0].MissSel = probe.Rounds[0].Miss, nil
				calls := len(o.Rounds[0].Calls)
				for k := 0; k < calls; k++ {
					for _, oc := range []string{"fail", "conflict", "crashBefore", "crashAfter"} {
						v := base
						v.Rounds = append([]xwRound{}, base.Rounds...)
						v.Rounds[0].Fault = &xwFault{K: k, O: oc}
						obs, mons := c01Run(&v)
						c.Emit(v, obs, mons, "sweep/"+c01Cls(&v, obs))
					}
				}
				continue
			}
			obs, mons := c01Run(&s)
			c.Emit(s, obs, mons, c01Cls(&s, obs))
		}
	})
}

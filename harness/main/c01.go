//go:build verif

package main

// C01: composed resources are never leaked or duplicated, whatever fails
// mid-reconcile and whatever is missing from the informer cache; names are stable; a steady
// state is quiescent.

import (
	"encoding/json"
	"fmt"

	corev1 "k8s.io/api/core/v1"
	"k8s.io/apimachinery/pkg/apis/meta/v1/unstructured"
)

type c01Obs struct {
	Rounds    []xwRoundObs `json:"rounds"`
	Quiescent bool         `json:"-"` // last round changed no object (all resourceVersions equal); monitor only
	Taken     int          `json:"-"` // taken candidates the name generator drew (class only)
	Stale     int          `json:"-"` // rounds whose first read of the XR was outdated (class only)
	NS        int          `json:"-"` // rounds run with namespaced desired resources (class only)
}

// "e" is of kind KA2: the same Kind name as KA, served by another API group
var c01KindOf = map[string]string{"a": "KA", "b": "KB", "c": "KA", "d": "KB", "e": "KA2"}
var c01RNames = []string{"a", "b", "c", "d", "e"}

func c01Desired(r *Rng) []xwDesired {
	ds := []xwDesired{}
	for _, n := range c01RNames {
		if r.Chance(1, 2) {
			d := xwDesired{RName: n, Kind: c01KindOf[n], Content: r.Intn(3), Ready: r.Chance(3, 4)}
			if r.Chance(1, 12) {
				d.Content = xwInvalidContent // the API server will reject this one as invalid
			}
			ds = append(ds, d)
		}
	}
	return ds
}

func c01Gen(r *Rng) xwScn {
	s := xwScn{Mode: Pick(r, []string{"fn", "fn", "pt"}), Fin: r.Bool(), Refs: []xwRef{}, Objs: []xwObj{}}
	s.Fresh = s.Mode == "fn" && r.Chance(1, 3)
	// pre-existing state
	if r.Chance(2, 3) {
		i := 0
		for _, n := range c01RNames {
			if !r.Chance(1, 2) {
				continue
			}
			i++
			o := xwObj{Kind: c01KindOf[n], Name: fmt.Sprintf("xr-pre%d", i), Annot: n, Ctrl: "xr", Content: r.Intn(3), SSA: s.Mode == "fn"}
			if o.Kind == "KA2" && r.Chance(2, 3) {
				// the same metadata.name as an object of Kind KA in the other group
				for _, p := range s.Objs {
					if p.Kind == "KA" {
						o.Name = p.Name
					}
				}
			}
			switch r.Intn(10) {
			case 0:
				o.Ctrl = "other"
			case 1:
				o.Ctrl = "none"
			case 2:
				o.Fin, o.Deleting = true, true
			case 3:
				o.Fin = true
			}
			switch r.Intn(8) {
			case 0: // referenced but missing
				s.Refs = append(s.Refs, xwRef{Kind: o.Kind, Name: o.Name})
			case 1: // exists (foreign/uncontrolled only) but not referenced
				if o.Ctrl != "xr" {
					s.Objs = append(s.Objs, o)
				} else {
					s.Objs = append(s.Objs, o)
					s.Refs = append(s.Refs, xwRef{Kind: o.Kind, Name: o.Name})
				}
			default:
				s.Objs = append(s.Objs, o)
				s.Refs = append(s.Refs, xwRef{Kind: o.Kind, Name: o.Name})
			}
		}
	}
	n := r.Range(1, 3)
	for i := 0; i < n; i++ {
		rd := xwRound{Desired: c01Desired(r)}
		if r.Chance(1, 4) {
			rd.Ver = Pick(r, []string{"v2", "v1beta1"})
		}
		if r.Chance(1, 2) {
			rd.Fault = &xwFault{K: r.Intn(14), O: Pick(r, []string{"fail", "conflict", "crashBefore", "crashAfter"})}
		}
		if s.Mode == "fn" && r.Chance(1, 8) {
			rd.FnErr = Pick(r, []string{"error", "fatal"})
		}
		// informer-cache misses: some referenced resources that exist when the round starts (odd
		// selectors: preferably ones created in the previous round) are missing from the cache
		if r.Chance(1, 3) {
			rd.MissSel = []int{r.Intn(1000)}
			if r.Chance(1, 3) {
				rd.MissSel = append(rd.MissSel, r.Intn(1000))
			}
			if r.Chance(1, 2) {
				// aim the fault at the reads in front of the first write (the cached read, the live
				// fallback read, the name probes)
				rd.Fault = &xwFault{K: r.Intn(7), O: Pick(r, []string{"fail", "fail", "conflict", "crashBefore", "crashAfter"})}
			}
		}
		s.Rounds = append(s.Rounds, rd)
	}
	// fault-free rounds to quiescence with the last desired state
	last := s.Rounds[len(s.Rounds)-1]
	for i := 0; i < 3; i++ {
		rd := xwRound{Desired: last.Desired, Ver: last.Ver}
		if r.Chance(1, 6) {
			// a steady state stays quiescent (function composer) when resources are missing from the cache
			rd.MissSel = []int{r.Intn(1000)}
		}
		s.Rounds = append(s.Rounds, rd)
	}
	return s
}

// c01GenX adds the C01-only dimension to an XR-world scenario: rounds in which the name generator
// first draws candidates that are already taken (0..11 of them per generated name; the real
// generator gives up after maxTries = 10 probes).
func c01GenX(r *Rng) c01Scn {
	s := c01Scn{xwScn: c01Gen(r)}
	if s.Mode == "fn" && r.Chance(1, 5) {
		// namespaced composed resources: per desired resource name a home namespace; in every
		// round the function emits the same namespace, ANOTHER one, or none for it (an existing
		// resource keeps the namespace it was created in, whatever the function says). No cache
		// misses / scripted candidates in this family (they are selected by unqualified name).
		home := map[string]string{}
		for _, n := range c01RNames {
			home[n] = Pick(r, []string{"team-a", "team-a", "team-b", ""})
		}
		s.NS = make([]map[string]string, len(s.Rounds))
		for i := range s.Rounds {
			s.Rounds[i].MissSel = nil
			if i >= len(s.Rounds)-3 && i > 0 {
				s.NS[i] = s.NS[i-1] // the steady state keeps the last output
				continue
			}
			m := map[string]string{}
			for _, d := range s.Rounds[i].Desired {
				switch r.Intn(4) {
				case 0:
					m[d.RName] = Pick(r, []string{"team-b", "team-c"})
				case 1:
					// none
				default:
					m[d.RName] = home[d.RName]
				}
				if m[d.RName] == "" {
					delete(m, d.RName)
				}
			}
			s.NS[i] = m
		}
		return s
	}
	if s.Mode == "pt" && r.Chance(1, 2) {
		// lagging first read of the XR in some of the rounds before the trailing fault-free ones
		s.StaleSel = make([]bool, len(s.Rounds))
		for i := 1; i < len(s.Rounds)-2; i++ {
			s.StaleSel[i] = r.Chance(2, 3)
		}
	}
	if !r.Chance(2, 5) {
		return s
	}
	n := len(s.Rounds) - 3 // the trailing fault-free rounds generate no new names once settled
	if n < 1 {
		n = 1
	}
	// names taken by somebody else's objects (another XR with the same name prefix): unreferenced,
	// controlled by another owner, visible in the cache
	for _, k := range []string{"KA", "KB", "KA2"} {
		if k == "KA2" && !r.Chance(1, 2) {
			continue
		}
		rn := "e"
		if k != "KA2" {
			rn = Pick(r, []string{"a", "c"})
			if k == "KB" {
				rn = Pick(r, []string{"b", "d"})
			}
		}
		s.Objs = append(s.Objs, xwObj{Kind: k, Name: "xr-taken" + k, Annot: rn, Ctrl: "other", Content: r.Intn(3)})
	}
	s.Collide = make([][]int, len(s.Rounds))
	for i := 0; i < n; i++ {
		if !r.Chance(2, 3) {
			continue
		}
		k := r.Range(1, 3)
		for j := 0; j < k; j++ {
			s.Collide[i] = append(s.Collide[i], Pick(r, []int{0, 1, 1, 2, 3, 9, 10, 10, 11}))
		}
		if r.Chance(1, 3) {
			// aim the fault at the probes
			s.Rounds[i].Fault = &xwFault{K: r.Intn(8), O: Pick(r, []string{"fail", "conflict", "crashBefore", "crashAfter"})}
		}
	}
	return s
}

// c01Run runs a plain XR-world scenario (no scripted candidates).
func c01Run(s *xwScn) (c01Obs, []Mon) {
	cs := c01Scn{xwScn: *s}
	o, m := c01RunX(&cs)
	*s = cs.xwScn
	return o, m
}

func c01RunX(s *c01Scn) (c01Obs, []Mon) {
	w := xwNewWorld(s.xwScn)
	obs := c01Obs{}
	nm := &c01Namer{}
	if len(s.Conn) > 0 {
		// connection secrets are typed reads (corev1.Secret): the store's scheme must know the type
		_ = corev1.AddToScheme(w.St.Scheme())
		nm.conn = map[string]bool{}
		for _, n := range s.Conn {
			nm.conn[n] = true
		}
		for _, n := range s.ConnHave {
			sec := &unstructured.Unstructured{}
			sec.SetAPIVersion("v1")
			sec.SetKind("Secret")
			sec.SetNamespace("secrets")
			sec.SetName("conn-" + n)
			_ = unstructured.SetNestedField(sec.Object, "dXNlcg==", "data", "user")
			w.St.Seed(sec)
		}
	}
	staleReq := s.StaleSel
	if staleReq == nil {
		staleReq = s.Stale // replay
	}
	staleEff := make([]bool, len(s.Rounds))
	var prevXR *unstructured.Unstructured // the XR when the previous round started
	var before map[string]string
	created := []xwRef{} // composed resources created in the previous round
	for i := range s.Rounds {
		if i == len(s.Rounds)-1 {
			before = w.St.Snapshot()
		}
		rd := &s.Rounds[i]
		if rd.Miss == nil && len(rd.MissSel) > 0 {
			rd.Miss = w.pickMiss(rd.MissSel, created)
		}
		rd.MissSel = nil
		_, objs0, _ := w.view()
		had := map[string]bool{}
		for _, o := range objs0 {
			had[o.Kind+"/"+o.Name] = true
		}
		// the long-lived reconciler/composer of this process, with the scripted suffix source
		if w.rec == nil || w.recMode != s.Mode {
			w.rec, w.recMode = c01NewReconciler(w, s.Mode, nm), s.Mode
		}
		var plan []int
		if i < len(s.Collide) {
			plan = s.Collide[i]
		}
		nm.startRound(plan)
		nm.ns = nil
		var extra func()
		if s.Mode == "fn" && len(s.NS) > 0 {
			if i < len(s.NS) {
				nm.ns = s.NS[i]
			}
			extra = func() { c01CheckInstantNS(w) }
		}
		// a lagging first read of the XR (P&T): the version of the previous round's start, when it
		// differs in finalizers or references
		curXR := w.St.Peek(xwXRGVK.GroupKind(), "", xwXRName).DeepCopy()
		nm.staleXR = nil
		if s.Mode == "pt" && i < len(staleReq) && staleReq[i] && prevXR != nil {
			a, _, _ := unstructured.NestedFieldNoCopy(prevXR.Object, "spec", "resourceRefs")
			b, _, _ := unstructured.NestedFieldNoCopy(curXR.Object, "spec", "resourceRefs")
			if mustJSON(a) != mustJSON(b) || mustJSON(prevXR.GetFinalizers()) != mustJSON(curXR.GetFinalizers()) {
				nm.staleXR, staleEff[i] = prevXR, true
				obs.Stale++
			}
		}
		prevXR = curXR
		ro := w.xwRunRound(s.Mode, rd, extra)
		if extra != nil {
			c01QualifyRound(w, nm, nm.ns, &ro)
		}
		obs.Rounds = append(obs.Rounds, ro)
		nm.staleXR = nil
		// every candidate the generator drew, with the resource it was drawn for
		rd.Hints.Gen = nm.rec
		if extra != nil {
			q := [][2]string{}
			for _, p := range nm.rec {
				q = append(q, [2]string{p[0], c01Qual(nm.ns[p[0]], p[1])})
			}
			rd.Hints.Gen = q
			obs.NS++
		}
		obs.Taken += nm.taken
		created = created[:0]
		_, objs1, _ := w.view()
		for _, o := range objs1 {
			if !had[o.Kind+"/"+o.Name] {
				created = append(created, xwRef{Kind: o.Kind, Name: o.Name})
			}
		}
	}
	s.Stale = nil
	for _, e := range staleEff {
		if e {
			s.Stale = staleEff
		}
	}
	after := w.St.Snapshot()
	obs.Quiescent = len(before) == len(after)
	for k, v := range before {
		if after[k] != v {
			obs.Quiescent = false
		}
	}
	// the quiescence clause applies when the trailing fault-free rounds (>=3 identical ones) exist
	n := len(s.Rounds)
	steady := n >= 3 && s.Rounds[n-1].Fault == nil && s.Rounds[n-2].Fault == nil && s.Rounds[n-3].Fault == nil &&
		s.Rounds[n-1].FnErr == "" && s.Rounds[n-2].FnErr == "" && mustJSON(s.Rounds[n-1].Desired) == mustJSON(s.Rounds[n-2].Desired) &&
		mustJSON(s.Rounds[n-2].Desired) == mustJSON(s.Rounds[n-3].Desired) && s.Rounds[n-1].Ver == s.Rounds[n-2].Ver && s.Rounds[n-2].Ver == s.Rounds[n-3].Ver
	if steady && !obs.Quiescent && obs.Rounds[n-1].Result == "success" && obs.Rounds[n-2].Result == "success" {
		diff := ""
		for k, v := range before {
			if after[k] != v {
				diff = k
			}
		}
		w.mon("C01:not-quiescent", "a steady-state reconcile changed an object: "+diff)
	}
	return obs, w.mons
}

func c01Cls(s *xwScn, o c01Obs) string {
	c := c01ClsBase(s, o)
	switch {
	case o.Taken >= 10:
		c += "/taken=10+"
	case o.Taken > 0:
		c += "/taken=1-9"
	}
	if o.Stale > 0 {
		c += "/staleXR"
	}
	if o.NS > 0 {
		c += "/ns"
	}
	return c
}

func c01ClsBase(s *xwScn, o c01Obs) string {
	faults, crashed, errs, missed := 0, 0, 0, 0
	for i, r := range s.Rounds {
		if r.Fault != nil {
			faults++
		}
		if len(r.Miss) > 0 {
			missed++
		}
		switch o.Rounds[i].Result {
		case "crashed":
			crashed++
		case "error":
			errs++
		}
	}
	return fmt.Sprintf("%s/pre=%d/rounds=%d/faults=%d/crashed=%d/err=%d/miss=%d", s.Mode, len(s.Objs), len(s.Rounds), faults, crashed, errs, missed)
}

// c01GenConn: the monitor-only family for the connection-secret read of ObserveComposedResources.
// Round 0 creates 2-4 composed resources, some with a connection secret reference; round 1
// re-emits them (plus/minus one) with a server error on one of the API calls of its observe phase
// - found by a fault-free probe run: the reads of the secrets included -, then three fault-free
// rounds. The error class (internal error, timeout, 429, no kind match, ...) is drawn by the XR
// world from the scenario.
func c01GenConn(r *Rng) c01Scn {
	s := c01Scn{Direct: true}
	s.Mode, s.Fin, s.Refs, s.Objs = "fn", r.Bool(), []xwRef{}, []xwObj{}
	ds := []xwDesired{}
	for _, n := range c01RNames {
		if r.Chance(3, 5) {
			ds = append(ds, xwDesired{RName: n, Kind: c01KindOf[n], Content: r.Intn(3), Ready: r.Bool()})
		}
	}
	if len(ds) == 0 {
		ds = append(ds, xwDesired{RName: "a", Kind: "KA", Content: 1, Ready: true})
	}
	for _, d := range ds {
		if r.Chance(2, 3) {
			s.Conn = append(s.Conn, d.RName)
			if r.Bool() {
				s.ConnHave = append(s.ConnHave, d.RName)
			}
		}
	}
	if len(s.Conn) == 0 {
		s.Conn = []string{ds[0].RName}
	}
	d1 := append([]xwDesired{}, ds...)
	if len(d1) > 1 && r.Chance(1, 3) {
		d1 = d1[:len(d1)-1]
	}
	s.Rounds = []xwRound{{Desired: ds}, {Desired: d1}, {Desired: d1}, {Desired: d1}, {Desired: d1}}
	return s
}

// c01EmitConn runs the family: a fault-free probe tells how many calls the observe phase of
// round 1 issues (everything before the first write); the fault is aimed at one of them.
func c01EmitConn(c *Ctx, s c01Scn) {
	probe := s
	probe.Rounds = append([]xwRound{}, s.Rounds...)
	o, _ := c01RunX(&probe)
	reads := 0
	for _, call := range o.Rounds[1].Calls {
		if len(call) < 4 || call[:4] != "get " {
			break
		}
		reads++
	}
	if reads > 1 {
		s.Rounds = append([]xwRound{}, s.Rounds...)
		s.Rounds[1].Fault = &xwFault{K: 1 + c.Rng.Intn(reads-1), O: Pick(c.Rng, []string{"fail", "fail", "fail", "crashBefore"})}
	}
	obs, mons := c01RunX(&s)
	sec := 0
	for _, rd := range obs.Rounds {
		for _, call := range rd.Calls {
			if len(call) > 11 && call[:11] == "get Secret/" {
				sec++
			}
		}
	}
	cls := fmt.Sprintf("direct-conn/desired=%d/conn=%d/have=%d/secretReads=%d/%s", len(s.Rounds[0].Desired), len(s.Conn), len(s.ConnHave), min(sec, 9), obs.Rounds[1].Result)
	c.Emit(s, struct{}{}, mons, cls)
}

func init() {
	Register("C01", func(c *Ctx) {
		for _, raw := range c.Corpus {
			var s c01Scn
			if err := json.Unmarshal(raw, &s); err == nil && len(s.Rounds) > 0 {
				obs, mons := c01RunX(&s)
				if s.Direct {
					c.Emit(s, struct{}{}, mons, "corpus")
					continue
				}
				c.Emit(s, obs, mons, "corpus")
			}
		}
		for i := 0; i < c.N; i++ {
			if i%8 == 7 {
				c01EmitConn(c, c01GenConn(c.Rng))
				continue
			}
			s := c01GenX(c.Rng)
			if c.Tier == "thorough" && i%4 == 0 {
				// exhaustive single-fault sweep of the first round: every call index x outcome
				base := s
				base.Rounds = append([]xwRound{}, s.Rounds...)
				base.Rounds[0].Fault = nil
				probe := base
				probe.Rounds = append([]xwRound{}, base.Rounds...)
				o, _ := c01RunX(&probe)
				// the swept (first) reconcile keeps the cache misses picked in the fault-free probe run;
				// later reconciles pick theirs in every run (their objects carry fresh random names)
				base.Rounds[0].Miss, base.Rounds[0].MissSel = probe.Rounds[0].Miss, nil
				calls := len(o.Rounds[0].Calls)
				for k := 0; k < calls; k++ {
					for _, oc := range []string{"fail", "conflict", "crashBefore", "crashAfter"} {
						v := base
						v.Rounds = append([]xwRound{}, base.Rounds...)
						v.Rounds[0].Fault = &xwFault{K: k, O: oc}
						obs, mons := c01RunX(&v)
						c.Emit(v, obs, mons, "sweep/"+c01Cls(&v.xwScn, obs))
					}
				}
				continue
			}
			obs, mons := c01RunX(&s)
			c.Emit(s, obs, mons, c01Cls(&s.xwScn, obs))
		}
	})
}

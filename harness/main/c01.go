//go:build verif

package main

// C01: composed resources are never leaked or duplicated, whatever fails
// mid-reconcile; names are stable; a steady state is quiescent.

import (
	"encoding/json"
	"fmt"
)

type c01Obs struct {
	Rounds    []xwRoundObs `json:"rounds"`
	Quiescent bool         `json:"-"` // last round changed no object (all resourceVersions equal); monitor only
}

// "e" is of kind KA2: the same Kind name as KA, served by another API group
var c01KindOf = map[string]string{"a": "KA", "b": "KB", "c": "KA", "d": "KB", "e": "KA2"}
var c01RNames = []string{"a", "b", "c", "d", "e"}

func c01Desired(r *Rng) []xwDesired {
	ds := []xwDesired{}
	for _, n := range c01RNames {
		if r.Chance(1, 2) {
			d := xwDesired{RName: n, Kind: c01KindOf[n], Content: r.Intn(3), Ready: r.Chance(3, 4)}
			if r.Chance(1, 12) {
				d.Content = xwInvalidContent // the API server will reject this one as invalid
			}
			ds = append(ds, d)
		}
	}
	return ds
}

func c01Gen(r *Rng) xwScn {
	s := xwScn{Mode: Pick(r, []string{"fn", "fn", "pt"}), Fin: r.Bool(), Refs: []xwRef{}, Objs: []xwObj{}}
	s.Fresh = s.Mode == "fn" && r.Chance(1, 3)
	// pre-existing state
	if r.Chance(2, 3) {
		i := 0
		for _, n := range c01RNames {
			if !r.Chance(1, 2) {
				continue
			}
			i++
			o := xwObj{Kind: c01KindOf[n], Name: fmt.Sprintf("xr-pre%d", i), Annot: n, Ctrl: "xr", Content: r.Intn(3), SSA: s.Mode == "fn"}
			if o.Kind == "KA2" && r.Chance(2, 3) {
				// the same metadata.name as an object of Kind KA in the other group
				for _, p := range s.Objs {
					if p.Kind == "KA" {
						o.Name = p.Name
					}
				}
			}
			switch r.Intn(10) {
			case 0:
				o.Ctrl = "other"
			case 1:
				o.Ctrl = "none"
			case 2:
				o.Fin, o.Deleting = true, true
			case 3:
				o.Fin = true
			}
			switch r.Intn(8) {
			case 0: // referenced but missing
				s.Refs = append(s.Refs, xwRef{Kind: o.Kind, Name: o.Name})
			case 1: // exists (foreign/uncontrolled only) but not referenced
				if o.Ctrl != "xr" {
					s.Objs = append(s.Objs, o)
				} else {
					s.Objs = append(s.Objs, o)
					s.Refs = append(s.Refs, xwRef{Kind: o.Kind, Name: o.Name})
				}
			default:
				s.Objs = append(s.Objs, o)
				s.Refs = append(s.Refs, xwRef{Kind: o.Kind, Name: o.Name})
			}
		}
	}
	n := r.Range(1, 3)
	for i := 0; i < n; i++ {
		rd := xwRound{Desired: c01Desired(r)}
		if r.Chance(1, 4) {
			rd.Ver = Pick(r, []string{"v2", "v1beta1"})
		}
		if r.Chance(1, 2) {
			rd.Fault = &xwFault{K: r.Intn(14), O: Pick(r, []string{"fail", "conflict", "crashBefore", "crashAfter"})}
		}
		if s.Mode == "fn" && r.Chance(1, 8) {
			rd.FnErr = Pick(r, []string{"error", "fatal"})
		}
		s.Rounds = append(s.Rounds, rd)
	}
	// fault-free rounds to quiescence with the last desired state
	last := s.Rounds[len(s.Rounds)-1]
	for i := 0; i < 3; i++ {
		s.Rounds = append(s.Rounds, xwRound{Desired: last.Desired, Ver: last.Ver})
	}
	return s
}

func c01Run(s *xwScn) (c01Obs, []Mon) {
	w := xwNewWorld(*s)
	obs := c01Obs{}
	var before map[string]string
	for i := range s.Rounds {
		if i == len(s.Rounds)-1 {
			before = w.St.Snapshot()
		}
		obs.Rounds = append(obs.Rounds, w.xwRunRound(s.Mode, &s.Rounds[i], nil))
	}
	after := w.St.Snapshot()
	obs.Quiescent = len(before) == len(after)
	for k, v := range before {
		if after[k] != v {
			obs.Quiescent = false
		}
	}
	// the quiescence clause applies when the trailing fault-free rounds (>=3 identical ones) exist
	n := len(s.Rounds)
	steady := n >= 3 && s.Rounds[n-1].Fault == nil && s.Rounds[n-2].Fault == nil && s.Rounds[n-3].Fault == nil &&
		s.Rounds[n-1].FnErr == "" && s.Rounds[n-2].FnErr == "" && mustJSON(s.Rounds[n-1].Desired) == mustJSON(s.Rounds[n-2].Desired) &&
		mustJSON(s.Rounds[n-2].Desired) == mustJSON(s.Rounds[n-3].Desired) && s.Rounds[n-1].Ver == s.Rounds[n-2].Ver && s.Rounds[n-2].Ver == s.Rounds[n-3].Ver
	if steady && !obs.Quiescent && obs.Rounds[n-1].Result == "success" && obs.Rounds[n-2].Result == "success" {
		diff := ""
		for k, v := range before {
			if after[k] != v {
				diff = k
			}
		}
		w.mon("C01:not-quiescent", "a steady-state reconcile changed an object: "+diff)
	}
	return obs, w.mons
}

func c01Cls(s *xwScn, o c01Obs) string {
	faults, crashed, errs := 0, 0, 0
	for i, r := range s.Rounds {
		if r.Fault != nil {
			faults++
		}
		switch o.Rounds[i].Result {
		case "crashed":
			crashed++
		case "error":
			errs++
		}
	}
	return fmt.Sprintf("%s/pre=%d/rounds=%d/faults=%d/crashed=%d/err=%d", s.Mode, len(s.Objs), len(s.Rounds), faults, crashed, errs)
}

func init() {
	Register("C01", func(c *Ctx) {
		for _, raw := range c.Corpus {
			var s xwScn
			if err := json.Unmarshal(raw, &s); err == nil && len(s.Rounds) > 0 {
				obs, mons := c01Run(&s)
				c.Emit(s, obs, mons, "corpus")
			}
		}
		for i := 0; i < c.N; i++ {
			s := c01Gen(c.Rng)
			if c.Tier == "thorough" && i%4 == 0 {
				// exhaustive single-fault sweep of the first round: every call index x outcome
				base := s
				base.Rounds = append([]xwRound{}, s.Rounds...)
				base.Rounds[0].Fault = nil
				probe := base
				probe.Rounds = append([]xwRound{}, base.Rounds...)
				o, _ := c01Run(&probe)
				calls := len(o.Rounds[0].Calls)
				for k := 0; k < calls; k++ {
					for _, oc := range []string{"fail", "conflict", "crashBefore", "crashAfter"} {
						v := base
						v.Rounds = append([]xwRound{}, base.Rounds...)
						v.Rounds[0].Fault = &xwFault{K: k, O: oc}
						obs, mons := c01Run(&v)
						c.Emit(v, obs, mons, "sweep/"+c01Cls(&v, obs))
					}
				}
				continue
			}
			obs, mons := c01Run(&s)
			c.Emit(s, obs, mons, c01Cls(&s, obs))
		}
	})
}

//go:build verif

package main

// Shared go/ast fact extractor ("regenerated facts" tie, DESIGN 2.3 a): the ordered
// skeleton of calls of one Go function of the CURRENT source tree (VERIF_REPO, default
// /repo). A property's dump (RegisterDump) emits these lists into lean/Xp/Gen and its
// Props file states that the model's declared skeleton equals the regenerated one, so that
// inserting, removing or reordering a call in a modelled Go function breaks an obligation
// before any scenario is run. c06_dump.go is the first user (its own copy of the walker is
// kept as it is); new users should call SkelOf / SkelDef.

import (
	"fmt"
	"go/ast"
	"go/parser"
	"go/token"
	"os"
	"path/filepath"
	"strings"
)

// SkelRepo is the tree the skeletons are read from.
func SkelRepo() string {
	if r := os.Getenv("VERIF_REPO"); r != "" {
		return r
	}
	return "/repo"
}

// skelChain renders a call target as a dotted chain ("r.client.Status().Update" ->
// "r.client.Status.Update"; "kube.Get" -> "kube.Get"; "meta.AddFinalizer" -> "meta.AddFinalizer").
// ok=false for targets that are not a chain of selectors/calls rooted at an identifier.
func skelChain(e ast.Expr) (string, bool) {
	switch t := e.(type) {
	case *ast.Ident:
		return t.Name, true
	case *ast.SelectorExpr:
		p, ok := skelChain(t.X)
		if !ok {
			return "", false
		}
		return p + "." + t.Sel.Name, true
	case *ast.CallExpr:
		return skelChain(t.Fun)
	case *ast.ParenExpr:
		return skelChain(t.X)
	case *ast.IndexExpr:
		return skelChain(t.X)
	case *ast.TypeAssertExpr:
		return skelChain(t.X)
	}
	return "", false
}

// SkelOpts selects which calls make up a skeleton.
type SkelOpts struct {
	// Verbs: the final selector names that count (e.g. Get, Update, Patch ...). A call whose
	// final selector is not in Verbs is ignored unless Match accepts its whole chain.
	Verbs map[string]bool
	// Match, when set, additionally accepts a call by its whole chain.
	Match func(chain string) bool
	// DropRecv strips the receiver identifier ("r.client.Get" -> "client.Get"), so that
	// renaming the receiver variable is not reported.
	DropRecv bool
	// Returns, when true, also records every `return` statement as "return" (early exits).
	Returns bool
	// FuncLits: descend into function literals (closures) — default true when false is not forced.
	SkipFuncLits bool
	// Idents: plain (unqualified) function calls that count, by name (e.g. a package-local
	// helper `indexValue(...)`); recorded as the bare name. Default: none.
	Idents map[string]bool
}

// SkelVerbsAPI is the usual verb set: the client.Client verbs and the helpers built on them.
var SkelVerbsAPI = map[string]bool{
	"Get": true, "List": true, "Create": true, "Update": true, "Patch": true, "Delete": true,
	"DeleteAllOf": true, "Apply": true,
}

func SkelVerbs(extra ...string) map[string]bool {
	m := map[string]bool{}
	for k := range SkelVerbsAPI {
		m[k] = true
	}
	for _, e := range extra {
		m[e] = true
	}
	return m
}

// SkelOf returns the calls of function `fn` (method of recvType when recvType != "", plain
// function otherwise) in file (path relative to the repo root), in source order.
func SkelOf(relFile, recvType, fn string, o SkelOpts) ([]string, error) {
	file := filepath.Join(SkelRepo(), relFile)
	fset := token.NewFileSet()
	f, err := parser.ParseFile(fset, file, nil, 0)
	if err != nil {
		return nil, err
	}
	for _, d := range f.Decls {
		fd, ok := d.(*ast.FuncDecl)
		if !ok || fd.Name.Name != fn || fd.Body == nil {
			continue
		}
		root := ""
		if recvType == "" {
			if fd.Recv != nil {
				continue
			}
		} else {
			if fd.Recv == nil || len(fd.Recv.List) != 1 {
				continue
			}
			rt := fd.Recv.List[0].Type
			if st, ok := rt.(*ast.StarExpr); ok {
				rt = st.X
			}
			if ix, ok := rt.(*ast.IndexExpr); ok { // generic receiver
				rt = ix.X
			}
			if id, ok := rt.(*ast.Ident); !ok || id.Name != recvType {
				continue
			}
			if len(fd.Recv.List[0].Names) == 1 {
				root = fd.Recv.List[0].Names[0].Name
			}
		}
		out := []string{}
		ast.Inspect(fd.Body, func(n ast.Node) bool {
			switch t := n.(type) {
			case *ast.FuncLit:
				return !o.SkipFuncLits
			case *ast.ReturnStmt:
				if o.Returns {
					out = append(out, "return")
				}
				return true
			case *ast.CallExpr:
				if id, ok := t.Fun.(*ast.Ident); ok && o.Idents[id.Name] {
					out = append(out, id.Name)
					return true
				}
				sel, ok := t.Fun.(*ast.SelectorExpr)
				if !ok {
					return true
				}
				ch, ok := skelChain(t.Fun)
				if !ok {
					return true
				}
				if !(o.Verbs[sel.Sel.Name] || (o.Match != nil && o.Match(ch))) {
					return true
				}
				if o.DropRecv && root != "" && strings.HasPrefix(ch, root+".") {
					ch = ch[len(root)+1:]
				}
				out = append(out, ch)
			}
			return true
		})
		// ast.Inspect visits a call's Fun before its Args, i.e. an outer call before the calls
		// in its arguments; keep that (deterministic) order.
		return out, nil
	}
	return nil, fmt.Errorf("function %s.%s not found in %s", recvType, fn, relFile)
}

// SkelDef renders `def <leanName> : List String := [...]` for the Gen file; an extraction
// failure (renamed/moved function) yields a list no declared skeleton equals.
func SkelDef(leanName, relFile, recvType, fn string, o SkelOpts) string {
	sk, err := SkelOf(relFile, recvType, fn, o)
	if err != nil {
		sk = []string{"EXTRACTION FAILED: " + err.Error()}
	}
	who := fn
	if recvType != "" {
		who = recvType + "." + fn
	}
	return fmt.Sprintf("/-- call skeleton of %s (%s), source order, regenerated from the current tree -/\ndef %s : List String := %s\n", who, relFile, leanName, leanStrList(sk))
}

//go:build verif

package main

// C03, fifth scenario family (monitor-only, no model comparison): P&T XR worlds whose INITIAL
// spec.resourceRefs are not a set — the same live, XR-controlled composed resource referenced
// twice (refs restored from a backup, merged by hand), and two different referenced objects
// annotated with the same template name. Reconciled by the real Reconciler + PTComposer +
// GarbageCollectingAssociator; the clauses "deleted = referenced resources whose named template no
// longer exists" and "a still-desired resource is never touched" are evaluated on the real write
// log by c03CheckRound (C03:gc-touched-desired, C03:gc-outside-target-set, C03:gc-missed).
// (The C01 model's invariant assumes distinct annotations among referenced objects, so these
// initial states are outside the compared XR-world family.)

import "fmt"

type c03PtDupScn struct {
	PtDup bool `json:"ptdup"`
	xwScn
}

func c03PtDupGen(r *Rng) (c03PtDupScn, string) {
	s := c03PtDupScn{PtDup: true, xwScn: xwScn{Mode: "pt", Fin: r.Bool(), Refs: []xwRef{}, Objs: []xwObj{}}}
	names := []string{"a", "b", "c"}
	for i, n := range names {
		if r.Chance(3, 4) {
			o := xwObj{Kind: c01KindOf[n], Name: fmt.Sprintf("xr-pre%d", i), Annot: n, Ctrl: "xr", Content: r.Intn(3)}
			s.Objs = append(s.Objs, o)
			s.Refs = append(s.Refs, xwRef{Kind: o.Kind, Name: o.Name})
		}
	}
	dupRef, dupAnnot := 0, 0
	if len(s.Objs) > 0 && r.Chance(3, 4) {
		// the same object referenced twice (second entry anywhere in the list)
		o := s.Objs[r.Intn(len(s.Objs))]
		at := r.Intn(len(s.Refs) + 1)
		s.Refs = append(s.Refs[:at], append([]xwRef{{Kind: o.Kind, Name: o.Name}}, s.Refs[at:]...)...)
		dupRef = 1
	}
	if len(s.Objs) > 0 && r.Chance(1, 3) {
		// a second referenced object carrying the same template name
		o := s.Objs[r.Intn(len(s.Objs))]
		o2 := xwObj{Kind: o.Kind, Name: o.Name + "-twin", Annot: o.Annot, Ctrl: "xr", Content: r.Intn(3)}
		s.Objs = append(s.Objs, o2)
		s.Refs = append(s.Refs, xwRef{Kind: o2.Kind, Name: o2.Name})
		dupAnnot = 1
	}
	n := r.Range(1, 2)
	for i := 0; i < n; i++ {
		rd := xwRound{Desired: []xwDesired{}}
		for _, nm := range names {
			if r.Chance(3, 4) {
				rd.Desired = append(rd.Desired, xwDesired{RName: nm, Kind: c01KindOf[nm], Content: r.Intn(3), Ready: true})
			}
		}
		s.Rounds = append(s.Rounds, rd)
	}
	return s, fmt.Sprintf("ptdup/dupref=%d/dupannot=%d/rounds=%d", dupRef, dupAnnot, n)
}

func c03PtDupRun(s *c03PtDupScn) (struct{}, []Mon) {
	_, mons := c03RunXW(&s.xwScn)
	return struct{}{}, mons
}

//go:build verif

package main

// C02 regenerated facts (tie "a"): the ordered call skeletons of every Go function of the
// CURRENT tree that the C02 theorems speak about, extracted with go/ast (harness/main/skel.go)
// on every check run into lean/Xp/Gen/C02Skel.lean. lean/Xp/Model/C02Skel.lean declares, entry
// by entry, which model step mirrors which call; lean/Xp/Props/C02.lean states the equalities
// (`skeleton_*`, by decide). The verb set holds the client verbs, the repo's helpers that wrap
// them and THE GUARDS the property rests on (GetControllerOf, IsControlledBy,
// MustBeControllableBy, ConnectionSecretMustBeControllableBy, AddControllerReference): removing,
// adding or moving a guard or an API call in one of these functions breaks an obligation
// before any scenario runs.

import (
	"fmt"
	"strings"

	ucomposite "github.com/crossplane/crossplane-runtime/pkg/resource/unstructured/composite"
	"k8s.io/apimachinery/pkg/runtime/schema"

	"github.com/crossplane/crossplane/internal/controller/apiextensions/composite"
)

var c02SkelGuards = []string{
	"GetControllerOf", "IsControlledBy", "MustBeControllableBy", "ConnectionSecretMustBeControllableBy",
	"AddControllerReference", "AllowUpdateIf", "WasCreated", "WasDeleted", "IsNotAllowed",
}

func c02SkelOpts(extra ...string) SkelOpts {
	return SkelOpts{Verbs: SkelVerbs(append(append([]string{}, c02SkelGuards...), extra...)...), DropRecv: true}
}

// c02FieldOwnerProbe: ComposedFieldOwnerName for XRs of one kind whose names share their first
// n characters (n far beyond the 128 characters a field-manager name may have).
func c02FieldOwnerProbe(name string) string {
	xr := ucomposite.New(ucomposite.WithGroupVersionKind(schema.GroupVersionKind{Group: "example.org", Version: "v1", Kind: "XThing"}))
	xr.SetName(name)
	return composite.ComposedFieldOwnerName(xr)
}

func init() {
	RegisterDump("C02Skel", func() string {
		var sb strings.Builder
		xrd := c02SkelOpts("AddFinalizer", "RemoveFinalizer", "Render", "Stop", "Start", "StartWatches", "IsRunning")
		sb.WriteString(SkelDef("c02SkelDefinitionReconcile", "internal/controller/apiextensions/definition/reconciler.go", "Reconciler", "Reconcile", xrd))
		sb.WriteString(SkelDef("c02SkelOfferedReconcile", "internal/controller/apiextensions/offered/reconciler.go", "Reconciler", "Reconcile", xrd))

		cmp := c02SkelOpts("AddFinalizer", "RemoveFinalizer", "Upgrade", "RunFunction", "ObserveComposedResources",
			"GarbageCollectComposedResources", "FetchConnection", "GenerateName", "AssociateTemplates", "PublishConnection",
			"Compose", "Fetch", "Configure", "SelectComposition", "Validate", "StartWatches", "ExtractConnection", "IsReady", "UnpublishConnection",
			"SetResourceReferences", "UpdateResourceRefs", "RemoveLabels", "ComposedFieldOwnerName")
		const fn = "internal/controller/apiextensions/composite/composition_functions.go"
		const pt = "internal/controller/apiextensions/composite/composition_pt.go"
		sb.WriteString(SkelDef("c02SkelObserve", fn, "ExistingComposedResourceObserver", "ObserveComposedResources", cmp))
		sb.WriteString(SkelDef("c02SkelGarbageCollect", fn, "DeletingComposedResourceGarbageCollector", "GarbageCollectComposedResources", cmp))
		sb.WriteString(SkelDef("c02SkelFnCompose", fn, "FunctionComposer", "Compose", cmp))
		sb.WriteString(SkelDef("c02SkelAssociate", pt, "GarbageCollectingAssociator", "AssociateTemplates", cmp))
		sb.WriteString(SkelDef("c02SkelPTCompose", pt, "PTComposer", "Compose", cmp))
		sb.WriteString(SkelDef("c02SkelXRReconcile", "internal/controller/apiextensions/composite/reconciler.go", "Reconciler", "Reconcile", cmp))
		sb.WriteString(SkelDef("c02SkelPublish", "internal/controller/apiextensions/composite/api.go", "APIFilteredSecretPublisher", "PublishConnection", cmp))
		sb.WriteString(SkelDef("c02SkelPropagate", "internal/controller/apiextensions/claim/connection.go", "APIConnectionPropagator", "PropagateConnection", cmp))

		// the function composer's field-manager name: prefix, and the facts the two-XR theorems
		// use: its length does not depend on the XR's name (so it is never cut at the API
		// server's 128-character limit) and two XRs whose names share a 200-character prefix
		// get different managers.
		long := strings.Repeat("a", 200)
		a, b, s := c02FieldOwnerProbe(long+"-one"), c02FieldOwnerProbe(long+"-two"), c02FieldOwnerProbe("x")
		fmt.Fprintf(&sb, "def c02FieldOwnerComposedPrefix : String := %s\n", leanStr(composite.FieldOwnerComposedPrefix))
		fmt.Fprintf(&sb, "/-- length of ComposedFieldOwnerName for a 1-character and for two 204-character XR names -/\ndef c02FieldOwnerLens : List Nat := [%d, %d, %d]\n", len(s), len(a), len(b))
		fmt.Fprintf(&sb, "/-- ComposedFieldOwnerName differs for two XRs whose names share their first 200 characters (also after cutting at 128) -/\ndef c02FieldOwnerLongNamesDiffer : Bool := %v\n",
			a != b && c02Cut(a, 128) != c02Cut(b, 128))
		return sb.String()
	})
}

func c02Cut(s string, n int) string {
	if len(s) > n {
		return s[:n]
	}
	return s
}

//go:build verif

package main

// C09 flows: the connection details of composed resources travel through the REAL composers
// (PTComposer; FunctionComposer with its ExistingComposedResourceObserver and a pipeline that
// behaves like function-patch-and-transform: it copies what it is shown) into the REAL
// APIFilteredSecretPublisher. ONE reconciler / composer / fetcher / publisher (as
// CompositeReconcilerOptions builds them, once per XRD) reconciles SEVERAL XRs in an interleaved
// sequence; each XR has >= 1 templates whose composed resources are controlled by the XR, by
// nobody, or by someone else, with their own connection secrets (same names in other namespaces).

import (
	"context"
	"encoding/json"
	"errors"
	"fmt"

	corev1 "k8s.io/api/core/v1"
	metav1 "k8s.io/apimachinery/pkg/apis/meta/v1"
	"k8s.io/apimachinery/pkg/runtime"
	"k8s.io/apimachinery/pkg/types"
	"sigs.k8s.io/controller-runtime/pkg/client"
	"sigs.k8s.io/controller-runtime/pkg/reconcile"

	"google.golang.org/protobuf/types/known/structpb"

	xpv1 "github.com/crossplane/crossplane-runtime/apis/common/v1"
	"github.com/crossplane/crossplane-runtime/pkg/reconciler/managed"
	"github.com/crossplane/crossplane-runtime/pkg/resource"
	ucomposed "github.com/crossplane/crossplane-runtime/pkg/resource/unstructured/composed"
	ucomposite "github.com/crossplane/crossplane-runtime/pkg/resource/unstructured/composite"

	v1 "github.com/crossplane/crossplane/apis/apiextensions/v1"
	fnv1 "github.com/crossplane/crossplane/apis/apiextensions/fn/proto/v1"
	"github.com/crossplane/crossplane/internal/controller/apiextensions/composite"
	"github.com/crossplane/crossplane/internal/controller/apiextensions/definition"
)

// c09Engine hands the XRD controller's reconciler options the clients of the harness.
type c09Engine struct {
	definition.NopEngine
	cached, uncached client.Client
}

func (e *c09Engine) GetCached() client.Client   { return e.cached }
func (e *c09Engine) GetUncached() client.Client { return e.uncached }

type c09Tmpl struct {
	RName string       `json:"rname"`
	CD    string       `json:"cd"`   // name of the (existing, referenced) composed resource
	Ctrl  string       `json:"ctrl"` // its controller: "xr" (this XR) | "other" | "none"
	Sec   *c09Key      `json:"sec"`  // its writeConnectionSecretToRef
	Cfgs  []c09Extract `json:"cfgs"` // the template's connectionDetails ("" = unset, also for type and name)
}

type c09FlowXR struct {
	Mode  string    `json:"mode"` // pt | fn: the mode of the XR's composition revision
	Name  string    `json:"name"`
	UID   string    `json:"uid"`
	Ref   *c09Key   `json:"ref"`
	Tmpls []c09Tmpl `json:"tmpls"`
}

type c09FetchFault struct {
	T   int    `json:"t"`   // the Get of template T's connection secret fails ...
	Cls string `json:"cls"` // ... with this class (notFound = the informer cache has not seen it)
}

type c09Rec struct {
	XR    int            `json:"xr"`
	Fetch *c09FetchFault `json:"fetch"`
	Fault *c09Fault      `json:"fault"` // fault of the publisher's calls (0 = Get, 1 = Create|Patch)
}

type c09FlowScn struct {
	Op      string       `json:"op"`   // "flow"
	Mode    string       `json:"mode"` // pt | fn | mixed (the XRs' modes)
	Filter  []string     `json:"filter"`
	Secrets []c09ASecret `json:"secrets"`
	XRs     []c09FlowXR  `json:"xrs"`
	Recs    []c09Rec     `json:"recs"`
}

type c09RecObs struct {
	Composed  bool `json:"composed"`
	Published bool `json:"published"`
	Err       bool `json:"err"`
	Writes    int  `json:"writes"`
	Synced    bool `json:"-"` // the XR's Synced condition (monitors only; conditions are C05's subject)
}

type c09FlowObs struct {
	Recs    []c09RecObs  `json:"recs"`
	Secrets []c09ASecret `json:"secrets"`
}

// c09PubSpy records what the reconciler hands to the (real) publisher and what it answers.
type c09PubSpy struct {
	inner     managed.ConnectionPublisher
	cl        *c09Faulty
	called    bool
	details   managed.ConnectionDetails
	published bool
	err       error
}

func (p *c09PubSpy) PublishConnection(ctx context.Context, o resource.ConnectionSecretOwner, c managed.ConnectionDetails) (bool, error) {
	p.called = true
	p.details = managed.ConnectionDetails{}
	for k, v := range c {
		p.details[k] = append([]byte{}, v...)
	}
	p.cl.off = false
	p.published, p.err = p.inner.PublishConnection(ctx, o, c)
	p.cl.off = true
	return p.published, p.err
}

func (p *c09PubSpy) UnpublishConnection(ctx context.Context, o resource.ConnectionSecretOwner, c managed.ConnectionDetails) error {
	return p.inner.UnpublishConnection(ctx, o, c)
}

// c09DerivedCfg restates connectionDetailType + the name defaulting of
// ExtractConfigsFromComposedTemplate for the monitors.
func c09DerivedCfg(c c09Extract) (tp, name string) {
	tp = c.Type
	if tp == "" {
		switch {
		case c.HasV:
			tp = "FromValue"
		case c.Key != "":
			tp = "FromConnectionSecretKey"
		case c.Path != "":
			tp = "FromFieldPath"
		default:
			tp = "FromConnectionSecretKey"
		}
	}
	name = c.Name
	if name == "" && tp == "FromConnectionSecretKey" {
		name = c.Key
	}
	return tp, name
}

func c09ConnDetails(cfgs []c09Extract) []v1.ConnectionDetail {
	out := []v1.ConnectionDetail{}
	for _, c := range cfgs {
		c := c
		d := v1.ConnectionDetail{}
		if c.Name != "" {
			d.Name = &c.Name
		}
		if c.Type != "" {
			t := v1.ConnectionDetailType(c.Type)
			d.Type = &t
		}
		if c.Key != "" {
			d.FromConnectionSecretKey = &c.Key
		}
		if c.Path != "" {
			d.FromFieldPath = &c.Path
		}
		if c.HasV {
			d.Value = &c.Value
		}
		out = append(out, d)
	}
	return out
}

func c09FlowRun(s c09FlowScn) (c09FlowObs, []Mon) {
	sch := runtime.NewScheme()
	_ = corev1.AddToScheme(sch)
	st := NewStore(sch)
	var mons []Mon
	obs := c09FlowObs{Recs: []c09RecObs{}}
	for _, sec := range s.Secrets {
		c09SeedA(st, sec)
	}
	base, _ := json.Marshal(map[string]any{"apiVersion": xwGroup + "/v1", "kind": "KA", "spec": map[string]any{"content": 1}})
	byName := map[string]*c09FlowXR{}
	for i := range s.XRs {
		x := &s.XRs[i]
		byName[x.Name] = x
		xr := ucomposite.New(ucomposite.WithGroupVersionKind(xwXRGVK))
		xr.SetName(x.Name)
		xr.SetUID(types.UID(x.UID))
		xr.SetLabels(map[string]string{"crossplane.io/composite": x.Name})
		xr.SetFinalizers([]string{"composite.apiextensions.crossplane.io"})
		xr.SetCompositionReference(&corev1.ObjectReference{Name: "comp"})
		if x.Ref != nil {
			xr.SetWriteConnectionSecretToReference(&xpv1.SecretReference{Namespace: x.Ref.NS, Name: x.Ref.Name})
		}
		var refs []corev1.ObjectReference
		for _, t := range x.Tmpls {
			refs = append(refs, corev1.ObjectReference{APIVersion: xwGroup + "/v1", Kind: "KA", Name: t.CD})
			cd := ucomposed.New()
			cd.SetAPIVersion(xwGroup + "/v1")
			cd.SetKind("KA")
			cd.SetName(t.CD)
			cd.SetAnnotations(map[string]string{xwAnnot: t.RName})
			cd.SetLabels(map[string]string{"crossplane.io/composite": x.Name})
			switch t.Ctrl {
			case "xr":
				cd.SetOwnerReferences([]metav1.OwnerReference{c09OwnerRef(x.UID, true)})
			case "other":
				cd.SetOwnerReferences([]metav1.OwnerReference{c09OwnerRef("x:victim:1", true)})
			}
			cd.Object["spec"] = map[string]any{"content": int64(1)}
			if t.Sec != nil {
				cd.SetWriteConnectionSecretToReference(&xpv1.SecretReference{Namespace: t.Sec.NS, Name: t.Sec.Name})
			}
			st.Seed(cd)
		}
		xr.SetResourceReferences(refs)
		st.Seed(xr)
	}
	// the long-lived controller objects, wired as the XRD controller wires them: ONE set of
	// reconciler options (publisher filtered by the XRD's connectionSecretKeys, P&T composer,
	// function composer with its observer, the shared connection details fetcher) per XRD,
	// built by the real definition.Reconciler.CompositeReconcilerOptions
	cl := &c09Faulty{Store: st, off: true}
	spy := &c09PubSpy{cl: cl}
	runner := composite.FunctionRunnerFn(func(_ context.Context, _ string, req *fnv1.RunFunctionRequest) (*fnv1.RunFunctionResponse, error) {
		// behaves like function-patch-and-transform: one desired resource per template; the XR's
		// connection details are extracted from the OBSERVED resources it is shown
		md, _ := req.GetObserved().GetComposite().GetResource().AsMap()["metadata"].(map[string]any)
		name, _ := md["name"].(string)
		x := byName[name]
		if x == nil {
			return nil, errors.New("unknown composite")
		}
		rsp := &fnv1.RunFunctionResponse{Desired: &fnv1.State{Composite: &fnv1.Resource{ConnectionDetails: map[string][]byte{}}, Resources: map[string]*fnv1.Resource{}}}
		for _, t := range x.Tmpls {
			t := t
			d, _ := structpb.NewStruct(map[string]any{"apiVersion": xwGroup + "/v1", "kind": "KA", "spec": map[string]any{"content": 1}})
			rsp.Desired.Resources[t.RName] = &fnv1.Resource{Resource: d, Ready: fnv1.Ready_READY_TRUE}
			o, ok := req.GetObserved().GetResources()[t.RName]
			if !ok {
				continue
			}
			ocd := ucomposed.New()
			ocd.Object = o.GetResource().AsMap()
			tmpl := v1.ComposedTemplate{ConnectionDetails: c09ConnDetails(t.Cfgs)}
			ext, err := composite.ExtractConnectionDetails(ocd, o.GetConnectionDetails(), composite.ExtractConfigsFromComposedTemplate(&tmpl)...)
			if err != nil {
				return nil, err
			}
			for k, v := range ext {
				rsp.Desired.Composite.ConnectionDetails[k] = v
			}
		}
		return rsp, nil
	})
	xrd := &v1.CompositeResourceDefinition{ObjectMeta: metav1.ObjectMeta{Name: "xthings." + xwGroup}}
	xrd.Spec.Group = xwGroup
	xrd.Spec.Names.Kind, xrd.Spec.Names.Plural = xwXRGVK.Kind, "xthings"
	xrd.Spec.Versions = []v1.CompositeResourceDefinitionVersion{{Name: "v1", Served: true, Referenceable: true}}
	xrd.Spec.ConnectionSecretKeys = s.Filter
	dr := definition.NewReconciler(resource.ClientApplicator{Client: st, Applicator: resource.NewAPIUpdatingApplicator(st)},
		definition.WithControllerEngine(&c09Engine{cached: cl, uncached: st}))
	var opts []composite.ReconcilerOption
	if pn := Guard(func() { opts = dr.CompositeReconcilerOptions(context.Background(), xrd) }); pn != "" {
		mons = append(mons, Mon{Sig: "C09:panic", Why: pn})
	}
	// what the harness supplies instead of stored Compositions / CompositionRevisions
	opts = append(opts,
		composite.WithCompositionSelector(composite.CompositionSelectorFn(func(context.Context, resource.Composite) error { return nil })),
		composite.WithCompositionRevisionFetcher(composite.CompositionRevisionFetcherFn(func(_ context.Context, xr resource.Composite) (*v1.CompositionRevision, error) {
			x := byName[xr.GetName()]
			rev := &v1.CompositionRevision{}
			if x.Mode == "fn" {
				m := v1.CompositionModePipeline
				rev.Spec.Mode = &m
				rev.Spec.Pipeline = []v1.PipelineStep{{Step: "pt", FunctionRef: v1.FunctionReference{Name: "function-patch-and-transform"}}}
				return rev, nil
			}
			m := v1.CompositionModeResources
			rev.Spec.Mode = &m
			for _, t := range x.Tmpls {
				t := t
				rev.Spec.Resources = append(rev.Spec.Resources, v1.ComposedTemplate{Name: &t.RName, Base: runtime.RawExtension{Raw: base},
					ConnectionDetails: c09ConnDetails(t.Cfgs), ReadinessChecks: []v1.ReadinessCheck{{Type: v1.ReadinessCheckTypeNone}}})
			}
			return rev, nil
		})),
		composite.WithCompositionRevisionValidator(composite.CompositionRevisionValidatorFn(func(*v1.CompositionRevision) error { return nil })),
		composite.WithConfigurator(composite.ConfiguratorFn(func(context.Context, resource.Composite, *v1.CompositionRevision) error { return nil })),
	)
	r := composite.NewReconciler(cl, st, resource.CompositeKind(xwXRGVK), opts...)
	composite.VerifC09WrapPublisher(r, func(p managed.ConnectionPublisher) managed.ConnectionPublisher { spy.inner = p; return spy })
	if !composite.VerifC09SetFunctionRunner(r, runner) {
		mons = append(mons, Mon{Sig: "C09:setup-wiring-unrecognised", Why: "the composer of the reconciler options is not a selector over a FunctionComposer: the harness cannot install its function runner"})
	}
	// functions: a template whose referenced resource is controlled by someone else is given a NEW
	// resource of the XR's own (generated name, no connection secret) once a composition succeeds
	replaced := map[[2]int]bool{}
	for i, rc := range s.Recs {
		if rc.XR < 0 || rc.XR >= len(s.XRs) {
			continue
		}
		x := s.XRs[rc.XR]
		x.Tmpls = append([]c09Tmpl{}, x.Tmpls...)
		for t := range x.Tmpls {
			if replaced[[2]int{rc.XR, t}] {
				x.Tmpls[t].Ctrl, x.Tmpls[t].Sec = "xr", nil
			}
		}
		mon := func(sig, why string) {
			mons = append(mons, Mon{Sig: sig, Why: fmt.Sprintf("reconcile %d of %s (%s): %s", i, x.Name, x.Mode, why)})
		}
		st.Log = nil
		beforeV := c09WorldView(st)
		before := c09ViewMap(beforeV)
		cl.arm(rc.Fault, x.Ref)
		cl.off, cl.fetchKey, cl.fetchCls = true, nil, ""
		if rc.Fetch != nil && rc.Fetch.T >= 0 && rc.Fetch.T < len(x.Tmpls) && x.Tmpls[rc.Fetch.T].Sec != nil {
			cl.fetchKey, cl.fetchCls = x.Tmpls[rc.Fetch.T].Sec, rc.Fetch.Cls
		}
		spy.called, spy.details, spy.published, spy.err = false, nil, false, nil
		if pn := Guard(func() {
			_, _ = r.Reconcile(context.Background(), reconcile.Request{NamespacedName: types.NamespacedName{Name: x.Name}})
		}); pn != "" {
			mon("C09:panic", pn)
		}
		after := c09ViewMap(c09WorldView(st))
		ro := c09RecObs{Composed: spy.called, Published: spy.published, Err: !spy.called || spy.err != nil, Writes: cl.writes}
		if u := st.Peek(xwXRGVK.GroupKind(), "", x.Name); u != nil {
			got := ucomposite.New()
			got.SetUnstructuredContent(u.Object)
			for _, c := range got.GetConditions() {
				if c.Type == "Synced" && c.Status == corev1.ConditionTrue {
					ro.Synced = true
				}
			}
		}
		obs.Recs = append(obs.Recs, ro)
		if x.Mode == "fn" && spy.called {
			for t := range x.Tmpls {
				if x.Tmpls[t].Ctrl == "other" {
					replaced[[2]int{rc.XR, t}] = true
				}
			}
		}
		// --- direct monitors (real secrets only) ---
		// per-resource provenance of what the composer hands to the publisher: a value that is
		// stored in some composed resource's connection secret may be published under key k only if
		// a template of THIS XR (resource not controlled by someone else) has a
		// FromConnectionSecretKey detail named k whose key holds that value in the secret that
		// template's OWN resource references (namespace AND name) - not in a secret of the same
		// name that another composed resource references in another namespace
		if spy.called {
			cand := map[string]bool{}
			xrRefs := map[c09Key]bool{}
			for _, ox := range s.XRs {
				if ox.Ref != nil {
					xrRefs[*ox.Ref] = true
				}
			}
			for _, ox := range s.XRs {
				for _, t := range ox.Tmpls {
					// (a secret that is also some XR's own holds published values of any origin: not judged here)
					if t.Sec != nil && !xrRefs[*t.Sec] {
						if sec, ok := before[*t.Sec]; ok {
							for _, kv := range sec.Data {
								cand[kv.V] = true
							}
						}
					}
				}
			}
			for k, v := range spy.details {
				if !cand[string(v)] {
					continue
				}
				sourced := false
				for _, t := range x.Tmpls {
					if t.Ctrl == "other" || t.Sec == nil {
						continue
					}
					sec, ok := before[*t.Sec]
					if !ok {
						continue
					}
					data := c09Map(sec.Data)
					for _, c := range t.Cfgs {
						tp, name := c09DerivedCfg(c)
						if tp == "FromConnectionSecretKey" && name == k && c.Key != "" {
							if sv, has := data[c.Key]; has && string(sv) == string(v) {
								sourced = true
							}
						}
					}
				}
				if !sourced {
					mon("C09:extracted-value-unsourced", fmt.Sprintf("the composer produced %q=%q, a value of a connection secret that no template of this XR designates for that name through its own resource's secret reference (namespace and name)", k, v))
				}
			}
		}
		if x.Ref == nil {
			if cl.allWrites > 0 {
				mon("C09:published-unasked", "a secret was written although the XR has no writeConnectionSecretToRef")
			}
			c09FrameMons(mon, x.UID, nil, before, after, nil, false)
			continue
		}
		changed := c09FrameMons(mon, x.UID, x.Ref, before, after, nil, c09TargetApplied(st, *x.Ref))
		// what this XR may draw on in this reconcile: the secrets (as stored before the reconcile)
		// and fixed values of its templates whose composed resource is not controlled by someone
		// else, and the names of those resources
		own, foreign := map[string]bool{}, map[string]bool{}
		for _, t := range x.Tmpls {
			set := own
			if t.Ctrl == "other" {
				set = foreign
			} else {
				set[t.CD] = true
				for _, c := range t.Cfgs {
					if c.HasV {
						set[c.Value] = true
					}
				}
			}
			if t.Sec != nil {
				if sec, ok := before[*t.Sec]; ok {
					for _, kv := range sec.Data {
						set[kv.V] = true
					}
				}
			}
		}
		b, bok := before[*x.Ref]
		a, aok := after[*x.Ref]
		old := c09Map(b.Data)
		if changed && aok {
			for _, kv := range a.Data {
				if ov, was := old[kv.K]; was && string(ov) == kv.V {
					continue
				}
				if !c09Allowed(s.Filter, kv.K) {
					mon("C09:key-not-allowed", fmt.Sprintf("secret key %q=%q is not allowed by the XRD's connectionSecretKeys", kv.K, kv.V))
				}
				if !own[kv.V] {
					if foreign[kv.V] {
						mon("C09:foreign-details-published", fmt.Sprintf("the XR's connection secret holds %q=%q taken from a composed resource controlled by another owner", kv.K, kv.V))
					} else {
						mon("C09:value-not-from-this-xr", fmt.Sprintf("the XR's connection secret holds %q=%q, which none of this XR's composed resources produced in this reconcile", kv.K, kv.V))
					}
				}
			}
		}
		if x.Mode == "pt" && ro.Synced {
			for _, t := range x.Tmpls {
				if t.Ctrl == "other" {
					mon("C09:foreign-resource-reported-synced", "a composed resource controlled by another owner was reported as successfully applied")
				}
			}
		}
		if spy.called && rc.Fault == nil && bok && c09MayControl(x.UID, b) {
			need := false
			for k, v := range spy.details {
				if c09Allowed(s.Filter, k) {
					if sv, ok := old[k]; !ok || string(sv) != string(v) {
						need = true
					}
				}
			}
			if !need && (cl.writes > 0 || spy.published) {
				mon("C09:rewrote-identical", fmt.Sprintf("all published keys already stored with equal values, yet writes=%d published=%v", cl.writes, spy.published))
			}
		}
	}
	obs.Secrets = c09WorldView(st)
	return obs, mons
}

// ---- generator ----

func c09FlowGen(r *Rng) c09FlowScn {
	s := c09FlowScn{Op: "flow", Mode: Pick(r, []string{"pt", "fn", "mixed"}), Filter: c09GenFilter(r), Secrets: []c09ASecret{}, XRs: []c09FlowXR{}, Recs: []c09Rec{}}
	names := []string{"xr", "xr-2", "xr3"}
	refs := []c09Key{{"ns-a", "conn"}, {"ns-b", "conn"}, {"ns-a", "conn-2"}}
	seen := map[c09Key]bool{}
	addSecret := func(sec c09ASecret) {
		if seen[sec.key()] {
			return
		}
		seen[sec.key()] = true
		s.Secrets = append(s.Secrets, sec)
	}
	keys := []string{"user", "pass", "host", "username"}
	nx := r.Range(1, 3)
	for i := 0; i < nx; i++ {
		x := c09FlowXR{Mode: s.Mode, Name: names[i], UID: "x:" + names[i] + ":1", Tmpls: []c09Tmpl{}}
		if s.Mode == "mixed" {
			x.Mode = Pick(r, []string{"pt", "fn"})
		}
		if !r.Chance(1, 10) {
			k := refs[i]
			if i > 0 && r.Chance(1, 6) {
				k = refs[0] // two XRs name the same secret
			}
			x.Ref = &k
		}
		nt := r.Range(1, 4)
		foreignAt := -1 // at most one template of an XR refers to somebody else's resource
		if r.Chance(1, 3) {
			foreignAt = r.Intn(nt)
		}
		for t := 0; t < nt; t++ {
			tm := c09Tmpl{RName: fmt.Sprintf("t%d", t), CD: fmt.Sprintf("cd-%d-%d", i, t), Ctrl: Pick(r, []string{"xr", "xr", "xr", "none"}), Cfgs: []c09Extract{}}
			if t == foreignAt {
				tm.Ctrl = "other"
			}
			if r.Chance(4, 5) {
				// composed resources of different XRs use the same secret names in their own namespaces
				k := c09Key{fmt.Sprintf("sec-%d", i), Pick(r, []string{"creds", "creds-2"})}
				if tm.Ctrl == "other" {
					k.NS = "victim"
				}
				if tm.Ctrl != "other" && i > 0 && r.Chance(1, 10) && s.XRs[0].Ref != nil {
					k = *s.XRs[0].Ref // a resource whose connection secret is another XR's
				}
				present := 9
				if tm.Ctrl != "other" && t > 0 && r.Chance(1, 3) {
					// a later resource of the SAME XR whose secret has the name an earlier one uses, in
					// another namespace (different data; absent 1 in 3)
					k = c09Key{fmt.Sprintf("sec-%db", i), Pick(r, []string{"creds", "creds-2"})}
					for _, e := range x.Tmpls {
						if e.Sec != nil && e.Ctrl != "other" {
							k.Name = e.Sec.Name
						}
					}
					present = 6
				}
				tm.Sec = &k
				if r.Chance(present, 10) {
					// providers mostly write connection-typed secrets; the fetcher reads whatever is referenced
					sec := c09ASecret{NS: k.NS, Name: k.Name, Type: Pick(r, []string{c09ConnType, c09ConnType, c09ConnType, "Opaque", ""}), Ctrl: "m:" + tm.CD + ":1", Plain: []string{}, Data: []c09KV{}}
					for _, dk := range keys {
						if r.Chance(3, 5) {
							sec.Data = append(sec.Data, c09KV{K: dk, V: fmt.Sprintf("%s.%s.%s", k.NS, k.Name, dk)})
						}
					}
					addSecret(sec)
				}
			}
			// later templates tend to have fewer details than earlier ones
			nc := r.Range(0, 3)
			if t > 0 && r.Chance(1, 3) {
				nc = 0
			}
			for c := 0; c < nc; c++ {
				var e c09Extract
				switch r.Intn(10) {
				case 0, 1, 2, 3:
					e = c09Extract{Type: "FromConnectionSecretKey", Key: Pick(r, keys)}
					if r.Chance(1, 3) {
						e.Name = Pick(r, keys) // renamed: may collide with another template's key
					}
					if r.Chance(1, 4) {
						e.Type = "" // derived from the fields that are set
					}
				case 4, 5:
					e = c09Extract{Type: "FromValue", Name: Pick(r, append([]string{"fixed"}, keys...)), HasV: true, Value: fmt.Sprintf("const-%d-%d-%d", i, t, c)}
					if r.Chance(1, 4) {
						e.Type = ""
					}
				case 6, 7:
					e = c09Extract{Type: "FromFieldPath", Name: Pick(r, []string{"name", "host"}), Path: Pick(r, []string{"metadata.name", "spec.nope"})}
					if tm.Ctrl == "other" {
						e.Path = "spec.nope" // (functions give such a template a resource with a generated name)
					}
				case 8:
					e = c09Extract{Type: "Unknown", Name: "x", Key: "user"}
				default:
					e = c09Extract{Type: "FromConnectionSecretKey", Key: Pick(r, keys)}
					if r.Chance(1, 3) {
						// malformed: the type's field is not set
						e = c09Extract{Type: Pick(r, []string{"FromValue", "FromFieldPath", "FromConnectionSecretKey"}), Name: "broken"}
					}
				}
				tm.Cfgs = append(tm.Cfgs, e)
			}
			x.Tmpls = append(x.Tmpls, tm)
		}
		s.XRs = append(s.XRs, x)
		if x.Ref != nil && r.Chance(1, 4) {
			pre := c09ASecret{NS: x.Ref.NS, Name: x.Ref.Name, Type: Pick(r, c09Types), Plain: []string{}, Data: c09GenData(r, "pre", append([]string{"stale"}, keys...), 2)}
			for j := range pre.Data {
				if pre.Data[j].V == "" {
					pre.Data[j].V = "0"
				}
			}
			if r.Chance(3, 4) {
				pre.Ctrl = Pick(r, []string{x.UID, x.UID, "x:" + x.Name + ":0", "e:else:1"})
			}
			addSecret(pre)
		}
	}
	for i, n := 0, r.Range(2, 6); i < n; i++ {
		rc := c09Rec{XR: r.Intn(nx)}
		if r.Chance(1, 6) {
			rc.Fetch = &c09FetchFault{T: r.Intn(len(s.XRs[rc.XR].Tmpls)), Cls: Pick(r, c09ErrClasses)}
			if r.Bool() {
				rc.Fetch.Cls = "notFound" // the informer cache has not seen the secret
			}
		}
		if r.Chance(1, 5) {
			rc.Fault = c09GenFault(r, 1)
		}
		s.Recs = append(s.Recs, rc)
	}
	return s
}

func c09FlowCls(s c09FlowScn, o c09FlowObs) string {
	foreign, tm, pubs := 0, 0, 0
	for _, x := range s.XRs {
		tm += len(x.Tmpls)
		for _, t := range x.Tmpls {
			if t.Ctrl == "other" {
				foreign++
			}
		}
	}
	for _, r := range o.Recs {
		if r.Published {
			pubs++
		}
	}
	b := func(n int) string {
		if n > 2 {
			return "3+"
		}
		return fmt.Sprint(n)
	}
	return fmt.Sprintf("flow/%s/xrs=%d/tmpls=%s/foreign=%s/published=%s", s.Mode, len(s.XRs), b(tm), b(foreign), b(pubs))
}

//go:build verif

package main

// C04 regenerated facts (tie "a"): the ordered call skeletons of the Go functions the C04
// model mirrors (lean/Xp/Model/C04.lean, C04Compose.lean, C04Conn.lean), extracted with go/ast
// from the CURRENT source tree (VERIF_REPO, default /repo) on every check run and written to
// lean/Xp/Gen/C04Skel.lean. lean/Xp/Props/C04.lean states that the skeletons the model
// declares equal these lists (`skeleton_*`, by `decide`): inserting, removing, reordering or
// moving into / out of a loop one of these calls, an early `return`, or a `case` of the
// severity / status / selector switches, breaks an obligation before any scenario is run.
//
// SkelOf (skel.go) lists selector calls only. The functions of package composite and xfn also
// call plain in-package functions (AsState, AsStruct, convertTarget, toBeta ...) and builtins
// (delete) that matter to the model, and where a call sits relative to a loop matters to C04
// (the observed state is built ONCE, credentials are read PER STEP), so this file has its own
// walker: bare identifiers, `return`, `case` labels and loop brackets are recorded too.

import (
	"fmt"
	"go/ast"
	"go/parser"
	"go/token"
	"path/filepath"
	"sort"
	"strings"

	fnv1 "github.com/crossplane/crossplane/apis/apiextensions/fn/proto/v1"
	"github.com/crossplane/crossplane/internal/controller/apiextensions/composite"
)

const (
	c04FileFn   = "internal/controller/apiextensions/composite/composition_functions.go"
	c04FileExt  = "internal/controller/apiextensions/composite/extra_resources.go"
	c04FileConn = "internal/controller/apiextensions/composite/connection.go"
	c04FileXfn  = "internal/xfn/function_runner.go"
)

type c04SkelOpt struct {
	names   map[string]bool
	returns bool // record every `return`
	loops   bool // record "loop{" / "}" around for / range statements
	cases   bool // record "case A|B" / "default" for every case clause
}

func c04ExprName(e ast.Expr) string {
	switch t := e.(type) {
	case *ast.Ident:
		return t.Name
	case *ast.SelectorExpr:
		return t.Sel.Name
	case *ast.StarExpr:
		return "*" + c04ExprName(t.X)
	case *ast.BasicLit:
		return t.Value
	}
	return "?"
}

// c04Skel lists, in source order, the calls of recvType.fn whose final selector (or bare
// identifier) is in o.names. The receiver identifier is stripped ("c.client.Get" -> "client.Get").
func c04Skel(relFile, recvType, fn string, o c04SkelOpt) ([]string, error) {
	fset := token.NewFileSet()
	f, err := parser.ParseFile(fset, filepath.Join(SkelRepo(), relFile), nil, 0)
	if err != nil {
		return nil, err
	}
	for _, d := range f.Decls {
		fd, ok := d.(*ast.FuncDecl)
		if !ok || fd.Name.Name != fn || fd.Body == nil {
			continue
		}
		root := ""
		if recvType == "" {
			if fd.Recv != nil {
				continue
			}
		} else {
			if fd.Recv == nil || len(fd.Recv.List) != 1 {
				continue
			}
			rt := fd.Recv.List[0].Type
			if st, ok := rt.(*ast.StarExpr); ok {
				rt = st.X
			}
			if id, ok := rt.(*ast.Ident); !ok || id.Name != recvType {
				continue
			}
			if len(fd.Recv.List[0].Names) == 1 {
				root = fd.Recv.List[0].Names[0].Name
			}
		}
		out := []string{}
		var stack []ast.Node
		ast.Inspect(fd.Body, func(n ast.Node) bool {
			if n == nil {
				top := stack[len(stack)-1]
				stack = stack[:len(stack)-1]
				switch top.(type) {
				case *ast.ForStmt, *ast.RangeStmt:
					if o.loops {
						out = append(out, "}")
					}
				}
				return true
			}
			stack = append(stack, n)
			switch t := n.(type) {
			case *ast.ForStmt, *ast.RangeStmt:
				if o.loops {
					out = append(out, "loop{")
				}
			case *ast.ReturnStmt:
				if o.returns {
					out = append(out, "return")
				}
			case *ast.CaseClause:
				if o.cases {
					if len(t.List) == 0 {
						out = append(out, "default")
					} else {
						ls := []string{}
						for _, e := range t.List {
							ls = append(ls, c04ExprName(e))
						}
						out = append(out, "case "+strings.Join(ls, "|"))
					}
				}
			case *ast.CallExpr:
				switch fun := t.Fun.(type) {
				case *ast.Ident:
					if o.names[fun.Name] {
						out = append(out, fun.Name)
					}
				case *ast.SelectorExpr:
					// "Is*" selects every error classifier (kerrors.IsNotFound, meta.IsNoMatchError ...)
					if !o.names[fun.Sel.Name] && !(o.names["Is*"] && strings.HasPrefix(fun.Sel.Name, "Is")) {
						return true
					}
					ch, ok := skelChain(t.Fun)
					if !ok {
						ch = "_." + fun.Sel.Name
					}
					if root != "" && strings.HasPrefix(ch, root+".") {
						ch = ch[len(root)+1:]
					}
					out = append(out, ch)
				}
			}
			return true
		})
		return out, nil
	}
	return nil, fmt.Errorf("function %s.%s not found in %s", recvType, fn, relFile)
}

func c04SkelDef(leanName, relFile, recvType, fn string, returns, loops, cases bool, names ...string) string {
	set := map[string]bool{}
	for _, n := range names {
		set[n] = true
	}
	sk, err := c04Skel(relFile, recvType, fn, c04SkelOpt{names: set, returns: returns, loops: loops, cases: cases})
	if err != nil {
		sk = []string{"EXTRACTION FAILED: " + err.Error()}
	}
	who := fn
	if recvType != "" {
		who = recvType + "." + fn
	}
	return fmt.Sprintf("/-- call skeleton of %s (%s), source order, regenerated from the current tree -/\ndef %s : List String := %s\n", who, relFile, leanName, leanStrList(sk))
}

func init() {
	RegisterDump("C04Skel", func() string {
		var sb strings.Builder
		// FunctionComposer.Compose, the part C04 is about: observed state built once, the pipeline
		// loop (request construction, credentials, the call, threading, conditions, results) and
		// what the result is loaded from. Writes / rendering are C01/C03's (c03SkelComposeFn).
		sb.WriteString(c04SkelDef("c04SkelCompose", c04FileFn, "FunctionComposer", "Compose", true, true, true,
			"ObserveComposedResources", "FetchConnection", "AsState", "UnmarshalJSON", "Get", "List", "RunFunction",
			"GetDesired", "GetContext", "GetConditions", "GetStatus", "GetType", "GetReason", "GetMessage", "GetTarget",
			"convertTarget", "GetResults", "GetSeverity", "Warning", "Normal", "GetMeta", "GetTtl", "GetRequirements",
			"GetResources", "GetComposite", "GetReady", "GetConnectionDetails", "GetResource", "FromStruct",
			"GarbageCollectComposedResources", "UpdateResourceRefs", "Patch", "Upgrade", "removeSystemConditions"))
		// the requirements loop
		sb.WriteString(c04SkelDef("c04SkelFetching", c04FileExt, "FetchingFunctionRunner", "RunFunction", true, true, true,
			"RunFunction", "GetResults", "GetSeverity", "GetRequirements", "DeepEqual", "Equal", "make", "GetExtraResources",
			"Fetch", "GetContext", "GetMeta", "Errorf", "Wrapf"))
		sb.WriteString(c04SkelDef("c04SkelFetch", c04FileExt, "ExistingExtraResourcesFetcher", "Fetch", true, true, true,
			"GetMatch", "GetMatchName", "GetNamespace", "GetApiVersion", "GetKind", "Get", "List", "Is*", "AsStruct",
			"MatchingLabels", "InNamespace", "GetLabels", "New"))
		// how the observed state is produced
		sb.WriteString(c04SkelDef("c04SkelObserve", c04FileFn, "ExistingComposedResourceObserver", "ObserveComposedResources", true, true, false,
			"GetResourceReferences", "Get", "List", "Is*", "GetControllerOf", "GetUID", "GetCompositionResourceName", "FetchConnection", "New"))
		sb.WriteString(c04SkelDef("c04SkelAsState", c04FileFn, "", "AsState", true, true, false, "AsStruct"))
		sb.WriteString(c04SkelDef("c04SkelFetchConnection", c04FileConn, "SecretConnectionDetailsFetcher", "FetchConnection", true, false, false,
			"GetWriteConnectionSecretToReference", "Get", "IgnoreNotFound", "Is*"))
		// convertTarget, tabulated on the real function over every value of the proto enum (+ one beyond)
		{
			nums := []int{}
			for n := range fnv1.Target_name {
				nums = append(nums, int(n))
			}
			sort.Ints(nums)
			nums = append(nums, nums[len(nums)-1]+1)
			rows := []string{}
			for _, n := range nums {
				rows = append(rows, fmt.Sprintf("(%d, %v)", n, composite.VerifC04ConvertTarget(fnv1.Target(n))))
			}
			fmt.Fprintf(&sb, "/-- convertTarget (composition_functions.go): target value ↦ reaches the claim -/\ndef c04TargetTable : List (Nat × Bool) := [%s]\n", strings.Join(rows, ", "))
		}
		// which function instance a step is sent to
		sb.WriteString(c04SkelDef("c04SkelPkgRun", c04FileXfn, "PackagedFunctionRunner", "RunFunction", true, false, false,
			"getClientConn", "NewBetaFallBackFunctionRunnerServiceClient", "RunFunction"))
		sb.WriteString(c04SkelDef("c04SkelGetClientConn", c04FileXfn, "PackagedFunctionRunner", "getClientConn", true, true, false,
			"List", "Get", "GetDesiredState", "Target", "Close", "delete", "CreateInterceptor", "NewClient", "Dial", "DialContext"))
		sb.WriteString(c04SkelDef("c04SkelGcConns", c04FileXfn, "PackagedFunctionRunner", "GarbageCollectConnectionsNow", true, true, false,
			"List", "Get", "GetName", "Close", "delete", "len"))
		sb.WriteString(c04SkelDef("c04SkelBeta", c04FileXfn, "BetaFallBackFunctionRunnerServiceClient", "RunFunction", true, false, false,
			"RunFunction", "Code", "toBeta", "fromBeta"))
		sb.WriteString(c04SkelDef("c04SkelToBeta", c04FileXfn, "", "toBeta", false, false, false, "Marshal", "Unmarshal"))
		sb.WriteString(c04SkelDef("c04SkelFromBeta", c04FileXfn, "", "fromBeta", false, false, false, "Marshal", "Unmarshal"))
		return sb.String()
	})
}

//go:build verif

package main

// C07 regenerated facts (tie "a"), extracted with go/ast from the CURRENT tree (VERIF_REPO,
// default /repo) on every check run and written to lean/Xp/Gen/C07Skel.lean:
//
//   * for every Go function the C07 model mirrors, the ordered list of EVERY call it makes
//     (API verbs, typed accessors, the field filters, the key-table functions, the builtin
//     `delete` that edits a key table) - not only the API verbs: the property is about which
//     field is copied where, and that is decided by the accessor / filter calls between the
//     API calls. lean/Xp/Model/C07Skel.lean declares, entry by entry, the model step that
//     mirrors each call; lean/Xp/Props/C07.lean states `skeleton_* : Xp.Gen.c07Skel… = …`
//     (by decide). Inserting, removing or reordering a call breaks an obligation before any
//     scenario is run;
//   * the string literals of withoutReservedK8sEntries (the separator it splits at and the
//     reserved suffixes it tests), the manager name and the JSON-patch paths of the managed
//     fields upgrader: the model's `reserved` / `upgradePlan` are functions of these tables.

import (
	"fmt"
	"go/ast"
	"go/parser"
	"go/token"
	"os"
	"path/filepath"
	"regexp"
	"strconv"
	"strings"
)

const (
	c07FileObject = "internal/controller/apiextensions/claim/object.go"
	c07FileSSA    = "internal/controller/apiextensions/claim/syncer_ssa.go"
	c07FileCSA    = "internal/controller/apiextensions/claim/syncer_csa.go"
	c07FileSchema = "internal/xcrd/schemas.go"
)

// c07SkelAll: every call through a selector except error wrapping / formatting, plus the
// package-local helpers and the builtins that edit maps.
func c07SkelAll() SkelOpts {
	return SkelOpts{
		Verbs:    map[string]bool{},
		DropRecv: true,
		Match: func(ch string) bool {
			return !strings.HasPrefix(ch, "errors.") && !strings.HasPrefix(ch, "fmt.")
		},
		Idents: map[string]bool{
			"withoutReservedK8sEntries": true, "withoutKeys": true, "merge": true,
			"withMergeOptions": true, "withSrcFilter": true, "delete": true,
		},
	}
}

// c07FuncDecl finds a function / method declaration of the current tree.
func c07FuncDecl(relFile, recvType, fn string) (*ast.FuncDecl, error) {
	fset := token.NewFileSet()
	f, err := parser.ParseFile(fset, filepath.Join(SkelRepo(), relFile), nil, 0)
	if err != nil {
		return nil, err
	}
	for _, d := range f.Decls {
		fd, ok := d.(*ast.FuncDecl)
		if !ok || fd.Name.Name != fn || fd.Body == nil {
			continue
		}
		if recvType == "" {
			if fd.Recv == nil {
				return fd, nil
			}
			continue
		}
		if fd.Recv == nil || len(fd.Recv.List) != 1 {
			continue
		}
		rt := fd.Recv.List[0].Type
		if st, ok := rt.(*ast.StarExpr); ok {
			rt = st.X
		}
		if id, ok := rt.(*ast.Ident); ok && id.Name == recvType {
			return fd, nil
		}
	}
	return nil, fmt.Errorf("function %s.%s not found in %s", recvType, fn, relFile)
}

// c07CallStringArgs lists, in source order, "<callee>:<string literal>" for every string
// literal argument of a call to one of the named callees inside the function.
func c07CallStringArgs(relFile, recvType, fn string, callees map[string]bool) []string {
	fd, err := c07FuncDecl(relFile, recvType, fn)
	if err != nil {
		return []string{"EXTRACTION FAILED: " + err.Error()}
	}
	out := []string{}
	ast.Inspect(fd.Body, func(n ast.Node) bool {
		ce, ok := n.(*ast.CallExpr)
		if !ok {
			return true
		}
		ch, ok := skelChain(ce.Fun)
		if !ok || !callees[ch] {
			return true
		}
		for _, a := range ce.Args {
			if bl, ok := a.(*ast.BasicLit); ok && bl.Kind == token.STRING {
				if s, err := strconv.Unquote(bl.Value); err == nil {
					out = append(out, ch+":"+s)
				}
			}
		}
		return true
	})
	return out
}

// c07StringLits lists every string literal of the function, in source order.
func c07StringLits(relFile, recvType, fn string) []string {
	fd, err := c07FuncDecl(relFile, recvType, fn)
	if err != nil {
		return []string{"EXTRACTION FAILED: " + err.Error()}
	}
	out := []string{}
	ast.Inspect(fd.Body, func(n ast.Node) bool {
		if bl, ok := n.(*ast.BasicLit); ok && bl.Kind == token.STRING {
			if s, err := strconv.Unquote(bl.Value); err == nil {
				out = append(out, s)
			}
		}
		return true
	})
	return out
}

// c07StmtShape lists, in source order, the kind of every statement of the function
// (assign / range / if / continue / return / call:<callee> / delete ...): the regenerated
// fact for functions that make no calls a call skeleton could list (withoutKeys,
// GetPropFields), so that adding a branch or a statement to them breaks an obligation.
func c07StmtShape(relFile, recvType, fn string) []string {
	fd, err := c07FuncDecl(relFile, recvType, fn)
	if err != nil {
		return []string{"EXTRACTION FAILED: " + err.Error()}
	}
	out := []string{}
	ast.Inspect(fd.Body, func(n ast.Node) bool {
		switch t := n.(type) {
		case *ast.FuncLit:
			return false
		case *ast.AssignStmt:
			k := "assign"
			if len(t.Lhs) == 1 {
				if _, ok := t.Lhs[0].(*ast.IndexExpr); ok {
					k = "assign-index"
				}
			}
			out = append(out, k)
		case *ast.IncDecStmt:
			out = append(out, "incdec")
		case *ast.RangeStmt:
			out = append(out, "range")
		case *ast.ForStmt:
			out = append(out, "for")
		case *ast.IfStmt:
			if t.Else != nil {
				out = append(out, "if-else")
			} else {
				out = append(out, "if")
			}
		case *ast.SwitchStmt, *ast.TypeSwitchStmt:
			out = append(out, "switch")
		case *ast.BranchStmt:
			out = append(out, strings.ToLower(t.Tok.String()))
		case *ast.ReturnStmt:
			out = append(out, "return")
		case *ast.ExprStmt:
			if ce, ok := t.X.(*ast.CallExpr); ok {
				if ch, ok := skelChain(ce.Fun); ok {
					out = append(out, "call:"+ch)
				} else {
					out = append(out, "call")
				}
			} else {
				out = append(out, "expr")
			}
		case *ast.DeclStmt:
			out = append(out, "decl")
		case *ast.GoStmt:
			out = append(out, "go")
		case *ast.DeferStmt:
			out = append(out, "defer")
		}
		return true
	})
	return out
}

// c07PkgRefs lists, in source order, every reference `pkg.Name` (pkg one of pkgs) that is
// NOT the callee of a call: the constants, variables and option values the function uses
// (xpv1.UpdateManual, xcrd.PropagateSpecProps, mergo.WithOverride, client.ForceOwnership ...).
func c07PkgRefs(relFile, recvType, fn string, pkgs map[string]bool) []string {
	fd, err := c07FuncDecl(relFile, recvType, fn)
	if err != nil {
		return []string{"EXTRACTION FAILED: " + err.Error()}
	}
	callee := map[ast.Node]bool{}
	ast.Inspect(fd.Body, func(n ast.Node) bool {
		if ce, ok := n.(*ast.CallExpr); ok {
			callee[ce.Fun] = true
		}
		return true
	})
	out := []string{}
	ast.Inspect(fd.Body, func(n ast.Node) bool {
		se, ok := n.(*ast.SelectorExpr)
		if !ok || callee[se] {
			return true
		}
		if id, ok := se.X.(*ast.Ident); ok && pkgs[id.Name] {
			out = append(out, id.Name+"."+se.Sel.Name)
		}
		return true
	})
	return out
}

// c07RuntimeFile locates a file of the crossplane-runtime module the current tree builds
// against: the version go.mod requires, in the module cache (GOMODCACHE, default
// $HOME/go/pkg/mod), as a path relative to the repo root (what SkelOf takes).
func c07RuntimeFile(rel string) (string, string) {
	const mod = "github.com/crossplane/crossplane-runtime"
	b, err := os.ReadFile(filepath.Join(SkelRepo(), "go.mod"))
	if err != nil {
		return "", ""
	}
	ver := ""
	for _, l := range strings.Split(string(b), "\n") {
		f := strings.Fields(l)
		if len(f) >= 2 && f[0] == mod {
			ver = f[1]
		}
		if len(f) >= 3 && f[0] == "require" && f[1] == mod {
			ver = f[2]
		}
	}
	if ver == "" {
		return "", ""
	}
	cache := os.Getenv("GOMODCACHE")
	if cache == "" {
		gp := os.Getenv("GOPATH")
		if gp == "" {
			h, _ := os.UserHomeDir()
			gp = filepath.Join(h, "go")
		}
		cache = filepath.Join(gp, "pkg", "mod")
	}
	abs := filepath.Join(cache, mod+"@"+ver, rel)
	r, err := filepath.Rel(SkelRepo(), abs)
	if err != nil {
		return "", ver
	}
	return r, ver
}

var c07PatchOpRe = regexp.MustCompile(`"op"\s*:\s*"([a-z]+)"\s*,\s*"path"\s*:\s*"([^"]*)"`)

func init() {
	RegisterDump("C07Skel", func() string {
		var sb strings.Builder
		all := c07SkelAll()
		sb.WriteString(SkelDef("c07SkelSsaSync", c07FileSSA, "ServerSideCompositeSyncer", "Sync", all))
		sb.WriteString(SkelDef("c07SkelCsaSync", c07FileCSA, "ClientSideCompositeSyncer", "Sync", all))
		sb.WriteString(SkelDef("c07SkelUpgrade", c07FileSSA, "PatchingManagedFieldsUpgrader", "Upgrade", all))
		sb.WriteString(SkelDef("c07SkelNewCsa", c07FileCSA, "", "NewClientSideCompositeSyncer", all))
		// the constants / variables / option values the two Syncs use, source order
		pk := map[string]bool{"xcrd": true, "xpv1": true, "mergo": true, "client": true}
		fmt.Fprintf(&sb, "/-- package-level values ServerSideCompositeSyncer.Sync refers to (not as callee), source order -/\ndef c07RefsSsaSync : List String := %s\n", leanStrList(c07PkgRefs(c07FileSSA, "ServerSideCompositeSyncer", "Sync", pk)))
		fmt.Fprintf(&sb, "/-- package-level values ClientSideCompositeSyncer.Sync refers to (not as callee), source order -/\ndef c07RefsCsaSync : List String := %s\n", leanStrList(c07PkgRefs(c07FileCSA, "ClientSideCompositeSyncer", "Sync", pk)))
		// crossplane-runtime's APIPatchingApplicator.Apply (the module version go.mod requires):
		// `csaApplyW` mirrors it
		if rf, _ := c07RuntimeFile("pkg/resource/api.go"); rf != "" {
			ro := c07SkelAll()
			ro.Idents = map[string]bool{"fn": true}
			sb.WriteString(SkelDef("c07SkelRuntimeApply", rf, "APIPatchingApplicator", "Apply", ro))
		} else {
			sb.WriteString("def c07SkelRuntimeApply : List String := [\"EXTRACTION FAILED: crossplane-runtime not found in go.mod\"]\n")
		}
		// object.go: the field filters
		fl := SkelOpts{Verbs: map[string]bool{}, Match: func(string) bool { return true }, Returns: true,
			Idents: map[string]bool{"withoutKeys": true, "delete": true, "opt": true}}
		sb.WriteString(SkelDef("c07SkelWithoutReserved", c07FileObject, "", "withoutReservedK8sEntries", fl))
		sb.WriteString(SkelDef("c07SkelWithoutKeys", c07FileObject, "", "withoutKeys", fl))
		sb.WriteString(SkelDef("c07SkelMerge", c07FileObject, "", "merge", fl))
		sb.WriteString(SkelDef("c07SkelGetPropFields", c07FileSchema, "", "GetPropFields", fl))
		for _, e := range [][3]string{{"c07ShapeWithoutReserved", c07FileObject, "withoutReservedK8sEntries"},
			{"c07ShapeWithoutKeys", c07FileObject, "withoutKeys"}, {"c07ShapeGetPropFields", c07FileSchema, "GetPropFields"}} {
			fmt.Fprintf(&sb, "/-- statement shape of %s (%s), source order -/\ndef %s : List String := %s\n", e[2], e[1], e[0], leanStrList(c07StmtShape(e[1], "", e[2])))
		}
		// the literals of withoutReservedK8sEntries
		sep, suf := []string{}, []string{}
		for _, e := range c07CallStringArgs(c07FileObject, "", "withoutReservedK8sEntries", map[string]bool{"strings.Split": true, "strings.HasSuffix": true}) {
			switch {
			case strings.HasPrefix(e, "strings.Split:"):
				sep = append(sep, strings.TrimPrefix(e, "strings.Split:"))
			case strings.HasPrefix(e, "strings.HasSuffix:"):
				suf = append(suf, strings.TrimPrefix(e, "strings.HasSuffix:"))
			default:
				suf = append(suf, e)
			}
		}
		fmt.Fprintf(&sb, "/-- withoutReservedK8sEntries (object.go): the separators the key is split at (strings.Split) -/\ndef c07ReservedSeparators : List String := %s\n", leanStrList(sep))
		fmt.Fprintf(&sb, "/-- withoutReservedK8sEntries (object.go): the suffixes of the first part that make a key reserved (strings.HasSuffix), source order -/\ndef c07ReservedSuffixes : List String := %s\n", leanStrList(suf))
		// the upgrader: the manager name it looks for besides its own, and the JSON-patch
		// operations of its two patches (op:path, source order)
		lits := c07StringLits(c07FileSSA, "PatchingManagedFieldsUpgrader", "Upgrade")
		names, ops := []string{}, []string{}
		for _, l := range lits {
			if ms := c07PatchOpRe.FindAllStringSubmatch(l, -1); len(ms) > 0 {
				for _, m := range ms {
					ops = append(ops, m[1]+":"+m[2])
				}
				ops = append(ops, "--")
				continue
			}
			if !strings.Contains(l, " ") {
				names = append(names, l)
			}
		}
		fmt.Fprintf(&sb, "/-- PatchingManagedFieldsUpgrader.Upgrade: the manager names it compares with (string literals without blanks, source order) -/\ndef c07UpgradeManagerLits : List String := %s\n", leanStrList(names))
		fmt.Fprintf(&sb, "/-- PatchingManagedFieldsUpgrader.Upgrade: op:path of every operation of its JSON patches, `--` after each patch, source order -/\ndef c07UpgradePatchOps : List String := %s\n", leanStrList(ops))
		return sb.String()
	})
}

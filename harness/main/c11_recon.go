//go:build verif

package main

// C11, the reconcilers that WRITE the derived CRDs: the REAL definition reconciler
// (composite CRD) and the REAL offered reconciler (claim CRD), each built with its own
// real NewClientApplicator and the default NopEngine, are run over a simstore that holds
// the XRD and - usually - the XRD's own CRDs as they were derived from an EARLIER state of
// the XRD (a conversion webhook since retired, short names, singular / listKind, extra
// categories, spec.metadata labels / annotations, an extra version, other policies) plus
// labels / annotations somebody put on the CRD.
//
// Clause: the composite and claim CRDs carry exactly what is derived from the CURRENT XRD.
// Monitor (on the real store): after a reconcile that reports no error the stored CRD's
// spec, labels, annotations and owner references equal what xcrd.ForCompositeResource /
// ForCompositeResourceClaim derives from the current XRD - nothing left over, nothing
// missing. Faults, foreign controllers and deletion belong to C02 / C08.

import (
	"context"
	"encoding/json"
	"fmt"
	"reflect"

	extv1 "k8s.io/apiextensions-apiserver/pkg/apis/apiextensions/v1"
	metav1 "k8s.io/apimachinery/pkg/apis/meta/v1"
	"k8s.io/apimachinery/pkg/apis/meta/v1/unstructured"
	"k8s.io/apimachinery/pkg/runtime/schema"
	"k8s.io/apimachinery/pkg/runtime"
	"k8s.io/apimachinery/pkg/types"
	"sigs.k8s.io/controller-runtime/pkg/reconcile"

	v1 "github.com/crossplane/crossplane/apis/apiextensions/v1"
	"github.com/crossplane/crossplane/internal/controller/apiextensions/definition"
	"github.com/crossplane/crossplane/internal/controller/apiextensions/offered"
	"github.com/crossplane/crossplane/internal/xcrd"
)

var c11XRDGK = schema.GroupKind{Group: v1.Group, Kind: v1.CompositeResourceDefinitionKind}

type c11Recon struct {
	// the earlier state of the XRD the stored CRDs were derived from; nil: no CRD stored yet
	Prev *c11XrdS `json:"prev"`
	// labels / annotations on the stored CRDs beyond the derived ones
	ExtraLabels      map[string]string `json:"extraLabels"`
	ExtraAnnotations map[string]string `json:"extraAnnotations"`
	Rounds           int               `json:"rounds"` // reconciles per reconciler (1..2)
	// status.conditions of the stored CRDs as (type, status) pairs, in order; nil = [Established True]
	StoredConds [][]string `json:"storedConds"`
	// owner references of the stored CRDs: "controller" (the derived controller reference; "" means
	// this), "none" (restored from a backup, orphaned, reference removed by hand), "plain" (an owner
	// reference to the XRD that is not a controller reference)
	StoredOwners string `json:"storedOwners"`
	// Live: the stored CRDs are not seeded; instead the SAME long-lived reconcilers first reconcile
	// the earlier XRD `prev` (same name, same generation, another UID), then that XRD and its CRDs are
	// deleted and the current XRD is created under the same name
	Live bool `json:"live"`
}

type c11ReconRound struct {
	Res string `json:"res"` // ok | requeue | err | panic
	Crd any    `json:"crd"` // canonical projection of the stored CRD when no error was reported
}

type c11ReconObs struct {
	Definition []c11ReconRound `json:"definition"`
	Offered    []c11ReconRound `json:"offered"` // empty when the XRD offers no claim
}

func c11Established(crd *extv1.CustomResourceDefinition, conds [][]string) {
	crd.Status.Conditions = nil
	for _, c := range conds {
		if len(c) == 2 {
			crd.Status.Conditions = append(crd.Status.Conditions, extv1.CustomResourceDefinitionCondition{
				Type: extv1.CustomResourceDefinitionConditionType(c[0]), Status: extv1.ConditionStatus(c[1]), Reason: "Verif"})
		}
	}
	crd.Status.AcceptedNames = crd.Spec.Names
}

// c11IsEst is the harness's own reading of "the API server serves this CRD": the FIRST condition of
// type Established has status True (independent of xcrd.IsEstablished, which is under test).
func c11IsEst(crd *extv1.CustomResourceDefinition) bool {
	for _, c := range crd.Status.Conditions {
		if c.Type == extv1.Established {
			return c.Status == extv1.ConditionTrue
		}
	}
	return false
}

// c11StoredCRD reads the stored CRD back as the typed object.
func c11StoredCRD(st *Store, name string) *extv1.CustomResourceDefinition {
	u := st.Peek(c11CRDGK, "", name)
	if u == nil {
		return nil
	}
	crd := &extv1.CustomResourceDefinition{}
	if err := runtime.DefaultUnstructuredConverter.FromUnstructured(u.Object, crd); err != nil {
		return nil
	}
	return crd
}

func c11StrMapEq(a, b map[string]string) bool {
	if len(a) == 0 && len(b) == 0 {
		return true
	}
	return reflect.DeepEqual(a, b)
}

// c11StoredDiff says where the stored CRD differs from the derived one ("" = nowhere).
func c11StoredDiff(stored, want *extv1.CustomResourceDefinition) string {
	if stored == nil {
		return "no CRD stored"
	}
	gs, ws := c11JSON(stored.Spec), c11JSON(want.Spec)
	if !reflect.DeepEqual(gs, ws) {
		gm, _ := gs.(map[string]any)
		wm, _ := ws.(map[string]any)
		for k := range gm {
			if !reflect.DeepEqual(gm[k], wm[k]) {
				return fmt.Sprintf("spec.%s is %s, derived from the current XRD: %s", k, mustJSON(gm[k]), mustJSON(wm[k]))
			}
		}
		for k := range wm {
			if _, ok := gm[k]; !ok {
				return "spec." + k + " is missing"
			}
		}
		return "spec differs"
	}
	if !c11StrMapEq(stored.GetLabels(), want.GetLabels()) {
		return fmt.Sprintf("labels are %v, derived: %v", stored.GetLabels(), want.GetLabels())
	}
	if !c11StrMapEq(stored.GetAnnotations(), want.GetAnnotations()) {
		return fmt.Sprintf("annotations are %v, derived: %v", stored.GetAnnotations(), want.GetAnnotations())
	}
	if !reflect.DeepEqual(c11JSON(stored.GetOwnerReferences()), c11JSON(want.GetOwnerReferences())) {
		return "owner references are " + mustJSON(stored.GetOwnerReferences())
	}
	return ""
}

// c11Storable: the reconcilers read the XRD from the (simulated) API server, which stores an
// XRD only if every schema is well-formed JSON (and the simulation only what it can convert).
func c11Storable(x c11XrdS) bool {
	for _, v := range x.Versions {
		if v.Schema.Present && !v.Schema.RawNil && !json.Valid([]byte(v.Schema.Raw)) {
			return false
		}
	}
	x.Meta = nil
	xrd := c11Build(x)
	xrd.SetGroupVersionKind(v1.CompositeResourceDefinitionGroupVersionKind)
	st := NewStore(c11Scheme())
	if Guard(func() { st.Seed(xrd) }) != "" {
		return false
	}
	// ... and the simulation must hand the reconcilers the XRD the scenario describes: what is read
	// back derives to the same CRDs (a schema `null`, for one, does not survive the round trip)
	back := &v1.CompositeResourceDefinition{}
	if err := st.Get(context.Background(), types.NamespacedName{Name: x.Name}, back); err != nil {
		return false
	}
	for _, which := range []string{"xr", "claim"} {
		want, werr := c11Derive(x, which)
		var got *extv1.CustomResourceDefinition
		var gerr error
		if which == "xr" {
			got, gerr = xcrd.ForCompositeResource(back.DeepCopy())
		} else {
			got, gerr = xcrd.ForCompositeResourceClaim(back.DeepCopy())
		}
		if c11ErrClass(werr) != c11ErrClass(gerr) || (werr == nil && mustJSON(c11Project(want)) != mustJSON(c11Project(got))) {
			return false
		}
	}
	return true
}

func c11RunRecon(x c11XrdS, rc c11Recon) (c11ReconObs, []Mon) {
	var mons []Mon
	obs := c11ReconObs{Definition: []c11ReconRound{}, Offered: []c11ReconRound{}}
	// the reconcilers see a live XRD: the metadata states of the admission scenarios do not apply
	x.Meta = nil
	st := NewStore(c11Scheme())
	xrd := c11Build(x)
	xrd.SetGroupVersionKind(v1.CompositeResourceDefinitionGroupVersionKind)
	st.Seed(xrd)
	req := reconcile.Request{NamespacedName: types.NamespacedName{Name: x.Name}}
	// the reconcilers live as long as the process: one instance each for the whole scenario
	recs := map[string]reconcile.Reconciler{
		"xr":    definition.NewReconciler(definition.NewClientApplicator(st)),
		"claim": offered.NewReconciler(offered.NewClientApplicator(st)),
	}
	if rc.Live && rc.Prev != nil {
		// an earlier XRD of the same name and generation (another UID), reconciled by the same
		// reconcilers until its CRDs are established, then deleted together with its CRDs
		p := c11CloneXrd(*rc.Prev)
		p.Meta = nil
		p.Name, p.UID = x.Name, x.UID+"-earlier"
		st.Remove(c11XRDGK, "", x.Name)
		pxrd := c11Build(p)
		pxrd.SetGroupVersionKind(v1.CompositeResourceDefinitionGroupVersionKind)
		pxrd.SetGeneration(1)
		st.Seed(pxrd)
		for _, which := range []string{"xr", "claim"} {
			if which == "claim" && p.ClaimNames == nil {
				continue
			}
			for i := 0; i < 2; i++ {
				_ = Guard(func() { _, _ = recs[which].Reconcile(context.Background(), req) })
				if crd, err := c11Derive(p, which); err == nil && crd.GetName() != "" && st.Peek(c11CRDGK, "", crd.GetName()) != nil {
					st.Mutate(c11CRDGK, "", crd.GetName(), func(u *unstructured.Unstructured) {
						_ = unstructured.SetNestedSlice(u.Object, []any{map[string]any{"type": "Established", "status": "True", "reason": "InitialNamesAccepted"}}, "status", "conditions")
					})
				}
			}
		}
		for _, u := range st.OfKind(c11CRDGK) {
			st.Remove(c11CRDGK, "", u.GetName())
		}
		// the new XRD of that name reaches the generation the earlier one had when it was last reconciled
		if u := st.Peek(c11XRDGK, "", x.Name); u != nil && u.GetGeneration() > 0 {
			xrd.SetGeneration(u.GetGeneration())
		}
		st.Remove(c11XRDGK, "", x.Name)
		st.Seed(xrd)
	}
	if rc.Prev != nil && !rc.Live {
		p := c11CloneXrd(*rc.Prev)
		p.Meta = nil
		for _, which := range []string{"xr", "claim"} {
			crd, err := c11Derive(p, which)
			if err != nil || crd == nil || crd.GetName() == "" {
				continue
			}
			if st.Peek(c11CRDGK, "", crd.GetName()) != nil {
				continue
			}
			l := crd.GetLabels()
			if l == nil {
				l = map[string]string{}
			}
			for k, v := range rc.ExtraLabels {
				l[k] = v
			}
			crd.SetLabels(l)
			a := crd.GetAnnotations()
			if a == nil {
				a = map[string]string{}
			}
			for k, v := range rc.ExtraAnnotations {
				a[k] = v
			}
			crd.SetAnnotations(a)
			c11Established(crd, rc.StoredConds)
			switch rc.StoredOwners {
			case "none":
				crd.SetOwnerReferences(nil)
			case "plain":
				crd.SetOwnerReferences([]metav1.OwnerReference{{APIVersion: v1.SchemeGroupVersion.String(), Kind: v1.CompositeResourceDefinitionKind, Name: p.Name, UID: types.UID(p.UID)}})
			}
			crd.SetGroupVersionKind(extv1.SchemeGroupVersion.WithKind("CustomResourceDefinition"))
			st.Seed(crd)
		}
	}
	rounds := rc.Rounds
	if rounds < 1 {
		rounds = 1
	}
	if rounds > 2 {
		rounds = 2
	}
	run := func(which string, rec reconcile.Reconciler) []c11ReconRound {
		out := []c11ReconRound{}
		for i := 0; i < rounds; i++ {
			var res reconcile.Result
			var rerr error
			rd := c11ReconRound{}
			if p := Guard(func() { res, rerr = rec.Reconcile(context.Background(), req) }); p != "" {
				mons = append(mons, Mon{Sig: "C11:panic", Why: which + " reconciler: " + p})
				rd.Res = "panic"
				out = append(out, rd)
				continue
			}
			switch {
			case rerr != nil:
				rd.Res = "err"
			case res.Requeue:
				rd.Res = "requeue"
			default:
				rd.Res = "ok"
			}
			if rerr == nil {
				// the reconciler reported no error: what is stored must be the CRD of the CURRENT XRD
				want, derr := c11Derive(x, which)
				if derr != nil {
					mons = append(mons, Mon{Sig: "C11:stored-crd-differs-from-derived", Why: fmt.Sprintf("the %s reconciler reported no error although no CRD can be derived from the XRD (%v)", which, derr)})
				} else {
					stored := c11StoredCRD(st, want.GetName())
					if d := c11StoredDiff(stored, want); d != "" {
						mons = append(mons, Mon{Sig: "C11:stored-crd-differs-from-derived", Why: fmt.Sprintf("after a reconcile of the %s reconciler that reported no error (round %d, %s) the stored CRD %s is not what the current XRD derives to: %s", which, i+1, rd.Res, want.GetName(), d)})
					}
					if stored != nil {
						rd.Crd = c11Project(stored)
						// the reconciler goes on to start the controller for the CRD's kind only once the API
						// server serves the CRD (xcrd.IsEstablished); until then it must come back
						if rd.Res == "ok" && !c11IsEst(stored) {
							mons = append(mons, Mon{Sig: "C11:reconciler-ignores-establishment", Why: fmt.Sprintf("the %s reconciler finished (no requeue) although the stored CRD %s is not established: conditions %s", which, want.GetName(), mustJSON(stored.Status.Conditions))})
						}
					}
					// the API server establishes the CRD before the next reconcile
					if stored != nil && !c11IsEst(stored) {
						st.Mutate(c11CRDGK, "", want.GetName(), func(u *unstructured.Unstructured) {
							_ = unstructured.SetNestedSlice(u.Object, []any{map[string]any{"type": "Established", "status": "True", "reason": "InitialNamesAccepted"}}, "status", "conditions")
						})
					}
				}
			}
			out = append(out, rd)
		}
		return out
	}
	obs.Definition = run("xr", recs["xr"])
	if x.ClaimNames != nil {
		obs.Offered = run("claim", recs["claim"])
	}
	return obs, mons
}

//go:build verif

package main

// C11, the reconcilers that WRITE the derived CRDs: the REAL definition reconciler
// (composite CRD) and the REAL offered reconciler (claim CRD), each built with its own
// real NewClientApplicator and the default NopEngine, are run over a simstore that holds
// the XRD and - usually - the XRD's own CRDs as they were derived from an EARLIER state of
// the XRD (a conversion webhook since retired, short names, singular / listKind, extra
// categories, spec.metadata labels / annotations, an extra version, other policies) plus
// labels / annotations somebody put on the CRD.
//
// Clause: the composite and claim CRDs carry exactly what is derived from the CURRENT XRD.
// Monitor (on the real store): after a reconcile that reports no error the stored CRD's
// spec, labels, annotations and owner references equal what xcrd.ForCompositeResource /
// ForCompositeResourceClaim derives from the current XRD - nothing left over, nothing
// missing. Faults, foreign controllers and deletion belong to C02 / C08.

import (
	"context"
	"encoding/json"
	"fmt"
	"reflect"

	extv1 "k8s.io/apiextensions-apiserver/pkg/apis/apiextensions/v1"
	"k8s.io/apimachinery/pkg/apis/meta/v1/unstructured"
	"k8s.io/apimachinery/pkg/runtime"
	"k8s.io/apimachinery/pkg/types"
	"sigs.k8s.io/controller-runtime/pkg/reconcile"

	v1 "github.com/crossplane/crossplane/apis/apiextensions/v1"
	"github.com/crossplane/crossplane/internal/controller/apiextensions/definition"
	"github.com/crossplane/crossplane/internal/controller/apiextensions/offered"
	"github.com/crossplane/crossplane/internal/xcrd"
)

type c11Recon struct {
	// the earlier state of the XRD the stored CRDs were derived from; nil: no CRD stored yet
	Prev *c11XrdS `json:"prev"`
	// labels / annotations on the stored CRDs beyond the derived ones
	ExtraLabels      map[string]string `json:"extraLabels"`
	ExtraAnnotations map[string]string `json:"extraAnnotations"`
	Rounds           int               `json:"rounds"` // reconciles per reconciler (1..2)
}

type c11ReconRound struct {
	Res string `json:"res"` // ok | requeue | err | panic
	Crd any    `json:"crd"` // canonical projection of the stored CRD when no error was reported
}

type c11ReconObs struct {
	Definition []c11ReconRound `json:"definition"`
	Offered    []c11ReconRound `json:"offered"` // empty when the XRD offers no claim
}

func c11Established(crd *extv1.CustomResourceDefinition) {
	crd.Status.Conditions = []extv1.CustomResourceDefinitionCondition{{Type: extv1.Established, Status: extv1.ConditionTrue, Reason: "InitialNamesAccepted"}}
	crd.Status.AcceptedNames = crd.Spec.Names
}

// c11StoredCRD reads the stored CRD back as the typed object.
func c11StoredCRD(st *Store, name string) *extv1.CustomResourceDefinition {
	u := st.Peek(c11CRDGK, "", name)
	if u == nil {
		return nil
	}
	crd := &extv1.CustomResourceDefinition{}
	if err := runtime.DefaultUnstructuredConverter.FromUnstructured(u.Object, crd); err != nil {
		return nil
	}
	return crd
}

func c11StrMapEq(a, b map[string]string) bool {
	if len(a) == 0 && len(b) == 0 {
		return true
	}
	return reflect.DeepEqual(a, b)
}

// c11StoredDiff says where the stored CRD differs from the derived one ("" = nowhere).
func c11StoredDiff(stored, want *extv1.CustomResourceDefinition) string {
	if stored == nil {
		return "no CRD stored"
	}
	gs, ws := c11JSON(stored.Spec), c11JSON(want.Spec)
	if !reflect.DeepEqual(gs, ws) {
		gm, _ := gs.(map[string]any)
		wm, _ := ws.(map[string]any)
		for k := range gm {
			if !reflect.DeepEqual(gm[k], wm[k]) {
				return fmt.Sprintf("spec.%s is %s, derived from the current XRD: %s", k, mustJSON(gm[k]), mustJSON(wm[k]))
			}
		}
		for k := range wm {
			if _, ok := gm[k]; !ok {
				return "spec." + k + " is missing"
			}
		}
		return "spec differs"
	}
	if !c11StrMapEq(stored.GetLabels(), want.GetLabels()) {
		return fmt.Sprintf("labels are %v, derived: %v", stored.GetLabels(), want.GetLabels())
	}
	if !c11StrMapEq(stored.GetAnnotations(), want.GetAnnotations()) {
		return fmt.Sprintf("annotations are %v, derived: %v", stored.GetAnnotations(), want.GetAnnotations())
	}
	if !reflect.DeepEqual(c11JSON(stored.GetOwnerReferences()), c11JSON(want.GetOwnerReferences())) {
		return "owner references are " + mustJSON(stored.GetOwnerReferences())
	}
	return ""
}

// c11Storable: the reconcilers read the XRD from the (simulated) API server, which stores an
// XRD only if every schema is well-formed JSON (and the simulation only what it can convert).
func c11Storable(x c11XrdS) bool {
	for _, v := range x.Versions {
		if v.Schema.Present && !v.Schema.RawNil && !json.Valid([]byte(v.Schema.Raw)) {
			return false
		}
	}
	x.Meta = nil
	xrd := c11Build(x)
	xrd.SetGroupVersionKind(v1.CompositeResourceDefinitionGroupVersionKind)
	st := NewStore(c11Scheme())
	if Guard(func() { st.Seed(xrd) }) != "" {
		return false
	}
	// ... and the simulation must hand the reconcilers the XRD the scenario describes: what is read
	// back derives to the same CRDs (a schema `null`, for one, does not survive the round trip)
	back := &v1.CompositeResourceDefinition{}
	if err := st.Get(context.Background(), types.NamespacedName{Name: x.Name}, back); err != nil {
		return false
	}
	for _, which := range []string{"xr", "claim"} {
		want, werr := c11Derive(x, which)
		var got *extv1.CustomResourceDefinition
		var gerr error
		if which == "xr" {
			got, gerr = xcrd.ForCompositeResource(back.DeepCopy())
		} else {
			got, gerr = xcrd.ForCompositeResourceClaim(back.DeepCopy())
		}
		if c11ErrClass(werr) != c11ErrClass(gerr) || (werr == nil && mustJSON(c11Project(want)) != mustJSON(c11Project(got))) {
			return false
		}
	}
	return true
}

func c11RunRecon(x c11XrdS, rc c11Recon) (c11ReconObs, []Mon) {
	var mons []Mon
	obs := c11ReconObs{Definition: []c11ReconRound{}, Offered: []c11ReconRound{}}
	// the reconcilers see a live XRD: the metadata states of the admission scenarios do not apply
	x.Meta = nil
	st := NewStore(c11Scheme())
	xrd := c11Build(x)
	xrd.SetGroupVersionKind(v1.CompositeResourceDefinitionGroupVersionKind)
	st.Seed(xrd)
	if rc.Prev != nil {
		p := c11CloneXrd(*rc.Prev)
		p.Meta = nil
		for _, which := range []string{"xr", "claim"} {
			crd, err := c11Derive(p, which)
			if err != nil || crd == nil || crd.GetName() == "" {
				continue
			}
			if st.Peek(c11CRDGK, "", crd.GetName()) != nil {
				continue
			}
			l := crd.GetLabels()
			if l == nil {
				l = map[string]string{}
			}
			for k, v := range rc.ExtraLabels {
				l[k] = v
			}
			crd.SetLabels(l)
			a := crd.GetAnnotations()
			if a == nil {
				a = map[string]string{}
			}
			for k, v := range rc.ExtraAnnotations {
				a[k] = v
			}
			crd.SetAnnotations(a)
			c11Established(crd)
			crd.SetGroupVersionKind(extv1.SchemeGroupVersion.WithKind("CustomResourceDefinition"))
			st.Seed(crd)
		}
	}
	rounds := rc.Rounds
	if rounds < 1 {
		rounds = 1
	}
	if rounds > 2 {
		rounds = 2
	}
	req := reconcile.Request{NamespacedName: types.NamespacedName{Name: x.Name}}
	run := func(which string, rec reconcile.Reconciler) []c11ReconRound {
		out := []c11ReconRound{}
		for i := 0; i < rounds; i++ {
			var res reconcile.Result
			var rerr error
			rd := c11ReconRound{}
			if p := Guard(func() { res, rerr = rec.Reconcile(context.Background(), req) }); p != "" {
				mons = append(mons, Mon{Sig: "C11:panic", Why: which + " reconciler: " + p})
				rd.Res = "panic"
				out = append(out, rd)
				continue
			}
			switch {
			case rerr != nil:
				rd.Res = "err"
			case res.Requeue:
				rd.Res = "requeue"
			default:
				rd.Res = "ok"
			}
			if rerr == nil {
				// the reconciler reported no error: what is stored must be the CRD of the CURRENT XRD
				want, derr := c11Derive(x, which)
				if derr != nil {
					mons = append(mons, Mon{Sig: "C11:stored-crd-differs-from-derived", Why: fmt.Sprintf("the %s reconciler reported no error although no CRD can be derived from the XRD (%v)", which, derr)})
				} else {
					stored := c11StoredCRD(st, want.GetName())
					if d := c11StoredDiff(stored, want); d != "" {
						mons = append(mons, Mon{Sig: "C11:stored-crd-differs-from-derived", Why: fmt.Sprintf("after a reconcile of the %s reconciler that reported no error (round %d, %s) the stored CRD %s is not what the current XRD derives to: %s", which, i+1, rd.Res, want.GetName(), d)})
					}
					if stored != nil {
						rd.Crd = c11Project(stored)
					}
					// the API server establishes the CRD before the next reconcile
					if stored != nil && !xcrd.IsEstablished(stored.Status) {
						st.Mutate(c11CRDGK, "", want.GetName(), func(u *unstructured.Unstructured) {
							_ = unstructured.SetNestedSlice(u.Object, []any{map[string]any{"type": "Established", "status": "True", "reason": "InitialNamesAccepted"}}, "status", "conditions")
						})
					}
				}
			}
			out = append(out, rd)
		}
		return out
	}
	obs.Definition = run("xr", definition.NewReconciler(definition.NewClientApplicator(st)))
	if x.ClaimNames != nil {
		obs.Offered = run("claim", offered.NewReconciler(offered.NewClientApplicator(st)))
	}
	return obs, mons
}

//go:build verif

package main

// C12 regenerated call skeletons (tie "a"): for every Go function the C12 model mirrors, the
// ordered list of its calls that matter to the model, extracted with the shared go/ast
// walker (skel.go) from the CURRENT tree on every run and written to lean/Xp/Gen/C12Skel.lean.
// lean/Xp/Model/C12Skel.lean declares, next to a comment per entry naming the model step that
// mirrors it, the skeleton the model was written against; lean/Xp/Props/C12.lean equates the
// two (`skeleton_*`, by decide): inserting, removing or reordering one of these calls breaks
// an obligation before any scenario is run.

const (
	c12FileRecon   = "internal/controller/apiextensions/composition/reconciler.go"
	c12FileRev     = "internal/controller/apiextensions/composition/revision.go"
	c12FileHash    = "apis/apiextensions/v1/composition_hash.go"
	c12FileAPIRev  = "apis/apiextensions/v1/composition_revision.go"
	c12FileAPI     = "internal/controller/apiextensions/composite/api.go"
	c12FileHandler = "internal/controller/apiextensions/definition/handlers.go"
	c12FileConv    = "apis/apiextensions/v1/zz_generated.conversion.go"
)

func init() {
	RegisterDump("C12Skel", func() string {
		out := ""
		// Reconcile: client verbs + the pure helpers whose position decides the outcome
		out += SkelDef("c12ReconcileSkel", c12FileRecon, "Reconciler", "Reconcile", SkelOpts{
			Verbs:    SkelVerbs("WasDeleted", "Hash", "IsControlledBy", "AddControllerReference", "LatestRevision", "IsConflict", "IgnoreNotFound"),
			Idents:   map[string]bool{"NewCompositionRevision": true},
			DropRecv: true,
		})
		out += SkelDef("c12NewRevisionSkel", c12FileRev, "", "NewCompositionRevision", SkelOpts{
			Verbs:  SkelVerbs("Hash", "GetName", "GetLabels", "TypedReferenceTo", "AddOwnerReference", "AsController", "Sprintf"),
			Idents: map[string]bool{"NewCompositionRevisionSpec": true, "len": true},
		})
		out += SkelDef("c12NewRevisionSpecSkel", c12FileRev, "", "NewCompositionRevisionSpec", SkelOpts{
			Verbs: SkelVerbs("ToRevisionSpec"),
		})
		// the generated converter: which field helpers it calls (a dropped field drops a call;
		// the plain assignments are covered by the differential comparison of the whole spec)
		out += SkelDef("c12ToRevisionSpecSkel", c12FileConv, "GeneratedRevisionSpecConverter", "ToRevisionSpec", SkelOpts{
			Verbs: map[string]bool{"v1TypeReferenceToV1TypeReference": true, "v1PatchSetToV1PatchSet": true,
				"v1ComposedTemplateToV1ComposedTemplate": true, "v1PipelineStepToV1PipelineStep": true,
				"pV1StoreConfigReferenceToPV1StoreConfigReference": true},
			Idents:   map[string]bool{"CompositionMode": true},
			DropRecv: true,
		})
		out += SkelDef("c12HashSkel", c12FileHash, "Composition", "Hash", SkelOpts{
			Verbs:  map[string]bool{"New": true, "Marshal": true, "Write": true, "Sum": true, "Sprintf": true},
			Idents: map[string]bool{"append": true},
		})
		out += SkelDef("c12LatestRevisionSkel", c12FileAPIRev, "", "LatestRevision", SkelOpts{
			Verbs: SkelVerbs("IsControlledBy"),
		})
		out += SkelDef("c12FetchSkel", c12FileAPI, "APIRevisionFetcher", "Fetch", SkelOpts{
			Verbs: SkelVerbs("GetCompositionRevisionReference", "GetCompositionUpdatePolicy", "GetCompositionReference",
				"getCompositionRevisionList", "LatestRevision", "SetCompositionRevisionReference"),
			DropRecv: true,
		})
		out += SkelDef("c12RevisionListSkel", c12FileAPI, "APIRevisionFetcher", "getCompositionRevisionList", SkelOpts{
			Verbs:    SkelVerbs("GetCompositionUpdatePolicy", "GetCompositionRevisionSelector"),
			DropRecv: true,
		})
		out += SkelDef("c12EnqueueSkel", c12FileHandler, "", "EnqueueForCompositionRevision", SkelOpts{
			Verbs: SkelVerbs("GetCompositionUpdatePolicy", "GetCompositionReference", "Add"),
		})
		return out
	})
}

//go:build verif

// Command verifharness runs the real Crossplane code on generated scenarios and
// prints, one JSON object per line:
//
//	{"i":n,"scn":{...},"go":{...},"mon":[{"sig":"..","why":".."}],"cls":"..."}
//
// scn is what the Lean model is given, go is the canonical observation of the
// real code (diffed against the model's "out"), mon lists direct property
// violations seen on the real run, cls classifies the scenario for the evidence
// histogram (a cls starting with "trivial" is not counted as non-trivial).
package main

import (
	"bufio"
	"encoding/json"
	"flag"
	"fmt"
	"os"
	"runtime/debug"
	"sort"
)

// Mon is one direct-monitor violation.
type Mon struct {
	Sig string `json:"sig"`
	Why string `json:"why"`
}

// Line is one scenario result.
type Line struct {
	I   int    `json:"i"`
	Scn any    `json:"scn"`
	Go  any    `json:"go"`
	Mon []Mon  `json:"mon"`
	Cls string `json:"cls"`
}

// Ctx is handed to every property driver.
type Ctx struct {
	Seed  uint64
	N     int
	Tier  string
	Rng   *Rng
	out   *bufio.Writer
	count int
	// Corpus lines (scenario JSON) to replay before generating; drivers that support replay read these.
	Corpus []json.RawMessage
}

// Emit writes one line.
func (c *Ctx) Emit(scn any, obs any, mon []Mon, cls string) {
	if mon == nil {
		mon = []Mon{}
	}
	l := Line{I: c.count, Scn: scn, Go: obs, Mon: mon, Cls: cls}
	c.count++
	b, err := json.Marshal(l)
	if err != nil {
		panic(err)
	}
	c.out.Write(b)
	c.out.WriteByte('\n')
	c.out.Flush()
}

// Driver runs one property's scenarios.
type Driver func(c *Ctx)

var drivers = map[string]Driver{}

// Register is called from init() of each property file.
func Register(id string, d Driver) { drivers[id] = d }

func main() {
	seed := flag.Uint64("seed", 1, "PRNG seed")
	n := flag.Int("n", 100, "number of generated scenarios")
	tier := flag.String("tier", "quick", "quick|thorough")
	corpus := flag.String("corpus", "", "file with one scenario JSON per line to replay first")
	flag.Parse()
	if flag.NArg() != 1 {
		ids := []string{}
		for k := range drivers {
			ids = append(ids, k)
		}
		sort.Strings(ids)
		fmt.Fprintln(os.Stderr, "usage: verifharness [flags] <id>; ids:", ids)
		os.Exit(2)
	}
	d, ok := drivers[flag.Arg(0)]
	if !ok {
		fmt.Fprintln(os.Stderr, "unknown driver", flag.Arg(0))
		os.Exit(2)
	}
	c := &Ctx{Seed: *seed, N: *n, Tier: *tier, Rng: NewRng(*seed), out: bufio.NewWriterSize(os.Stdout, 1<<20)}
	if *corpus != "" {
		f, err := os.Open(*corpus)
		if err == nil {
			sc := bufio.NewScanner(f)
			sc.Buffer(make([]byte, 1<<20), 1<<26)
			for sc.Scan() {
				b := append([]byte{}, sc.Bytes()...)
				if len(b) > 0 {
					c.Corpus = append(c.Corpus, b)
				}
			}
			f.Close()
		}
	}
	defer c.out.Flush()
	d(c)
}

// Guard runs f and converts a panic into a monitor violation string ("" = no panic).
func Guard(f func()) (panicked string) {
	defer func() {
		if r := recover(); r != nil {
			panicked = fmt.Sprintf("%v\n%s", r, debug.Stack())
		}
	}()
	f()
	return ""
}

//go:build verif

package main

// C01 regenerated facts (tie "a"): for every Go function the C01 model mirrors, the ordered
// skeleton of its property-relevant calls, extracted with go/ast from the CURRENT source tree
// (VERIF_REPO, default /repo) on every check run, plus three source constants the model
// relies on (the name generator's retry bound, the sort key of UpdateResourceRefs, the
// annotation key). lean/Xp/Props/C01.lean states that the skeletons declared next to the
// model definitions (lean/Xp/Model/C01.lean, section "call skeletons") equal these lists,
// so inserting, removing or reordering such a call breaks an obligation before any
// scenario is run.
//
// SkelOf (skel.go) lists calls through selectors only; several calls this model cares about
// are plain package-level functions (UpdateResourceRefs, RenderComposedResourceMetadata,
// RenderFromJSON, AssociateByOrder, getClaimFromXR ...), so c01Skel merges the plain-function
// calls (by identifier) into SkelOf's list by source position.

import (
	"bytes"
	"fmt"
	"go/ast"
	"go/parser"
	"go/printer"
	"go/token"
	"path/filepath"
	"sort"
	"strconv"
	"strings"

	"github.com/crossplane/crossplane/internal/controller/apiextensions/composite"
)

const (
	c01FileFn     = "internal/controller/apiextensions/composite/composition_functions.go"
	c01FilePT     = "internal/controller/apiextensions/composite/composition_pt.go"
	c01FileRender = "internal/controller/apiextensions/composite/composition_render.go"
	c01FileRec    = "internal/controller/apiextensions/composite/reconciler.go"
	c01FileNames  = "internal/names/generate.go"
)

// c01FuncDecl finds function fn (method of recvType when recvType != "").
func c01FuncDecl(relFile, recvType, fn string) (*token.FileSet, *ast.FuncDecl, error) {
	fset := token.NewFileSet()
	f, err := parser.ParseFile(fset, filepath.Join(SkelRepo(), relFile), nil, 0)
	if err != nil {
		return nil, nil, err
	}
	for _, d := range f.Decls {
		fd, ok := d.(*ast.FuncDecl)
		if !ok || fd.Name.Name != fn || fd.Body == nil {
			continue
		}
		if recvType == "" {
			if fd.Recv != nil {
				continue
			}
			return fset, fd, nil
		}
		if fd.Recv == nil || len(fd.Recv.List) != 1 {
			continue
		}
		rt := fd.Recv.List[0].Type
		if st, ok := rt.(*ast.StarExpr); ok {
			rt = st.X
		}
		if id, ok := rt.(*ast.Ident); ok && id.Name == recvType {
			return fset, fd, nil
		}
	}
	return nil, nil, fmt.Errorf("function %s.%s not found in %s", recvType, fn, relFile)
}

// c01Skel lists, in source order, the calls of one function whose final selector (method /
// qualified function) or whose identifier (plain function of the same package) is in verbs.
// The receiver variable is dropped ("c.client.Patch" -> "client.Patch").
func c01Skel(relFile, recvType, fn string, verbs ...string) ([]string, error) {
	fset, fd, err := c01FuncDecl(relFile, recvType, fn)
	if err != nil {
		return nil, err
	}
	vs := map[string]bool{}
	for _, v := range verbs {
		vs[v] = true
	}
	root := ""
	if fd.Recv != nil && len(fd.Recv.List[0].Names) == 1 {
		root = fd.Recv.List[0].Names[0].Name
	}
	type ent struct {
		pos  token.Pos
		name string
	}
	es := []ent{}
	ast.Inspect(fd.Body, func(n ast.Node) bool {
		ce, ok := n.(*ast.CallExpr)
		if !ok {
			return true
		}
		switch t := ce.Fun.(type) {
		case *ast.Ident:
			if vs[t.Name] {
				es = append(es, ent{ce.Lparen, t.Name})
			}
		case *ast.SelectorExpr:
			if !vs[t.Sel.Name] {
				return true
			}
			ch, ok := skelChain(ce.Fun)
			if !ok {
				return true
			}
			if root != "" && strings.HasPrefix(ch, root+".") {
				ch = ch[len(root)+1:]
			}
			// ordered by the position of the call's opening parenthesis: an argument's call
			// comes after the call it is an argument of, a chained receiver call before
			es = append(es, ent{ce.Lparen, ch})
		}
		return true
	})
	_ = fset
	sort.SliceStable(es, func(i, j int) bool { return es[i].pos < es[j].pos })
	out := []string{}
	for _, e := range es {
		out = append(out, e.name)
	}
	return out, nil
}

func c01SkelDef(lean, relFile, recvType, fn string, verbs ...string) string {
	sk, err := c01Skel(relFile, recvType, fn, verbs...)
	if err != nil {
		sk = []string{"EXTRACTION FAILED: " + err.Error()}
	}
	who := fn
	if recvType != "" {
		who = recvType + "." + fn
	}
	return fmt.Sprintf("/-- call skeleton of %s (%s), source order, regenerated from the current tree -/\ndef %s : List String := %s\n", who, relFile, lean, leanStrList(sk))
}

// c01MaxTries: the value of `maxTries := <int>` in nameGenerator.GenerateName and whether the
// retry loop is `for range maxTries`.
func c01MaxTries() (int, string) {
	fset, fd, err := c01FuncDecl(c01FileNames, "nameGenerator", "GenerateName")
	if err != nil {
		return 0, "EXTRACTION FAILED: " + err.Error()
	}
	val, loop := 0, ""
	ast.Inspect(fd.Body, func(n ast.Node) bool {
		switch t := n.(type) {
		case *ast.AssignStmt:
			if len(t.Lhs) == 1 && len(t.Rhs) == 1 {
				if id, ok := t.Lhs[0].(*ast.Ident); ok && id.Name == "maxTries" {
					if bl, ok := t.Rhs[0].(*ast.BasicLit); ok && bl.Kind == token.INT {
						val, _ = strconv.Atoi(bl.Value)
					}
				}
			}
		case *ast.RangeStmt:
			var b bytes.Buffer
			_ = printer.Fprint(&b, fset, t.X)
			loop = "for range " + b.String()
		}
		return true
	})
	return val, loop
}

// c01SortLess: the comparison UpdateResourceRefs sorts the references with (the expression
// returned by the `less` closure of sort.Slice), printed canonically.
func c01SortLess() string {
	fset, fd, err := c01FuncDecl(c01FileFn, "", "UpdateResourceRefs")
	if err != nil {
		return "EXTRACTION FAILED: " + err.Error()
	}
	out := ""
	ast.Inspect(fd.Body, func(n ast.Node) bool {
		fl, ok := n.(*ast.FuncLit)
		if !ok {
			return true
		}
		for _, st := range fl.Body.List {
			if rs, ok := st.(*ast.ReturnStmt); ok && len(rs.Results) == 1 {
				var b bytes.Buffer
				_ = printer.Fprint(&b, fset, rs.Results[0])
				out = strings.Join(strings.Fields(b.String()), " ")
			}
		}
		return false
	})
	return out
}

func init() {
	RegisterDump("C01Skel", func() string {
		var sb strings.Builder
		// reconciler.go
		sb.WriteString(c01SkelDef("c01SkelReconcile", c01FileRec, "Reconciler", "Reconcile",
			"Get", "Update", "IsPaused", "WasDeleted", "UnpublishConnection", "RemoveFinalizer", "AddFinalizer",
			"SelectComposition", "Fetch", "Validate", "Configure", "Compose", "StartWatches", "PublishConnection",
			"handleCommonCompositionResult", "updateXRConditions", "IsConflict", "IsInvalid"))
		sb.WriteString(c01SkelDef("c01SkelHandleResult", c01FileRec, "Reconciler", "handleCommonCompositionResult",
			"getClaimFromXR", "Get", "Update", "Patch", "SetConditions", "SetClaimConditionTypes"))
		// composition_functions.go
		sb.WriteString(c01SkelDef("c01SkelFnCompose", c01FileFn, "FunctionComposer", "Compose",
			"ObserveComposedResources", "FetchConnection", "AsState", "Get", "List", "Create", "Update", "Delete", "RunFunction",
			"SetName", "SetNamespace", "RenderComposedResourceMetadata", "GenerateName", "GarbageCollectComposedResources",
			"UpdateResourceRefs", "Patch", "Apply", "Upgrade", "IsInvalid", "FromStruct", "removeSystemConditions"))
		sb.WriteString(c01SkelDef("c01SkelObserve", c01FileFn, "ExistingComposedResourceObserver", "ObserveComposedResources",
			"Get", "List", "IsNotFound", "GetControllerOf", "GetCompositionResourceName", "FetchConnection"))
		sb.WriteString(c01SkelDef("c01SkelGC", c01FileFn, "DeletingComposedResourceGarbageCollector", "GarbageCollectComposedResources",
			"GetControllerOf", "RemoveLabels", "Get", "Update", "Patch", "Delete", "IgnoreNotFound"))
		sb.WriteString(c01SkelDef("c01SkelUpdateRefs", c01FileFn, "", "UpdateResourceRefs",
			"ReferenceTo", "Slice", "SliceStable", "Sort", "SetResourceReferences"))
		sb.WriteString(c01SkelDef("c01SkelUpgrade", c01FileFn, "PatchingManagedFieldsUpgrader", "Upgrade",
			"WasCreated", "GetManagedFields", "Get", "Update", "Patch", "IgnoreNotFound"))
		// composition_pt.go
		sb.WriteString(c01SkelDef("c01SkelPTCompose", c01FilePT, "PTComposer", "Compose",
			"ComposedTemplates", "AssociateTemplates", "RenderFromJSON", "RenderFromCompositePatches",
			"RenderComposedResourceMetadata", "GenerateName", "ReferenceTo", "SetResourceReferences", "Get", "List", "Create",
			"Update", "Patch", "Delete", "MustBeControllableBy", "RespectOwnerRefs", "Apply", "IsInvalid",
			"RenderToCompositePatches", "FetchConnection", "ExtractConnection", "IsReady", "DeepCopy"))
		sb.WriteString(c01SkelDef("c01SkelAssociate", c01FilePT, "GarbageCollectingAssociator", "AssociateTemplates",
			"AssociateByOrder", "Get", "List", "IsNotFound", "GetCompositionResourceName", "GetControllerOf", "RemoveLabels",
			"Update", "Patch", "Delete", "IgnoreNotFound"))
		// composition_render.go
		sb.WriteString(c01SkelDef("c01SkelRenderMeta", c01FileRender, "", "RenderComposedResourceMetadata",
			"SetGenerateName", "SetName", "SetCompositionResourceName", "AddLabels", "AsController", "TypedReferenceTo",
			"AddControllerReference", "AddOwnerReference"))
		sb.WriteString(c01SkelDef("c01SkelRenderFromJSON", c01FileRender, "", "RenderFromJSON",
			"GetName", "GetNamespace", "Unmarshal", "SetName", "SetNamespace", "Empty"))
		// internal/names/generate.go
		sb.WriteString(c01SkelDef("c01SkelGenerateName", c01FileNames, "nameGenerator", "GenerateName",
			"GetName", "GetGenerateName", "GenerateName", "Get", "List", "IsNotFound", "SetName"))
		n, loop := c01MaxTries()
		fmt.Fprintf(&sb, "/-- `maxTries := %d` of nameGenerator.GenerateName -/\ndef c01NameMaxTries : Nat := %d\n", n, n)
		fmt.Fprintf(&sb, "/-- the retry loop header of nameGenerator.GenerateName -/\ndef c01NameLoop : String := %s\n", leanStr(loop))
		fmt.Fprintf(&sb, "/-- the `less` of the sort.Slice in UpdateResourceRefs -/\ndef c01RefsSortLess : String := %s\n", leanStr(c01SortLess()))
		fmt.Fprintf(&sb, "def c01AnnotationKey : String := %s\n", leanStr(composite.AnnotationKeyCompositionResourceName))
		return sb.String()
	})
}

//go:build verif

package main

// C16 regenerated facts, part 2 (lean/Xp/Gen/C16Skel.lean): the ordered call skeletons of
// every Go function the C16 model mirrors, extracted with go/ast (skel.go) from the CURRENT
// tree on every run. lean/Xp/Model/C16Skel.lean declares, next to a pointer to the model
// definition that mirrors each call, the skeleton the model was written against;
// lean/Xp/Props/C16.lean states `Xp.Gen.c16Skel<Fn> = Xp.C16.skel<Fn>` (by decide): inserting,
// removing or reordering a call (or an early `return`) in one of these functions breaks an
// obligation before any scenario is run.

import (
	"fmt"
	"go/ast"
	"go/parser"
	"go/token"
	"path/filepath"
	"strings"
)

const c16EstablisherFile = "internal/controller/pkg/revision/establisher.go"
const c16ReconcilerFile = "internal/controller/pkg/revision/reconciler.go"

// c16SkelOpts: the client verbs, the establisher's own helpers, the crossplane-runtime meta
// helpers that compute owner references, the setters that decide what is submitted, the
// errgroup calls (goroutine structure) and every `return`.
func c16SkelOpts(returns bool) SkelOpts {
	return SkelOpts{
		Verbs: SkelVerbs(
			// the establisher's own methods
			"addLabels", "validate", "establish", "create", "update", "enrichControlledResource", "getWebhookTLSCert",
			// owner-reference computation
			"AddOwnerReference", "AddControllerReference", "AsController", "AsOwner", "TypedReferenceTo",
			"SetOwnerReferences", "GetOwnerReferences", "SetResourceVersion", "GetResourceVersion",
			// labels / names / what is read off the parent
			"GetCommonLabels", "SetLabels", "GetLabels", "SetName", "GetTLSServerSecretName", "GetObjects", "GetUID",
			// goroutine structure
			"WithContext", "SetLimit", "Go", "Wait", "Done",
			// errors decided on
			"IsNotFound", "IgnoreNotFound", "DeepCopyObject",
		),
		Idents:   map[string]bool{"GetPackageOwnerReference": true, "close": true},
		DropRecv: true,
		Returns:  returns,
	}
}

// c16SkelReconcileOpts: of Reconciler.Reconcile / deactivateRevision only what concerns the
// package objects: the reads of spec.desiredState and status.objectRefs, deactivation,
// Establish, the recording of the references and the status updates that follow.
func c16SkelReconcileOpts() SkelOpts {
	return SkelOpts{
		Verbs: map[string]bool{
			"GetDesiredState": true, "deactivateRevision": true, "GetObjects": true, "SetObjects": true,
			"Establish": true, "ReleaseObjects": true, "RemoveSelf": true, "Deactivate": true,
			"Slice": true, "IsConflict": true,
			// writes of the revision object itself: the metadata update that precedes Establish and
			// the status updates (a reconcile that read a stale revision has them refused)
			"Update": true,
		},
		Idents:   map[string]bool{"uniqueResourceIdentifier": true},
		DropRecv: true,
	}
}

// c16AssignSkel lists, in source order, the FIELD WRITES of method recvType.fn: the left-hand
// sides of its assignment statements that are selector chains (`conf.Webhooks[i].ClientConfig.CABundle
// = …` -> "conf.Webhooks.ClientConfig.CABundle"), followed by "=" or ":=" … and, for the
// switch the function is, the type of every `case` ("case *admv1.ValidatingWebhookConfiguration").
// Together with the call skeleton (SetName) this is everything enrichControlledResource can
// change on an object: the theorem `enrich_touches_only_client_config` is about exactly these paths.
func c16AssignSkel(relFile, recvType, fn string) ([]string, error) {
	fset := token.NewFileSet()
	f, err := parser.ParseFile(fset, filepath.Join(SkelRepo(), relFile), nil, 0)
	if err != nil {
		return nil, err
	}
	for _, d := range f.Decls {
		fd, ok := d.(*ast.FuncDecl)
		if !ok || fd.Name.Name != fn || fd.Body == nil || fd.Recv == nil || len(fd.Recv.List) != 1 {
			continue
		}
		rt := fd.Recv.List[0].Type
		if st, ok := rt.(*ast.StarExpr); ok {
			rt = st.X
		}
		if id, ok := rt.(*ast.Ident); !ok || id.Name != recvType {
			continue
		}
		out := []string{}
		ast.Inspect(fd.Body, func(n ast.Node) bool {
			switch t := n.(type) {
			case *ast.CaseClause:
				for _, e := range t.List {
					if se, ok := e.(*ast.StarExpr); ok {
						if ch, ok := skelChain(se.X); ok {
							out = append(out, "case *"+ch)
						}
					}
				}
			case *ast.AssignStmt:
				for _, l := range t.Lhs {
					if _, isSel := l.(*ast.SelectorExpr); !isSel {
						continue
					}
					if ch, ok := skelChain(l); ok {
						out = append(out, ch)
					}
				}
			case *ast.IncDecStmt:
				if ch, ok := skelChain(t.X); ok {
					out = append(out, ch+"++")
				}
			}
			return true
		})
		return out, nil
	}
	return nil, fmt.Errorf("method %s.%s not found in %s", recvType, fn, relFile)
}

func init() {
	RegisterDump("C16Skel", func() string {
		var sb strings.Builder
		for _, f := range []struct{ lean, fn string }{
			{"c16SkelEstablish", "Establish"},
			{"c16SkelAddLabels", "addLabels"},
			{"c16SkelValidate", "validate"},
			{"c16SkelEnrich", "enrichControlledResource"},
			{"c16SkelGetWebhookTLSCert", "getWebhookTLSCert"},
			{"c16SkelEstablishPhase", "establish"},
			{"c16SkelCreate", "create"},
			{"c16SkelUpdate", "update"},
			{"c16SkelReleaseObjects", "ReleaseObjects"},
		} {
			sb.WriteString(SkelDef(f.lean, c16EstablisherFile, "APIEstablisher", f.fn, c16SkelOpts(true)))
		}
		as, err := c16AssignSkel(c16EstablisherFile, "APIEstablisher", "enrichControlledResource")
		if err != nil {
			as = []string{"EXTRACTION FAILED: " + err.Error()}
		}
		sb.WriteString("/-- field writes (assignment left-hand sides) and type-switch cases of APIEstablisher.enrichControlledResource, source order -/\ndef c16AssignEnrich : List String := " + leanStrList(as) + "\n")
		sb.WriteString(SkelDef("c16SkelGetPackageOwnerReference", c16EstablisherFile, "", "GetPackageOwnerReference", c16SkelOpts(true)))
		sb.WriteString(SkelDef("c16SkelReconcile", c16ReconcilerFile, "Reconciler", "Reconcile", c16SkelReconcileOpts()))
		sb.WriteString(SkelDef("c16SkelDeactivateRevision", c16ReconcilerFile, "Reconciler", "deactivateRevision", c16SkelReconcileOpts()))
		return sb.String()
	})
}

//go:build verif

package claim

// VerifC08Finalizer exports the claim finalizer for the C08 table dump.
const VerifC08Finalizer = finalizer

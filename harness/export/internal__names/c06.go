//go:build verif

package names

import (
	"sigs.k8s.io/controller-runtime/pkg/client"
)

// verifNamer adapts a function to the k8s names.NameGenerator interface.
type verifNamer func(base string) string

func (f verifNamer) GenerateName(base string) string { return f(base) }

// VerifNewNameGenerator returns the real nameGenerator (the availability loop of
// GenerateName is unchanged) with only the source of random suffixes replaced,
// so that the verification harness can script name collisions and feed the
// generated names to the model as the name oracle (C06).
func VerifNewNameGenerator(r client.Reader, namer func(base string) string) NameGenerator {
	return &nameGenerator{reader: r, namer: verifNamer(namer)}
}

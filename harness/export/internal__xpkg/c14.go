//go:build verif

package xpkg

import "net/http"

// VerifC14WithTransport replaces the HTTP transport of a K8sFetcher, so that the C14 harness can
// run the REAL K8sFetcher.Head / Fetch against an in-process OCI registry (harness/main/c14_reg.go).
func VerifC14WithTransport(rt http.RoundTripper) FetcherOpt {
	return func(k *K8sFetcher) error {
		k.transport = rt
		return nil
	}
}

//go:build verif

package xfn

import (
	"context"

	fnv1 "github.com/crossplane/crossplane/apis/apiextensions/fn/proto/v1"
	fnv1beta1 "github.com/crossplane/crossplane/apis/apiextensions/fn/proto/v1beta1"
)

// VerifGetClientConn calls the unexported getClientConn and returns the target of the
// connection it hands out.
func VerifGetClientConn(ctx context.Context, r *PackagedFunctionRunner, name string) (string, error) {
	c, err := r.getClientConn(ctx, name)
	if err != nil {
		return "", err
	}
	return c.Target(), nil
}

// VerifConnTargets returns the cached connections (function name -> target).
func VerifConnTargets(r *PackagedFunctionRunner) map[string]string {
	r.connsMx.RLock()
	defer r.connsMx.RUnlock()
	out := map[string]string{}
	for k, c := range r.conns {
		out[k] = c.Target()
	}
	return out
}

// VerifToBeta / VerifFromBeta expose the v1 <-> v1beta1 re-encoding.
func VerifToBeta(req *fnv1.RunFunctionRequest) (*fnv1beta1.RunFunctionRequest, error) { return toBeta(req) }

func VerifFromBeta(rsp *fnv1beta1.RunFunctionResponse) (*fnv1.RunFunctionResponse, error) {
	return fromBeta(rsp)
}

//go:build verif

package usage

// VerifC08Finalizer and VerifC08InUseLabel export constants for the C08 table dump.
const (
	VerifC08Finalizer  = finalizer
	VerifC08InUseLabel = inUseLabelKey
)

//go:build verif

package usage

// Exports for the C19 verification harness (overlay only; never part of /repo).

const (
	// VerifInUseLabelKey is the label the reconciler puts on used resources.
	VerifInUseLabelKey = inUseLabelKey
	// VerifFinalizer is the finalizer the reconciler puts on Usages.
	VerifFinalizer = finalizer
	// VerifDetailsAnnotationKey is the details annotation key.
	VerifDetailsAnnotationKey = detailsAnnotationKey
	// VerifWaitPollInterval is the requeue interval while waiting for the using resource.
	VerifWaitPollInterval = waitPollInterval
)

//go:build verif

package offered

// VerifC08Finalizer exports the XRD "offered" finalizer for the C08 table dump.
const VerifC08Finalizer = finalizer

//go:build verif

package resolver

import (
	"context"

	"github.com/google/go-containerregistry/pkg/name"

	"github.com/crossplane/crossplane-runtime/pkg/logging"

	"github.com/crossplane/crossplane/apis/pkg/v1beta1"
	internaldag "github.com/crossplane/crossplane/internal/dag"
	"github.com/crossplane/crossplane/internal/xpkg"
)

// VerifC17FindInstall runs the unexported findDependencyVersionToInstall of a
// Reconciler that has only the fields the function reads.
func VerifC17FindInstall(ctx context.Context, f xpkg.Fetcher, c xpkg.ConfigStore, dep *v1beta1.Dependency, ref name.Reference) (string, error) {
	r := &Reconciler{fetcher: f, config: c, log: logging.NewNopLogger()}
	return r.findDependencyVersionToInstall(ctx, dep, r.log, ref)
}

// VerifC17FindUpdate runs the unexported findDependencyVersionToUpdate.
func VerifC17FindUpdate(ctx context.Context, f xpkg.Fetcher, c xpkg.ConfigStore, downgrades bool, ref name.Reference, insVer string, dep internaldag.Node) (string, error) {
	r := &Reconciler{fetcher: f, config: c, log: logging.NewNopLogger(), downgradesEnabled: downgrades}
	return r.findDependencyVersionToUpdate(ctx, ref, insVer, dep, r.log)
}

// VerifC17FindDigest runs the unexported findDigestToUpdate.
func VerifC17FindDigest(dep internaldag.Node) (string, error) { return findDigestToUpdate(dep) }

//go:build verif

package xrd

import (
	"context"

	"k8s.io/apimachinery/pkg/runtime"
	"sigs.k8s.io/controller-runtime/pkg/client"
	"sigs.k8s.io/controller-runtime/pkg/webhook/admission"
)

// VerifValidator is the webhook validator of this package as seen by the
// verification harness (C11).
type VerifValidator interface {
	ValidateCreate(ctx context.Context, obj runtime.Object) (admission.Warnings, error)
	ValidateUpdate(ctx context.Context, oldObj, newObj runtime.Object) (admission.Warnings, error)
	ValidateDelete(ctx context.Context, obj runtime.Object) (admission.Warnings, error)
}

// VerifNewValidator builds the real (unexported) validator over the given client.
func VerifNewValidator(c client.Client) VerifValidator { return &validator{client: c} }

//go:build verif

package definition

// VerifC08Finalizer exports the XRD "defined" finalizer for the C08 table dump.
const VerifC08Finalizer = finalizer

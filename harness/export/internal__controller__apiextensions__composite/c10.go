//go:build verif

package composite

import "sort"

// VerifC10ConversionKeys returns the key set (from, to, format) of the unexported
// `conversions` table of the convert transform, sorted, for the C10 table dump.
func VerifC10ConversionKeys() [][3]string {
	out := make([][3]string, 0, len(conversions))
	for k := range conversions {
		out = append(out, [3]string{string(k.from), string(k.to), string(k.format)})
	}
	sort.Slice(out, func(i, j int) bool {
		for x := 0; x < 3; x++ {
			if out[i][x] != out[j][x] {
				return out[i][x] < out[j][x]
			}
		}
		return false
	})
	return out
}

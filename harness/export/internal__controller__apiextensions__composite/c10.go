//go:build verif

package composite

import (
	"sort"

	"k8s.io/apimachinery/pkg/runtime"

	xpv1 "github.com/crossplane/crossplane-runtime/apis/common/v1"

	v1 "github.com/crossplane/crossplane/apis/apiextensions/v1"
)

// VerifC10ConversionKeys returns the key set (from, to, format) of the unexported
// `conversions` table of the convert transform, sorted, for the C10 table dump.
func VerifC10ConversionKeys() [][3]string {
	out := make([][3]string, 0, len(conversions))
	for k := range conversions {
		out = append(out, [3]string{string(k.from), string(k.to), string(k.format)})
	}
	sort.Slice(out, func(i, j int) bool {
		for x := 0; x < 3; x++ {
			if out[i][x] != out[j][x] {
				return out[i][x] < out[j][x]
			}
		}
		return false
	})
	return out
}

// VerifC10MergeReplace exposes mergeReplace (merge.go), the body of the apply option
// withMergeOptions, so that the C10 harness can step a rendered object through a template's
// apply options while collecting the mergo operands of each step.
func VerifC10MergeReplace(path string, current, desired runtime.Object, mo *xpv1.MergeOptions) error {
	return mergeReplace(path, current, desired, mo)
}

// VerifC10PatchTypesFromXR / VerifC10PatchTypesToXR expose the patch-type filters of the render
// loops (composite.go) for the C10 table dump.
func VerifC10PatchTypesFromXR() []v1.PatchType { return patchTypesFromXR() }

// VerifC10PatchTypesToXR: see VerifC10PatchTypesFromXR.
func VerifC10PatchTypesToXR() []v1.PatchType { return patchTypesToXR() }

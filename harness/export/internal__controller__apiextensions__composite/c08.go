//go:build verif

package composite

// VerifC08Finalizer exports the XR finalizer for the C08 table dump.
const VerifC08Finalizer = finalizer

//go:build verif

package composite

import (
	"github.com/crossplane/crossplane-runtime/pkg/reconciler/managed"

	v1 "github.com/crossplane/crossplane/apis/apiextensions/v1"
)

// VerifC09WrapPublisher lets the verification harness observe (not replace) the connection
// publisher a Reconciler was configured with: wrap receives the real publisher.
func VerifC09WrapPublisher(r *Reconciler, wrap func(managed.ConnectionPublisher) managed.ConnectionPublisher) {
	r.composite.ConnectionPublisher = wrap(r.composite.ConnectionPublisher)
}

// VerifC09SetFunctionRunner replaces the innermost function runner (in production the gRPC
// client of the packaged functions, which cannot run offline) of the FunctionComposer that the
// Reconciler's composer selector returns for Pipeline mode. Everything else - the composer,
// its observer, its connection details fetcher, the extra-resources wrapper - stays as wired by
// the caller. It returns false if the Reconciler is not wired that way.
func VerifC09SetFunctionRunner(r *Reconciler, fr FunctionRunner) bool {
	var c Composer = r.resource
	if sel, ok := c.(ComposerSelectorFn); ok {
		m := v1.CompositionModePipeline
		c = sel(&m)
	}
	fc, ok := c.(*FunctionComposer)
	if !ok {
		return false
	}
	if ffr, ok := fc.pipeline.(*FetchingFunctionRunner); ok {
		ffr.wrapped = fr
		return true
	}
	fc.pipeline = fr
	return true
}

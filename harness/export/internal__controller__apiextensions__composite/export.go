//go:build verif

package composite

import (
	"github.com/crossplane/crossplane/internal/names"
)

// VerifWrapFnNameGenerator lets the verification harness observe (not replace)
// the name generator of a FunctionComposer: wrap receives the real generator.
func VerifWrapFnNameGenerator(c *FunctionComposer, wrap func(names.NameGenerator) names.NameGenerator) {
	c.composite.NameGenerator = wrap(c.composite.NameGenerator)
}

// VerifWrapPTNameGenerator does the same for a PTComposer.
func VerifWrapPTNameGenerator(c *PTComposer, wrap func(names.NameGenerator) names.NameGenerator) {
	c.composed.NameGenerator = wrap(c.composed.NameGenerator)
}

//go:build verif

package composite

import (
	fnv1 "github.com/crossplane/crossplane/apis/apiextensions/fn/proto/v1"
)

// VerifC04ConvertTarget exposes convertTarget: does a result / condition with this target
// reach the claim?
func VerifC04ConvertTarget(t fnv1.Target) bool {
	return convertTarget(t) == CompositionTargetCompositeAndClaim
}

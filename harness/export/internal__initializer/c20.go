//go:build verif

package initializer

// Verification shim for property C20 (overlaid as zz_verif_c20.go). Exposes the
// unexported certificate-generator seam of TLSCertificateGenerator and the
// fields of CertificateSigner so that the harness can (a) supply its own
// CertificateGenerator (the "Generate" parameter of the model) and (b) build
// pre-existing TLS material with the package's own parser.

import (
	"crypto/rsa"
	"crypto/x509"
)

// VerifSetCertGenerator replaces the certificate generator of a TLS step.
func VerifSetCertGenerator(e *TLSCertificateGenerator, g CertificateGenerator) { e.certificate = g }

// VerifSignerParts returns the parsed certificate, key and PEM of a signer.
func VerifSignerParts(s *CertificateSigner) (*x509.Certificate, *rsa.PrivateKey, []byte) {
	return s.certificate, s.key, s.certificatePEM
}

// VerifParseSigner is parseCertificateSigner.
func VerifParseSigner(key, cert []byte) (*CertificateSigner, error) {
	return parseCertificateSigner(key, cert)
}

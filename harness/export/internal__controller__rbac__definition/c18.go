//go:build verif

package definition

// C18 verification shim: read-only access to the unexported tables and constants.

// VerifTables returns the verb tables RenderClusterRoles uses.
func VerifTables() (edit, view, browse, update []string) {
	return verbsEdit, verbsView, verbsBrowse, verbsUpdate
}

// VerifConsts returns the string constants RenderClusterRoles uses.
func VerifConsts() map[string]string {
	return map[string]string{
		"namePrefix":            namePrefix,
		"nameSuffixSystem":      nameSuffixSystem,
		"nameSuffixEdit":        nameSuffixEdit,
		"nameSuffixView":        nameSuffixView,
		"nameSuffixBrowse":      nameSuffixBrowse,
		"keyAggregateToSystem":  keyAggregateToSystem,
		"keyAggregateToAdmin":   keyAggregateToAdmin,
		"keyAggregateToNSAdmin": keyAggregateToNSAdmin,
		"keyAggregateToEdit":    keyAggregateToEdit,
		"keyAggregateToNSEdit":  keyAggregateToNSEdit,
		"keyAggregateToView":    keyAggregateToView,
		"keyAggregateToNSView":  keyAggregateToNSView,
		"keyAggregateToBrowse":  keyAggregateToBrowse,
		"keyXRD":                keyXRD,
		"valTrue":               valTrue,
		"suffixStatus":          suffixStatus,
		"suffixFinalizers":      suffixFinalizers,
	}
}

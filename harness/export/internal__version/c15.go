//go:build verif

package version

// VerifNewWithVersion returns the real Versioner for a given Crossplane version
// string (the production constructor takes it from a link-time variable).
func VerifNewWithVersion(v string) *Versioner { return &Versioner{version: v} }

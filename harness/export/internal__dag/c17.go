//go:build verif

package dag

// VerifC17IsValidConstraints exports isValidConstraints of upgrading_dag.go.
func VerifC17IsValidConstraints(installed, wanted Node) bool { return isValidConstraints(installed, wanted) }

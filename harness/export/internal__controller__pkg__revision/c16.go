//go:build verif

package revision

import (
	"context"

	"k8s.io/apimachinery/pkg/runtime"
	"sigs.k8s.io/controller-runtime/pkg/client"

	"github.com/crossplane/crossplane-runtime/pkg/resource"

	v1 "github.com/crossplane/crossplane/apis/pkg/v1"
)

// Exports of unexported APIEstablisher methods for the C16 table dumps (harness/main/c16_enrich.go):
// the tables are produced by running these very functions of the current tree.

// VerifC16ServicePort is the port enrichControlledResource points webhook client configs at.
const VerifC16ServicePort = servicePort

// VerifC16Enrich calls enrichControlledResource.
func (e *APIEstablisher) VerifC16Enrich(res runtime.Object, cert []byte, parent v1.PackageRevision) error {
	return e.enrichControlledResource(res, cert, parent)
}

// VerifC16AddLabels calls addLabels.
func (e *APIEstablisher) VerifC16AddLabels(objs []runtime.Object, parent v1.PackageRevision) error {
	return e.addLabels(objs, parent)
}

// VerifC16Create calls create (without options: a real create).
func (e *APIEstablisher) VerifC16Create(ctx context.Context, obj, parent resource.Object) error {
	return e.create(ctx, obj, parent)
}

// VerifC16Update calls update (without options: a real update).
func (e *APIEstablisher) VerifC16Update(ctx context.Context, current, desired, parent resource.Object, control bool) error {
	return e.update(ctx, current, desired, parent, control)
}

var _ client.Client

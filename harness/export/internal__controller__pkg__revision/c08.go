//go:build verif

package revision

// VerifC08Finalizer and VerifC08LockName export constants for the C08 table dump.
const (
	VerifC08Finalizer = finalizer
	VerifC08LockName  = lockName
)

//go:build verif

package xcrd

import (
	v1 "github.com/crossplane/crossplane/apis/apiextensions/v1"
)

// Error texts of crd.go, exported for the verification harness (C11) so that it
// can map returned errors to the model's error enum without copying strings.
const (
	VerifErrParseValidation             = errParseValidation
	VerifErrCustomResourceValidationNil = errCustomResourceValidationNil
	VerifErrMissingClaimNames           = errMissingClaimNames
	VerifErrInvalidClaimNames           = errInvalidClaimNames
	VerifErrFmtConflictingClaimName     = errFmtConflictingClaimName
)

// VerifValidateClaimNames exposes validateClaimNames.
func VerifValidateClaimNames(d *v1.CompositeResourceDefinition) error { return validateClaimNames(d) }

//go:build verif

package roles

import (
	rbacv1 "k8s.io/api/rbac/v1"
)

// C18 verification shim: read-only access to the unexported rule tables,
// constants and the rule tree of this package. Nothing here changes behaviour.

// VerifTables returns the baseline tables RenderClusterRoles uses.
func VerifTables() (extra []rbacv1.PolicyRule, edit, view, system, update []string) {
	return rulesSystemExtra, verbsEdit, verbsView, verbsSystem, verbsUpdate
}

// VerifConsts returns the string constants RenderClusterRoles and the rule tree use.
func VerifConsts() map[string]string {
	return map[string]string{
		"namePrefix":               namePrefix,
		"nameSuffixEdit":           nameSuffixEdit,
		"nameSuffixView":           nameSuffixView,
		"nameSuffixSystem":         nameSuffixSystem,
		"keyAggregateToCrossplane": keyAggregateToCrossplane,
		"keyAggregateToAdmin":      keyAggregateToAdmin,
		"keyAggregateToEdit":       keyAggregateToEdit,
		"keyAggregateToView":       keyAggregateToView,
		"keyProviderName":          keyProviderName,
		"valTrue":                  valTrue,
		"suffixStatus":             suffixStatus,
		"suffixFinalizers":         suffixFinalizers,
		"wildcard":                 wildcard,
		"pathPrefixURL":            pathPrefixURL,
		"pathPrefixResource":       pathPrefixResource,
		"resourceAll":              rbacv1.ResourceAll,
	}
}

// VerifTree is the package's rule tree.
type VerifTree struct{ n *node }

// VerifNewTree returns an empty rule tree (newNode).
func VerifNewTree() *VerifTree { return &VerifTree{n: newNode()} }

// Allow calls node.Allow.
func (t *VerifTree) Allow(p []string) { t.n.Allow(path(p)) }

// Allowed calls node.Allowed.
func (t *VerifTree) Allowed(p []string) bool { return t.n.Allowed(path(p)) }
